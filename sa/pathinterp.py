"""Path-sensitive abstract interpreter over the CFG ("evaluated-at" taint).

Domain.  A value V has
  sym    identity of the value when it is used as an inverse temperature
         (('key','beta'), ('const', 1.0), ('node', <id>), ('param', name) ...)
  at     the set of temperature symbols the value was *computed at*: results of
         the weight function compute_logw_and_logz(B) are at {sym(B)}, and
         everything derived from them inherits the set
  kinds  {'logw'} / {'logz'}: which component of the weight function it derives from
  tup    component values for tuples
  none   True when the value is the constant None
  func   a callable (closure or method) for calls through parameters

Paths are enumerated over the statement CFG with every node visited at most
`max_visits` times (loops unrolled once); `X is None` tests on values whose
None-ness is known prune infeasible branches.  Internal calls are interpreted
by inlining (depth-bounded, memoised by abstract arguments).  No concrete value
is ever computed and no solver is used.
"""
from __future__ import annotations

import ast
from dataclasses import dataclass, field
from typing import Callable, Dict, FrozenSet, List, Optional, Tuple

from .cfg import CFG, Node, cfg_of
from .engine import Context
from .model import AnalysisError, ClassInfo, FuncInfo, dotted, norm_text
from .util import call_arg, is_none_test, split_cond


class V:
    __slots__ = ("sym", "at", "kinds", "tup", "none", "func", "src", "alts")

    def __init__(self, sym=None, at=frozenset(), kinds=frozenset(), tup=None, none=None, func=None, src=""):
        self.alts = None  # distinct per-path results of an inlined call (the caller forks on them when it binds the result)
        self.sym = sym
        self.at = frozenset(at)
        self.kinds = frozenset(kinds)
        self.tup = tup
        self.none = none
        self.func = func
        self.src = src

    def __repr__(self):
        if self.tup is not None:
            return "(" + ", ".join(map(repr, self.tup)) + ")"
        if self.none:
            return "None"
        parts = []
        if self.sym is not None:
            parts.append(f"sym={self.sym}")
        if self.at:
            parts.append(f"at={set(self.at)}")
        if self.kinds:
            parts.append(f"kinds={set(self.kinds)}")
        return "V(" + ", ".join(parts) + ")"

    def key(self):
        if self.tup is not None:
            return ("t",) + tuple(x.key() for x in self.tup)
        return (self.sym, tuple(sorted(map(repr, self.at))), tuple(sorted(self.kinds)), self.none, id(self.func) if self.func else None)


def all_at(v: V) -> FrozenSet:
    if v.tup is not None:
        out = frozenset()
        for x in v.tup:
            out |= all_at(x)
        return out
    return v.at


def all_kinds(v: V) -> FrozenSet:
    if v.tup is not None:
        out = frozenset()
        for x in v.tup:
            out |= all_kinds(x)
        return out
    return v.kinds


@dataclass
class Event:
    kind: str  # 'call' | 'return' | 'write'
    node: Node
    func: FuncInfo
    callee: Optional[FuncInfo] = None
    args: Dict[str, V] = field(default_factory=dict)
    value: Optional[V] = None
    facts: List[Tuple[ast.expr, bool, Dict[str, V]]] = field(default_factory=list)
    call: Optional[ast.Call] = None


class Closure:
    def __init__(self, fi: FuncInfo, env: Dict[str, V], self_cls: Optional[ClassInfo]):
        self.fi = fi
        self.env = env
        self.self_cls = self_cls


class Interp:
    def __init__(self, ctx: Context, weight_fn: FuncInfo, max_visits: int = 2, max_paths: int = 30000, max_depth: int = 4, inline: Optional[Callable[[FuncInfo], bool]] = None):
        self.ctx = ctx
        self.weight_fn = weight_fn
        self.max_visits = max_visits
        self.max_paths = max_paths
        self.max_depth = max_depth
        self.inline = inline or (lambda f: True)
        self._memo: Dict[tuple, List[Tuple[V, list]]] = {}
        self.n_paths = 0

    # ---------------------------------------------------------------- driver
    def run_function(self, fi: FuncInfo, args: Optional[Dict[str, V]] = None, closure_env: Optional[Dict[str, V]] = None, depth: int = 0):
        """Enumerate paths of fi; returns list of (return value, events, facts)."""
        cfg = cfg_of(fi.node)
        env: Dict[str, V] = dict(closure_env or {})
        for p in fi.params:
            if args and p in args:
                env[p] = args[p]
            elif p in ("self", "cls"):
                env[p] = V(sym=("self",))
            else:
                d = fi.param_default(p)
                if d is not None and isinstance(d, ast.Constant):
                    env[p] = self._const(d)
                else:
                    env[p] = V(sym=("param", fi.short, p))
        results: List[Tuple[V, List[Event], list]] = []
        stack = [(cfg.entry.id, env, {}, [], [])]
        count = 0
        while stack:
            nid, env, visits, events, facts = stack.pop()
            node = cfg.nodes[nid]
            if nid == cfg.exit.id:
                # fall-through return None / explicit returns recorded already
                rv = env.get("__return__", V(none=True))
                results.append((rv, events, facts))
                count += 1
                self.n_paths += 1
                if count > self.max_paths:
                    raise AnalysisError(f"path interpreter: more than {self.max_paths} paths in {fi.short}")
                continue
            if nid == cfg.raise_exit.id:
                continue
            v = visits.get(nid, 0)
            if v >= self.max_visits:
                continue
            visits = dict(visits)
            visits[nid] = v + 1
            env = dict(env)
            events = list(events)
            forks = self._transfer(fi, node, env, events, facts, depth) or [(env, events)]
            for (env, events) in forks:
                for (t, lab) in cfg.succ[nid]:
                    if lab and lab[0] == "exc":
                        continue
                    nf = facts
                    if lab and lab[0] == "cond":
                        feas = self._feasible(fi, lab[1], lab[2], env)
                        if feas is False:
                            continue
                        nf = facts + [(lab[1], lab[2], {n.id: env.get(n.id) for n in ast.walk(lab[1]) if isinstance(n, ast.Name) and n.id in env}, self._eval_cond_operands(fi, lab[1], env, depth))]
                    stack.append((t, env, visits, events, nf))
        return results

    def _eval_cond_operands(self, fi, test, env, depth):
        """Abstract values of the operands of comparison atoms in the test (for fact checking)."""
        out = {}
        for (atom, _) in split_cond(test, True) + split_cond(test, False):
            if isinstance(atom, ast.Compare) and len(atom.ops) == 1:
                out[norm_text(atom)] = (self.eval(fi, atom.left, env, [], depth), type(atom.ops[0]).__name__, self.eval(fi, atom.comparators[0], env, [], depth))
        return out

    def _feasible(self, fi, test, pol, env) -> Optional[bool]:
        for (atom, p) in split_cond(test, pol):
            nt = is_none_test(atom)
            if nt is not None and isinstance(nt[0], ast.Name):
                v = env.get(nt[0].id)
                if v is not None and v.none is not None and v.tup is None:
                    holds = (v.none is True) == nt[1]
                    if holds != p:
                        return False
        return None

    # -------------------------------------------------------------- transfer
    def _transfer(self, fi: FuncInfo, node: Node, env: Dict[str, V], events: List[Event], facts, depth: int):
        s = node.stmt
        if node.kind == "stmt":
            if isinstance(s, ast.Assign):
                val = self.eval(fi, s.value, env, events, depth, node, facts)
                if val.alts and isinstance(s.value, ast.Call):
                    # the callee returns different (correlated) results on different paths: continue once per result
                    out = []
                    for alt in val.alts:
                        e2 = dict(env)
                        for t in s.targets:
                            self._bind(t, alt, e2)
                        out.append((e2, list(events)))
                    return out
                for t in s.targets:
                    self._bind(t, val, env)
            elif isinstance(s, ast.AnnAssign) and s.value is not None:
                self._bind(s.target, self.eval(fi, s.value, env, events, depth, node, facts), env)
            elif isinstance(s, ast.AugAssign):
                cur = self.eval(fi, s.target, env, events, depth, node, facts) if isinstance(s.target, ast.Name) else V()
                val = self.eval(fi, s.value, env, events, depth, node, facts)
                if isinstance(s.target, ast.Name):
                    env[s.target.id] = V(sym=("node", id(s)), at=all_at(cur) | all_at(val), kinds=all_kinds(cur) | all_kinds(val))
            elif isinstance(s, ast.Expr):
                self.eval(fi, s.value, env, events, depth, node, facts)
            elif isinstance(s, ast.Return):
                rv = self.eval(fi, s.value, env, events, depth, node, facts) if s.value is not None else V(none=True)
                env["__return__"] = rv
                events.append(Event("return", node, fi, value=rv, facts=list(facts)))
            elif isinstance(s, (ast.FunctionDef, ast.AsyncFunctionDef)):
                sub = fi.nested.get(s.name)
                if sub is not None:
                    env[s.name] = V(func=Closure(sub, env, fi.cls))
        elif node.kind == "for":
            it = self.eval(fi, s.iter, env, events, depth, node, facts)
            self._bind(s.target, V(at=all_at(it), kinds=all_kinds(it)), env)
        elif node.kind == "test":
            # evaluate calls in the test for their events
            self.eval(fi, node.ast, env, events, depth, node, facts)

    def _bind(self, t: ast.expr, val: V, env: Dict[str, V]):
        if isinstance(t, ast.Name):
            env[t.id] = val
        elif isinstance(t, (ast.Tuple, ast.List)):
            for i, e in enumerate(t.elts):
                if val.tup is not None and i < len(val.tup):
                    self._bind(e, val.tup[i], env)
                else:
                    self._bind(e, V(at=all_at(val), kinds=all_kinds(val)), env)
        elif isinstance(t, ast.Attribute) and isinstance(t.value, ast.Name) and t.value.id == "self":
            env["self." + t.attr] = val

    def _const(self, c: ast.Constant) -> V:
        if c.value is None:
            return V(none=True)
        if isinstance(c.value, (int, float)) and not isinstance(c.value, bool):
            return V(sym=("const", float(c.value)), none=False)
        return V(none=False)

    # ------------------------------------------------------------------ eval
    def eval(self, fi: FuncInfo, e: ast.expr, env: Dict[str, V], events: List[Event], depth: int, node: Optional[Node] = None, facts=None) -> V:
        ev = lambda x: self.eval(fi, x, env, events, depth, node, facts)  # noqa: E731
        if e is None:
            return V(none=True)
        if isinstance(e, ast.Constant):
            return self._const(e)
        if isinstance(e, ast.Name):
            if e.id in env:
                return env[e.id]
            return V(sym=("global", e.id))
        if isinstance(e, ast.Tuple):
            return V(tup=[ev(x) for x in e.elts], none=False)
        if isinstance(e, (ast.List, ast.Set)):
            vs = [ev(x) for x in e.elts]
            return V(at=frozenset().union(*[all_at(v) for v in vs]) if vs else frozenset(), kinds=frozenset().union(*[all_kinds(v) for v in vs]) if vs else frozenset(), none=False)
        if isinstance(e, ast.Dict):
            vs = [ev(x) for x in e.values if x is not None]
            return V(at=frozenset().union(*[all_at(v) for v in vs]) if vs else frozenset(), none=False)
        if isinstance(e, ast.Attribute):
            d = dotted(e)
            if d and d.startswith("self.") and d in env:
                return env[d]
            if d and d.startswith("self.") and d.count(".") == 1 and fi.cls is not None:
                # a bound method used as a callable value (metric_fn=self._ess_objective)
                m = self.ctx.prog.mro_lookup(fi.cls, e.attr)
                if m is not None:
                    return V(func=Closure(m, {}, fi.cls), sym=("attr", d))
            if d and d.startswith("self."):
                return V(sym=("attr", d))
            b = ev(e.value)
            out_ = V(at=all_at(b), kinds=all_kinds(b))
            if not all_at(b) and not all_kinds(b) and b.none is not True and not (isinstance(b.sym, tuple) and b.sym and b.sym[0] in ("const", "key")):
                out_.src = "opaque"  # a field of an object the interpreter knows nothing about
            return out_
        if isinstance(e, ast.Subscript):
            b = ev(e.value)
            if b.tup is not None and isinstance(e.slice, ast.Constant) and isinstance(e.slice.value, int) and -len(b.tup) <= e.slice.value < len(b.tup):
                return b.tup[e.slice.value]
            i = ev(e.slice) if not isinstance(e.slice, ast.Slice) else V()
            # an exact-key memo on the object: self.<cache>[beta] holds what was stored for an *equal* beta; a key that
            # is a lossy function of beta (rounded / binned) is not tracked, i.e. evaluated at no known temperature
            if isinstance(e.value, ast.Attribute) and isinstance(e.value.value, ast.Name) and e.value.value.id == "self" and isinstance(e.slice, ast.Name) \
                    and i.sym is not None and not all_at(i) and not all_at(b):
                return V(at={i.sym}, kinds={"logw"}, none=False)
            # ... the same with a composite exact key (beta, <configuration attributes / constants>): equal keys have equal beta
            if isinstance(e.value, ast.Attribute) and isinstance(e.value.value, ast.Name) and e.value.value.id == "self" and isinstance(e.slice, ast.Name) \
                    and i.tup is not None and not all_at(i) and not all_at(b):
                var = [x for x in i.tup if not (isinstance(x.sym, tuple) and x.sym and x.sym[0] == "attr") and x.none is not True]
                if len(var) == 1 and var[0].sym is not None and var[0].tup is None:
                    return V(at={var[0].sym}, kinds={"logw"}, none=False)
            return V(at=all_at(b) | all_at(i), kinds=all_kinds(b) | all_kinds(i), none=False)
        if isinstance(e, ast.IfExp):
            ev(e.test)
            a, b = ev(e.body), ev(e.orelse)
            if a.key() == b.key():
                return a
            return V(at=all_at(a) | all_at(b), kinds=all_kinds(a) | all_kinds(b))
        if isinstance(e, (ast.BinOp, ast.BoolOp, ast.Compare, ast.UnaryOp)):
            subs = [x for x in ast.iter_child_nodes(e) if isinstance(x, ast.expr)]
            vs = [ev(x) for x in subs]
            at = frozenset().union(*[all_at(v) for v in vs]) if vs else frozenset()
            kinds = frozenset().union(*[all_kinds(v) for v in vs]) if vs else frozenset()
            return V(sym=("node", id(e)), at=at, kinds=kinds, none=False)
        if isinstance(e, ast.Call):
            return self._call(fi, e, env, events, depth, node, facts)
        if isinstance(e, (ast.ListComp, ast.GeneratorExp, ast.SetComp, ast.DictComp)):
            env2 = dict(env)
            at = frozenset()
            for g in e.generators:
                it = self.eval(fi, g.iter, env2, events, depth, node, facts)
                self._bind(g.target, V(at=all_at(it), kinds=all_kinds(it)), env2)
                at |= all_at(it)
            body = e.value if isinstance(e, ast.DictComp) else e.elt
            b = self.eval(fi, body, env2, events, depth, node, facts)
            return V(at=at | all_at(b), kinds=all_kinds(b), none=False)
        if isinstance(e, ast.JoinedStr):
            return V(none=False)
        if isinstance(e, ast.Lambda):
            return V(none=False)
        return V()

    def _call(self, fi: FuncInfo, e: ast.Call, env, events, depth, node, facts) -> V:
        argvals = [self.eval(fi, a, env, events, depth, node, facts) for a in e.args if not isinstance(a, ast.Starred)]
        # f(*t): the elements of t are arguments too (an object built from the tuple an evaluation returned carries its temperature)
        starvals = [self.eval(fi, a.value, env, events, depth, node, facts) for a in e.args if isinstance(a, ast.Starred)]
        kwvals = {k.arg: self.eval(fi, k.value, env, events, depth, node, facts) for k in e.keywords if k.arg}
        # callable value (closure / callable parameter)
        callee_fi: Optional[FuncInfo] = None
        closure_env = None
        if isinstance(e.func, ast.Name) and e.func.id in env and env[e.func.id].func is not None:
            c: Closure = env[e.func.id].func
            callee_fi, closure_env = c.fi, c.env
        else:
            tg = self.ctx.res.call_targets(fi, e)
            ftg = [t for t in tg if isinstance(t, FuncInfo)]
            if self.weight_fn in ftg:
                b = argvals[0] if argvals else kwvals.get("beta_final")
                if b is None:
                    d = self.weight_fn.param_default("beta_final")
                    b = self._const(d) if isinstance(d, ast.Constant) else V()
                s = b.sym if b.sym is not None else ("node", id(e.args[0]) if e.args else id(e))
                return V(tup=[V(at={s}, kinds={"logw"}, none=False), V(at={s}, kinds={"logz"}, none=False)], none=False)
            if len(ftg) == 1 and ftg[0].parent is not None:
                # closure resolved statically (defined in an enclosing function)
                callee_fi = ftg[0]
                closure_env = env
            elif len(ftg) >= 1:
                callee_fi = ftg[0] if len(ftg) == 1 else None
        # state reads
        if isinstance(e.func, ast.Attribute) and e.func.attr in ("get_current", "get_last_history") and e.args and isinstance(e.args[0], ast.Constant):
            return V(sym=("key", e.args[0].value))
        if callee_fi is not None:
            binding = self._bind_args(callee_fi, e, argvals, kwvals)
            events.append(Event("call", node, fi, callee=callee_fi, args=binding, facts=list(facts or []), call=e))
            if depth < self.max_depth and self.inline(callee_fi):
                key = (callee_fi.qualname, tuple(sorted((k, v.key()) for k, v in binding.items())))
                if key not in self._memo:
                    self._memo[key] = []  # recursion guard
                    res = self.run_function(callee_fi, binding, closure_env if callee_fi.parent is not None else None, depth + 1)
                    self._memo[key] = [(rv, evs) for (rv, evs, fs) in res]
                rets = self._memo[key]
                # sub-events (nested calls of interest) are surfaced too
                for (rv, evs) in rets[:1]:
                    for x in evs:
                        if x.kind == "call":
                            events.append(x)
                vals = [rv for (rv, _) in rets]
                if vals:
                    k0 = vals[0].key()
                    if all(v.key() == k0 for v in vals):
                        return vals[0]
                    j = self._join(vals)
                    # results that were computed at different temperatures are kept apart (the caller forks on
                    # them); results at the same temperature are joined as before
                    groups: Dict[FrozenSet, List[V]] = {}
                    for v in vals:
                        groups.setdefault(all_at(v), []).append(v)
                    if 1 < len(groups) <= 8:
                        j.alts = [g[0] if all(x.key() == g[0].key() for x in g) else self._join(g) for g in groups.values()]
                    return j
        at = frozenset()
        kinds = frozenset()
        for v in argvals + starvals + list(kwvals.values()):
            at |= all_at(v)
            kinds |= all_kinds(v)
        if isinstance(e.func, ast.Attribute):
            b = self.eval(fi, e.func.value, env, events, depth, node, facts)
            at |= all_at(b)
            kinds |= all_kinds(b)
        if "logz" in kinds and len(kinds) > 1:
            kinds = frozenset({"logw"})
        return V(sym=("node", id(e)), at=at, kinds=kinds, none=False)

    def _join(self, vals: List[V]) -> V:
        if all(v.tup is not None for v in vals) and len({len(v.tup) for v in vals}) == 1:
            n = len(vals[0].tup)
            return V(tup=[self._join([v.tup[i] for v in vals]) for i in range(n)], none=False)
        syms = {v.sym for v in vals}
        at = frozenset().union(*[all_at(v) for v in vals])
        # a value that was computed at no temperature at all (e.g. read back from a cache attribute) must not be
        # absorbed by its siblings: the join is "evaluated at one of these *or unknown*"
        def _untracked(v):
            return (not all_at(v)) and v.none is not True and not (isinstance(v.sym, tuple) and v.sym and v.sym[0] == "const")

        if at and any(_untracked(v) for v in vals):
            at = at | {("untracked", tuple(sorted({repr(v.sym) for v in vals if _untracked(v)}))[:1])}
        kinds = frozenset().union(*[all_kinds(v) for v in vals])
        nones = {v.none for v in vals}
        return V(sym=syms.pop() if len(syms) == 1 else ("join", tuple(sorted(map(repr, syms)))), at=at, kinds=kinds, none=nones.pop() if len(nones) == 1 else None)

    def _bind_args(self, callee: FuncInfo, e: ast.Call, argvals: List[V], kwvals: Dict[str, V]) -> Dict[str, V]:
        params = [p for p in callee.params]
        if params and params[0] in ("self", "cls") and callee.cls is not None and not callee.is_staticmethod:
            params = params[1:]
        out: Dict[str, V] = {}
        for p, v in zip(params, argvals):
            out[p] = v
        for k, v in kwvals.items():
            out[k] = v
        return out
