"""A3 record coherence: field tagging of particle arrays and discovery of
record-move sites (blocks of sibling subscript statements that move rows of the
parallel arrays u, x, logl[, blobs] with one index).
"""
from __future__ import annotations

import ast
from dataclasses import dataclass, field
from typing import Dict, List, Optional, Set, Tuple

from .dataflow import FunctionFlow, flow_of, select_path
from .engine import Context
from .model import FuncInfo, dotted, norm_text, walk_no_nested
from .util import call_arg

PARTICLE_FIELDS = ("u", "x", "logl", "blobs")
AUX_FIELDS = ("weights", "logw", "assignments", "labels")
ALL_FIELDS = PARTICLE_FIELDS + AUX_FIELDS
PASS_THROUGH = {"numpy.asarray", "numpy.array", "numpy.empty_like", "numpy.zeros_like", "numpy.copy", "numpy.atleast_2d", "numpy.ascontiguousarray"}


def name_tag(name: str) -> Optional[str]:
    toks = name.replace(".", "_").split("_")
    toks = [t for t in toks if t and t != "self"]
    for t in toks:
        if t in ALL_FIELDS:
            return t
    return None


class Tagger:
    """Field tag of an expression: derived from state keys and role calls
    through reaching definitions, with the variable's own name as fallback."""

    def __init__(self, ctx: Context, fi: FuncInfo):
        self.ctx = ctx
        self.fi = fi
        self.flow = flow_of(fi.node)

    def tag(self, e: ast.expr, at, depth: int = 0) -> Optional[str]:
        if depth > 8 or e is None:
            return None
        if isinstance(e, ast.Subscript):
            return self.tag(e.value, at, depth + 1)
        if isinstance(e, ast.Attribute):
            if e.attr in ("T",):
                return self.tag(e.value, at, depth + 1)
            return name_tag(e.attr)
        if isinstance(e, ast.Call):
            f = e.func
            if isinstance(f, ast.Attribute) and f.attr in ("get_history", "get_current", "get_last_history"):
                k = call_arg(e, 0, "key")
                if isinstance(k, ast.Constant) and isinstance(k.value, str):
                    return k.value if k.value in ALL_FIELDS else None
            if isinstance(f, ast.Attribute) and f.attr in ("copy", "astype", "reshape"):
                return self.tag(f.value, at, depth + 1)
            role = self.role_of_call(e)
            if role == "prior_transform":
                return "x"
            name = self.ctx.res.external_name(self.fi, e)
            if name in PASS_THROUGH and e.args:
                inner = e.args[0]
                if isinstance(inner, ast.ListComp):
                    inner = inner.elt
                if isinstance(inner, ast.Call) and self.role_of_call(inner) == "prior_transform":
                    return "x"
                return self.tag(inner, at, depth + 1)
            return None
        if isinstance(e, ast.Name):
            ds = self.flow.reaching(at, e.id) if at is not None else []
            tags = set()
            for d in ds:
                if d.kind == "assign" and d.value is not None:
                    v = select_path(d.value, d.path) if d.path else d.value
                    if v is None:
                        # tuple from a call: likelihood wrapper -> (logl, blobs)
                        if isinstance(d.value, ast.Call) and self.role_of_call(d.value) == "likelihood" and len(d.path) == 1 and isinstance(d.path[0], int):
                            tags.add(("logl", "blobs")[d.path[0]] if d.path[0] < 2 else None)
                        else:
                            tags.add(None)
                    elif v is d.value and isinstance(v, ast.Subscript) and isinstance(v.value, ast.Name) and v.value.id == e.id:
                        # x = x[idx]: same field
                        tags.add(name_tag(e.id))
                    else:
                        tags.add(self.tag(v, d.node, depth + 1))
                else:
                    tags.add(None)
            tags.discard(None)
            if len(tags) == 1:
                t = tags.pop()
                return t
            return name_tag(e.id)
        return None

    def role_of_call(self, call: ast.Call) -> Optional[str]:
        """'prior_transform' / 'likelihood' when the callee is the attribute or
        parameter wired from the configuration's callables."""
        f = call.func
        d = dotted(f)
        last = d.split(".")[-1] if d else ""
        if last == "prior_transform":
            return "prior_transform"
        if last in ("log_likelihood", "_log_like", "_evaluate_likelihood", "log_like"):
            return "likelihood"
        tg = self.ctx.res.call_targets(self.fi, call)
        for t in tg:
            if isinstance(t, FuncInfo) and t.name in ("_evaluate_likelihood", "_log_like"):
                return "likelihood"
        return None


@dataclass
class Move:
    stmt: ast.stmt
    node: object  # CFG node
    dst_tag: Optional[str]
    src_tag: Optional[str]
    dst_index: Optional[Tuple[str, frozenset]]
    src_index: Optional[Tuple[str, frozenset]]
    text: str
    expr: ast.AST = None


@dataclass
class Site:
    func: FuncInfo
    index: Tuple[str, frozenset]
    moves: List[Move] = field(default_factory=list)

    @property
    def index_name(self) -> str:
        return self.index[0]

    def fields(self) -> Set[str]:
        out = set()
        for m in self.moves:
            if m.dst_tag:
                out.add(m.dst_tag)
            elif m.src_tag:
                out.add(m.src_tag)
        return out

    def key(self) -> str:
        return f"{self.func.short}[{self.index_name}]"


def _index_id(flow: FunctionFlow, at, idx: ast.expr) -> Optional[Tuple[str, frozenset]]:
    if isinstance(idx, ast.Name):
        ds = flow.reaching(at, idx.id)
        return (idx.id, frozenset(d.node.id if d.node is not None else -1 for d in ds))
    if isinstance(idx, (ast.Constant, ast.Slice)):
        return None
    return ("<" + norm_text(idx)[:40] + ">", frozenset())


def discover_sites(ctx: Context, fi: FuncInfo) -> List[Site]:
    """Record-move sites of one function: statements of the forms
        T[I] = S[J]         (row update)
        T = S[I]            (row selection)
        {"k": S[I], ...}    (selection stored under a key)
        set_current("k", S[I])
    grouped by the identity (name + reaching definitions) of the index I."""
    flow = flow_of(fi.node)
    tg = Tagger(ctx, fi)
    sites: Dict[Tuple[str, frozenset], Site] = {}

    def add(idx_id, mv: Move):
        if idx_id is None:
            return
        sites.setdefault(idx_id, Site(fi, idx_id)).moves.append(mv)

    for n in flow.cfg.stmt_nodes():
        if n.kind != "stmt":
            continue
        s = n.stmt
        if isinstance(s, ast.Assign) and len(s.targets) == 1:
            t = s.targets[0]
            v = s.value
            if isinstance(t, ast.Subscript) and not isinstance(t.slice, (ast.Slice, ast.Constant)):
                di = _index_id(flow, n, t.slice)
                si = None
                stag = None
                if isinstance(v, ast.Subscript):
                    si = _index_id(flow, n, v.slice)
                    stag = tg.tag(v.value, n)
                dtag = tg.tag(t.value, n)
                if dtag in ALL_FIELDS or stag in ALL_FIELDS:
                    add(di, Move(s, n, dtag, stag, di, si, norm_text(s), s))
                continue
            if isinstance(t, ast.Name) and isinstance(v, ast.Subscript) and not isinstance(v.slice, (ast.Slice, ast.Constant)):
                si = _index_id(flow, n, v.slice)
                stag = tg.tag(v.value, n)
                dtag = name_tag(t.id) if name_tag(t.id) else stag
                if stag in ALL_FIELDS:
                    add(si, Move(s, n, dtag, stag, None, si, norm_text(s), s))
                continue
        # selections inside dict literals / set_current / update_current arguments
        for c in walk_no_nested(s):
            if isinstance(c, ast.Dict):
                for k, v in zip(c.keys, c.values):
                    if isinstance(k, ast.Constant) and isinstance(k.value, str):
                        self_sel = _selection(flow, tg, n, v)
                        if self_sel is not None:
                            si, stag = self_sel
                            add(si, Move(s, n, k.value if k.value in ALL_FIELDS else None, stag, None, si, norm_text(v), v))
            elif isinstance(c, ast.Call) and not (isinstance(c.func, ast.Attribute) and c.func.attr in ("set_current", "update_current")) and len(c.args) + len(c.keywords) >= 2:
                # a record rebuilt row-wise through a constructor / function call: R(u=S_u[I], x=S_x[I], ...)
                sels = []
                for (nm, v) in [(None, a) for a in c.args] + [(k.arg, k.value) for k in c.keywords]:
                    vv = v.body if isinstance(v, ast.IfExp) else v
                    sel = _selection(flow, tg, n, vv)
                    if sel is not None and isinstance(vv, (ast.Subscript, ast.Call)):
                        sels.append((nm, sel, vv))
                if len(sels) >= 2 and len({sel[0] for (_, sel, _) in sels}) == 1:
                    for (nm, (si, stag), vv) in sels:
                        add(si, Move(s, n, (name_tag(nm) if nm else None) or stag, stag, None, si, norm_text(vv), vv))
            elif isinstance(c, ast.Call) and isinstance(c.func, ast.Attribute) and c.func.attr == "set_current":
                k = call_arg(c, 0, "key")
                v = call_arg(c, 1, "value")
                if isinstance(k, ast.Constant) and v is not None:
                    sel = _selection(flow, tg, n, v)
                    if sel is not None:
                        si, stag = sel
                        add(si, Move(s, n, k.value if k.value in ALL_FIELDS else None, stag, None, si, norm_text(c), c))
    return list(sites.values())


def _selection(flow, tg: Tagger, n, v: ast.expr):
    """S[I] (possibly wrapped in .copy()) or a local uniquely defined as S[I]."""
    if isinstance(v, ast.Call) and isinstance(v.func, ast.Attribute) and v.func.attr == "copy":
        v = v.func.value
    if isinstance(v, ast.Subscript) and not isinstance(v.slice, (ast.Slice, ast.Constant)):
        si = _index_id(flow, n, v.slice)
        stag = tg.tag(v.value, n)
        if si is not None and stag in ALL_FIELDS:
            return si, stag
    if isinstance(v, ast.Name):
        ds = flow.reaching(n, v.id)
        if len(ds) == 1 and ds[0].kind == "assign" and isinstance(ds[0].value, ast.Subscript) and not ds[0].path:
            vv = ds[0].value
            if not isinstance(vv.slice, (ast.Slice, ast.Constant)):
                si = _index_id(flow, ds[0].node, vv.slice)
                stag = tg.tag(vv.value, ds[0].node)
                if si is not None and stag in ALL_FIELDS:
                    return si, stag
    return None
