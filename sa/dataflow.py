"""Reaching definitions, def-use, expression resolution (inlining of uniquely
defined locals) and backward dependence slices over the CFG of one function.
"""
from __future__ import annotations

import ast
import copy
from typing import Dict, FrozenSet, List, Optional, Set, Tuple

from .cfg import CFG, Node, cfg_of
from .model import walk_no_nested


class Def:
    """One definition of a local name at a CFG node.

    value: the defining expression (RHS) when the definition is a plain
    assignment; for tuple unpacking `path` holds the index path into the RHS
    (e.g. (1, 0) for `_, (a, b) = f()` defining a).  kind: 'assign', 'aug',
    'for', 'with', 'param', 'import', 'def', 'except', 'global-unknown'.
    """

    __slots__ = ("name", "node", "kind", "value", "path", "stmt")

    def __init__(self, name, node: Optional[Node], kind, value=None, path=(), stmt=None):
        self.name = name
        self.node = node
        self.kind = kind
        self.value = value
        self.path = tuple(path)
        self.stmt = stmt

    def __repr__(self):
        return f"Def({self.name}@{self.node.id if self.node else 'param'}:{self.kind})"


def _targets(t: ast.expr, path=()) -> List[Tuple[str, tuple, ast.expr]]:
    """(name, path, target-node) for every Name bound by assignment target t."""
    out = []
    if isinstance(t, ast.Name):
        out.append((t.id, path, t))
    elif isinstance(t, (ast.Tuple, ast.List)):
        for i, e in enumerate(t.elts):
            if isinstance(e, ast.Starred):
                out += _targets(e.value, path + (("*", i),))
            else:
                out += _targets(e, path + (i,))
    # Attribute / Subscript targets do not bind local names
    return out


class FunctionFlow:
    def __init__(self, fn: ast.FunctionDef):
        self.fn = fn
        self.cfg: CFG = cfg_of(fn)
        self.defs_at: Dict[int, List[Def]] = {}
        self.param_defs: List[Def] = []
        self._collect_defs()
        self._solve()

    # ------------------------------------------------------------------ defs
    def _collect_defs(self):
        a = self.fn.args
        for p in a.posonlyargs + a.args + a.kwonlyargs + ([a.vararg] if a.vararg else []) + ([a.kwarg] if a.kwarg else []):
            self.param_defs.append(Def(p.arg, None, "param"))
        for n in self.cfg.stmt_nodes():
            ds: List[Def] = []
            s = n.stmt
            if n.kind == "stmt":
                if isinstance(s, ast.Assign):
                    for t in s.targets:
                        for (name, path, _) in _targets(t):
                            ds.append(Def(name, n, "assign", s.value, path, s))
                elif isinstance(s, ast.AnnAssign):
                    if s.value is not None:
                        for (name, path, _) in _targets(s.target):
                            ds.append(Def(name, n, "assign", s.value, path, s))
                elif isinstance(s, ast.AugAssign):
                    for (name, path, _) in _targets(s.target):
                        ds.append(Def(name, n, "aug", s, path, s))
                elif isinstance(s, (ast.Import, ast.ImportFrom)):
                    for al in s.names:
                        nm = al.asname or al.name.split(".")[0]
                        ds.append(Def(nm, n, "import", None, (), s))
                elif isinstance(s, (ast.FunctionDef, ast.AsyncFunctionDef, ast.ClassDef)):
                    ds.append(Def(s.name, n, "def", s, (), s))
                # walrus inside simple statements
                for sub in walk_no_nested(s) if not isinstance(s, (ast.FunctionDef, ast.ClassDef)) else []:
                    if isinstance(sub, ast.NamedExpr) and isinstance(sub.target, ast.Name):
                        ds.append(Def(sub.target.id, n, "assign", sub.value, (), s))
            elif n.kind == "for":
                for (name, path, _) in _targets(s.target):
                    ds.append(Def(name, n, "for", s.iter, path, s))
            elif n.kind == "with":
                for item in s.items:
                    if item.optional_vars is not None:
                        for (name, path, _) in _targets(item.optional_vars):
                            ds.append(Def(name, n, "with", item.context_expr, path, s))
            elif n.kind == "except":
                if s.name:
                    ds.append(Def(s.name, n, "except", None, (), s))
            elif n.kind == "test":
                for sub in walk_no_nested(n.ast):
                    if isinstance(sub, ast.NamedExpr) and isinstance(sub.target, ast.Name):
                        ds.append(Def(sub.target.id, n, "assign", sub.value, (), s))
            self.defs_at[n.id] = ds

    # ----------------------------------------------------------------- solve
    def _solve(self):
        cfg = self.cfg
        IN: Dict[int, FrozenSet[Def]] = {n.id: frozenset() for n in cfg.nodes}
        OUT: Dict[int, FrozenSet[Def]] = {n.id: frozenset() for n in cfg.nodes}
        OUT[cfg.entry.id] = frozenset(self.param_defs)
        work = [n.id for n in cfg.nodes]
        while work:
            nid = work.pop(0)
            if nid == cfg.entry.id:
                continue
            preds = cfg.pred[nid]
            new_in = frozenset().union(*(OUT[p] for (p, _) in preds)) if preds else frozenset()
            ds = self.defs_at.get(nid, [])
            killed = {d.name for d in ds if d.kind != "aug"} | {d.name for d in ds if d.kind == "aug"}
            new_out = frozenset(d for d in new_in if d.name not in killed) | frozenset(ds)
            if new_in != IN[nid] or new_out != OUT[nid]:
                IN[nid] = new_in
                OUT[nid] = new_out
                for (t, _) in cfg.succ[nid]:
                    if t not in work:
                        work.append(t)
        self.IN = IN
        self.OUT = OUT

    # ----------------------------------------------------------------- query
    def reaching(self, node: Node, name: str) -> List[Def]:
        return sorted((d for d in self.IN[node.id] if d.name == name), key=lambda d: (d.node.id if d.node else -1))

    def reaching_out(self, node: Node, name: str) -> List[Def]:
        return sorted((d for d in self.OUT[node.id] if d.name == name), key=lambda d: (d.node.id if d.node else -1))

    def local_names(self) -> Set[str]:
        s = {d.name for d in self.param_defs}
        for ds in self.defs_at.values():
            s |= {d.name for d in ds}
        return s

    def node_containing(self, sub: ast.AST) -> Optional[Node]:
        """CFG node whose statement/test contains the ast node `sub`."""
        if getattr(self, "_owner", None) is None:
            self._owner = {}
            for n in self.cfg.stmt_nodes():
                root = n.ast
                if n.kind == "for":
                    roots = [n.stmt.target, n.stmt.iter]
                elif n.kind == "with":
                    roots = [i.context_expr for i in n.stmt.items] + [i.optional_vars for i in n.stmt.items if i.optional_vars]
                elif n.kind == "except":
                    roots = [n.stmt.type] if n.stmt.type else []
                else:
                    roots = [root]
                for r in roots:
                    if isinstance(r, (ast.FunctionDef, ast.ClassDef)):
                        self._owner[id(r)] = n
                        continue
                    for x in ast.walk(r):
                        self._owner.setdefault(id(x), n)
        return self._owner.get(id(sub))

    def uses_of(self, d: Def) -> List[Tuple[Node, ast.Name]]:
        """(node, Name) uses that definition d reaches."""
        out = []
        for n in self.cfg.stmt_nodes():
            if d not in self.IN[n.id] and not (d.node is n and d.kind == "aug"):
                continue
            for nm in _loads(n):
                if nm.id == d.name and d in self.IN[n.id]:
                    out.append((n, nm))
        return out


def _loads(n: Node) -> List[ast.Name]:
    roots = []
    s = n.stmt
    if n.kind == "for":
        roots = [s.iter]
    elif n.kind == "with":
        roots = [i.context_expr for i in s.items]
    elif n.kind == "except":
        roots = [s.type] if s.type is not None else []
    elif n.kind == "test":
        roots = [n.ast]
    elif n.kind == "stmt":
        if isinstance(s, (ast.FunctionDef, ast.AsyncFunctionDef)):
            # free variables of a closure count as uses at the def statement
            roots = [s]
        elif isinstance(s, ast.ClassDef):
            roots = []
        else:
            roots = [s]
    out = []
    for r in roots:
        for x in ast.walk(r):
            if isinstance(x, ast.Name) and isinstance(x.ctx, ast.Load):
                out.append(x)
            elif isinstance(x, ast.AugAssign) and isinstance(x.target, ast.Name):
                nm = ast.Name(id=x.target.id, ctx=ast.Load())
                ast.copy_location(nm, x.target)
                out.append(nm)
    return out


_FLOW_CACHE: Dict[int, FunctionFlow] = {}


def flow_of(fn: ast.FunctionDef) -> FunctionFlow:
    f = _FLOW_CACHE.get(id(fn))
    if f is None or f.fn is not fn:
        f = FunctionFlow(fn)
        _FLOW_CACHE[id(fn)] = f
    return f


# ---------------------------------------------------------------------------
# Expression resolution: replace local names by their unique reaching
# definition's value (recursively), so that two computations can be compared as
# expression trees / converted to algebra.
# ---------------------------------------------------------------------------

class Unresolved(Exception):
    pass


def select_path(value: ast.expr, path: tuple) -> Optional[ast.expr]:
    """Follow a tuple-unpacking path into a literal tuple RHS; None if the RHS
    is not a literal tuple (e.g. a call)."""
    cur = value
    for p in path:
        if isinstance(p, tuple):
            return None
        if isinstance(cur, (ast.Tuple, ast.List)) and p < len(cur.elts):
            cur = cur.elts[p]
        else:
            return None
    return cur


class Resolver:
    """Inline locals through unique reaching definitions.

    Loop-carried definitions (a definition that the use can reach back to
    itself through) and multiple reaching definitions stop the inlining: the
    Name is left in place (and recorded in `stopped`)."""

    def __init__(self, fn: ast.FunctionDef, max_depth: int = 12, proj: bool = False):
        """proj: represent a name bound by tuple-unpacking of a call result as
        `__proj__(<resolved call>, <index>)` instead of leaving the name."""
        self.flow = flow_of(fn)
        self.max_depth = max_depth
        self.proj = proj
        self.stopped: List[Tuple[str, str]] = []

    def resolve(self, expr: ast.expr, at: Node, depth: int = 0, bound: Optional[Set[str]] = None) -> ast.expr:
        bound = bound or set()
        flow = self.flow

        outer = self

        class T(ast.NodeTransformer):
            def __init__(self):
                self.bound = set(bound)

            def visit_Name(self, node: ast.Name):
                if not isinstance(node.ctx, ast.Load) or node.id in self.bound:
                    return node
                ds = flow.reaching(at, node.id)
                if len(ds) != 1:
                    if ds:
                        outer.stopped.append((node.id, f"{len(ds)} reaching definitions"))
                    return node
                d = ds[0]
                if d.kind != "assign" or d.value is None or depth >= outer.max_depth:
                    return node
                val = select_path(d.value, d.path) if d.path else d.value
                if val is None:
                    # tuple unpacking of a non-literal (a call result)
                    if outer.proj:
                        inner = outer.resolve(copy.deepcopy(d.value), d.node, depth + 1)
                        idx = d.path[0] if len(d.path) == 1 and isinstance(d.path[0], int) else str(d.path)
                        return ast.copy_location(ast.Call(func=ast.Name(id="__proj__", ctx=ast.Load()), args=[inner, ast.Constant(value=idx)], keywords=[]), node)
                    outer.stopped.append((node.id, "component of a call result"))
                    return node
                # mutated in place between its definition and this use (`diff[idx] -= ...`, `x.sort()`, out=x)?
                # then the defining expression is no longer the value
                if d.node is not None and at is not None:
                    for m_ in _inplace_mutations(flow).get(node.id, ()):
                        if m_ != d.node.id and m_ != at.id and (flow.cfg.reaches(d.node.id, m_)) and flow.cfg.reaches(m_, at.id):
                            outer.stopped.append((node.id, "mutated in place after its definition"))
                            return node
                # loop-carried? the definition node can be reached from `at` and depends on itself
                if _self_dependent(flow, d):
                    outer.stopped.append((node.id, "loop-carried"))
                    return node
                return outer.resolve(copy.deepcopy(val), d.node, depth + 1, bound=set(bound) if bound else None)

            def _comp(self, node):
                saved = set(self.bound)
                for g in node.generators:
                    for (nm, _, _) in _targets(g.target):
                        self.bound.add(nm)
                res = self.generic_visit(node)
                self.bound = saved
                return res

            visit_ListComp = _comp
            visit_SetComp = _comp
            visit_GeneratorExp = _comp
            visit_DictComp = _comp

            def visit_Lambda(self, node):
                return node

        return T().visit(copy.deepcopy(expr))


_MUTATING = {"sort", "fill", "put", "itemset", "resize", "partition", "append", "extend", "insert", "remove", "pop", "clear", "update", "add", "discard", "reverse", "setdefault"}


def _inplace_mutations(flow: "FunctionFlow") -> Dict[str, List[int]]:
    """name -> ids of CFG nodes that change the object bound to the name without re-binding it."""
    cache = getattr(flow, "_inplace", None)
    if cache is not None:
        return cache
    out: Dict[str, List[int]] = {}
    for n in flow.cfg.stmt_nodes():
        if n.ast is None or n.kind != "stmt":
            continue
        s = n.stmt
        tg = s.targets if isinstance(s, ast.Assign) else ([s.target] if isinstance(s, ast.AugAssign) else [])
        for t in tg:
            for tt in (t.elts if isinstance(t, (ast.Tuple, ast.List)) else [t]):
                b = tt
                if isinstance(b, ast.Subscript):
                    while isinstance(b, ast.Subscript):
                        b = b.value
                    if isinstance(b, ast.Name):
                        out.setdefault(b.id, []).append(n.id)
        for c in ast.walk(s) if not isinstance(s, (ast.FunctionDef, ast.ClassDef)) else []:
            if isinstance(c, ast.Call):
                if isinstance(c.func, ast.Attribute) and isinstance(c.func.value, ast.Name) and c.func.attr in _MUTATING:
                    out.setdefault(c.func.value.id, []).append(n.id)
                for k in c.keywords:
                    if k.arg == "out" and isinstance(k.value, ast.Name):
                        out.setdefault(k.value.id, []).append(n.id)
    flow._inplace = out
    return out


def _self_dependent(flow: FunctionFlow, d: Def) -> bool:
    """Does definition d (transitively, through one level) read a definition of
    its own name that includes itself (x = x + 1 in a loop)?"""
    if d.node is None or d.value is None:
        return False
    for nm in ast.walk(d.value):
        if isinstance(nm, ast.Name) and nm.id == d.name:
            if d in flow.IN[d.node.id]:
                return True
    return False


# ---------------------------------------------------------------------------
# Backward dependence slice
# ---------------------------------------------------------------------------

class Leaf:
    """A source an expression depends on."""

    __slots__ = ("kind", "text", "node")

    def __init__(self, kind, text, node=None):
        self.kind = kind  # 'param', 'attr' (self.x...), 'call', 'const', 'global', 'name'
        self.text = text
        self.node = node

    def __repr__(self):
        return f"{self.kind}:{self.text}"

    def __hash__(self):
        return hash((self.kind, self.text))

    def __eq__(self, o):
        return (self.kind, self.text) == (o.kind, o.text)


def expr_leaves(fn: ast.FunctionDef, expr: ast.expr, at: Node, include_control: bool = False,
                _seen: Optional[Set] = None, closure_env: Optional[dict] = None) -> Tuple[Set[Leaf], Set[int]]:
    """Backward data-dependence slice of `expr` evaluated at CFG node `at`.

    Returns (leaves, def-node-ids visited).  Leaves: parameters, self.attribute
    chains, calls (dotted callee text, with their arguments also sliced),
    constants.  Calls are leaves *and* transparent (arguments and receiver
    contribute), which makes the slice an over-approximation of dependence."""
    flow = flow_of(fn)
    leaves: Set[Leaf] = set()
    visited: Set[int] = set()
    seen = _seen if _seen is not None else set()

    def visit_expr(e: ast.AST, node: Node, bound: Set[str]):
        for sub in _walk_expr(e, bound):
            kind, x, b = sub
            if kind == "name":
                if x.id in b:
                    continue
                ds = flow.reaching(node, x.id) if node is not None else []
                if not ds:
                    leaves.add(Leaf("global", x.id, x))
                    continue
                for d in ds:
                    key = (id(d), )
                    if d.kind == "param":
                        leaves.add(Leaf("param", d.name, x))
                        continue
                    if key in seen:
                        continue
                    seen.add(key)
                    if d.node is not None:
                        visited.add(d.node.id)
                    if d.kind in ("assign", "for", "with"):
                        if d.value is not None:
                            val = select_path(d.value, d.path) if d.path else d.value
                            visit_expr(val if val is not None else d.value, d.node, set())
                    elif d.kind == "aug":
                        visit_expr(d.value.value, d.node, set())
                        # previous value of the target
                        tmp = ast.Name(id=d.name, ctx=ast.Load())
                        visit_expr(tmp, d.node, set())
                    elif d.kind == "def":
                        leaves.add(Leaf("closure", d.name, d.value))
                    elif d.kind == "import":
                        leaves.add(Leaf("global", d.name, x))
            elif kind == "attr":
                leaves.add(Leaf("attr", x, None))
            elif kind == "call":
                leaves.add(Leaf("call", x, None))
            elif kind == "const":
                leaves.add(Leaf("const", repr(x), None))

    visit_expr(expr, at, set())
    return leaves, visited


def _walk_expr(e: ast.AST, bound: Set[str]):
    """Yield ('name', Name, bound) / ('attr', 'self.a.b') / ('call', 'np.exp') /
    ('const', value) for the sub-expressions of e, tracking comprehension-bound
    names."""
    if e is None:
        return
    if isinstance(e, ast.Name):
        if isinstance(e.ctx, ast.Load):
            yield ("name", e, bound)
        return
    if isinstance(e, ast.Constant):
        yield ("const", e.value, bound)
        return
    if isinstance(e, ast.Attribute):
        from .model import dotted

        d = dotted(e)
        if d and d.split(".")[0] == "self":
            yield ("attr", d, bound)
            return
        yield from _walk_expr(e.value, bound)
        return
    if isinstance(e, ast.Call):
        from .model import dotted

        d = dotted(e.func)
        yield ("call", d or "<dynamic>", bound)
        if isinstance(e.func, ast.Attribute):
            yield from _walk_expr(e.func.value, bound)
        elif not isinstance(e.func, ast.Name):
            yield from _walk_expr(e.func, bound)
        else:
            # calling a local closure / callable parameter: the name is a dependence
            yield ("name", e.func, bound)
        for a in e.args:
            yield from _walk_expr(a.value if isinstance(a, ast.Starred) else a, bound)
        for k in e.keywords:
            yield from _walk_expr(k.value, bound)
        return
    if isinstance(e, (ast.ListComp, ast.SetComp, ast.GeneratorExp, ast.DictComp)):
        b = set(bound)
        for g in e.generators:
            yield from _walk_expr(g.iter, b)
            for (nm, _, _) in _targets(g.target):
                b.add(nm)
            for c in g.ifs:
                yield from _walk_expr(c, b)
        if isinstance(e, ast.DictComp):
            yield from _walk_expr(e.key, b)
            yield from _walk_expr(e.value, b)
        else:
            yield from _walk_expr(e.elt, b)
        return
    if isinstance(e, ast.Lambda):
        b = set(bound) | {a.arg for a in e.args.args}
        yield from _walk_expr(e.body, b)
        return
    for c in ast.iter_child_nodes(e):
        if isinstance(c, (ast.expr_context, ast.operator, ast.unaryop, ast.cmpop, ast.boolop)):
            continue
        yield from _walk_expr(c, bound)
