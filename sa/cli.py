#!/usr/bin/env python3
"""Command line of the static checker.

    cli.py check <Cxx> [--tier quick|thorough] [--repo DIR]
    cli.py all   [--tier quick|thorough]
    cli.py replay <path>
    cli.py setup

Exit codes: 0 all obligations discharged (known findings printed),
1 VIOLATION (a violation not listed in known_findings.json),
2 ANALYSIS-ERROR (anchor vanished, instance floor missed, unmodelled construct,
self-test failure, internal error) -- neither a pass nor an alarm.
"""
from __future__ import annotations

import argparse
import importlib
import json
import os
import sys
import time
import traceback

HERE = os.path.dirname(os.path.abspath(__file__))
VERIF = os.path.dirname(HERE)
if VERIF not in sys.path:
    sys.path.insert(0, VERIF)

from sa import engine  # noqa: E402
from sa.model import AnalysisError, Program  # noqa: E402

PROPS = ["C03", "C04", "C05", "C06", "C07", "C08", "C09", "C10", "C11", "C12", "C13", "C14", "C15", "C16", "C17", "C18", "C19", "C20"]


def load_rules(prop: str):
    try:
        return importlib.import_module(f"sa.rules.{prop.lower()}")
    except ModuleNotFoundError as e:
        if e.name == f"sa.rules.{prop.lower()}":
            raise AnalysisError(f"no rule module for {prop}")
        raise


def run_rules(mod, prog: Program):
    ctx = engine.Context(prog)
    rep = engine.Reporter(mod.PROP)
    mod.run(ctx, rep)
    return ctx, rep


def check(prop: str, tier: str, repo: str | None, write: bool = True) -> int:
    t0 = time.time()
    seed = int(os.environ.get("VERIF_SEED", "0") or 0)
    try:
        mod = load_rules(prop)
        prog = Program(repo)
        try:
            ctx, rep = run_rules(mod, prog)
        except AnalysisError as e0:
            # an anchor was not found on the tree as written: still try the normal form before giving up
            ctx = engine.Context(prog)
            rep = engine.Reporter(mod.PROP)
            rep.errors.append(str(e0))
        known = engine.load_known()
        normal_form_note = None
        if (any((not o.ok) and engine.match_known(o, prop, known) is None for o in rep.obligations) or rep.errors):
            # Fallback: re-run on the normal form in which helpers that are not in the reference
            # function table are inlined (a behaviour-preserving "extract method" refactoring
            # must not change the verdict).  The verdict of the normal form is used only if it is clean.
            from sa import normalize

            try:
                nsrc, inlined = normalize.normalize_sources(prog.sources)
            except Exception as e:  # the normaliser must never turn into an alarm
                nsrc, inlined = prog.sources, []
                normal_form_note = f"normaliser failed: {type(e).__name__}: {e}"
            if inlined:
                prog2 = Program(repo, sources=nsrc)
                try:
                    ctx2, rep2 = run_rules(mod, prog2)
                    bad2 = [o for o in rep2.obligations if (not o.ok) and engine.match_known(o, prop, known) is None]
                    if not bad2 and not rep2.errors:
                        normal_form_note = f"decided on the normal form with {len(inlined)} helper(s) inlined: {inlined}"
                        rep2.notes.append(normal_form_note)
                        prog, ctx, rep = prog2, ctx2, rep2
                    else:
                        normal_form_note = f"normal form ({inlined}) gives the same verdict"
                        if os.environ.get("SA_SHOW_NF"):
                            for o in bad2:
                                print(f"  [normal form] {o.loc}: {o.rule}: {(o.msg or o.desc)[:260]}")
                            for e2 in rep2.errors:
                                print(f"  [normal form] ANALYSIS-ERROR {e2[:260]}")
                except AnalysisError as e:
                    normal_form_note = f"normal form not analysable: {e}"
        new_violations = []
        known_lines = []
        for ob in rep.obligations:
            if ob.ok:
                ob.status = "discharged"
                continue
            e = engine.match_known(ob, prop, known)
            if e is not None:
                ob.status = "known"
                known_lines.append(f"KNOWN-FINDING: property={prop} {e.get('id', '')} {e['what_fails']} [{ob.rule} at {ob.loc}]")
            else:
                ob.status = "violated"
                new_violations.append(ob)
        # self-test of the rules (variants of the live tree held in memory)
        extra = {}
        selftest_error = None
        if not new_violations and not rep.errors and not os.environ.get("SA_NO_SELFTEST"):
            from sa import selftest

            try:
                extra = selftest.run(mod, prog, rep, tier, seed)
            except AnalysisError as e:
                selftest_error = e
        for line in known_lines:
            print(line)
        for ob in new_violations:
            path = engine.write_replay(prop, ob)
            print(f"{ob.loc}: {ob.rule}: {ob.msg or ob.desc} [in {ob.func}]")
            print(f"VIOLATION property={prop} replay={path}")
        stats = dict(prog.stats())
        stats.update({"call_graph": ctx.cg.stats()} if ctx._cg is not None else {})
        if write:
            engine.write_evidence(
                prop, tier, seed, time.time() - t0, rep, stats, mod.EXPLANATION, list(getattr(mod, "ASSUMPTIONS", [])),
                len(new_violations), known_lines, extra,
            )
        if normal_form_note:
            print(f"NOTE property={prop} {normal_form_note}")
        n_ok = sum(1 for o in rep.obligations if o.ok)
        print(f"{prop} [{tier}] obligations={len(rep.obligations)} discharged={n_ok} known={len(known_lines)} "
              f"violations={len(new_violations)} functions={stats['functions']} wall={time.time() - t0:.2f}s")
        for e in rep.errors:
            print(f"ANALYSIS-ERROR property={prop} {e}" + (" (reported together with the violation(s) above)" if new_violations else ""))
        if new_violations:
            return 1
        if rep.errors:
            return 2
        if selftest_error is not None:
            print(f"ANALYSIS-ERROR property={prop} self-test: {selftest_error}")
            return 2
        return 0
    except AnalysisError as e:
        print(f"ANALYSIS-ERROR property={prop} {e}")
        return 2
    except Exception:
        traceback.print_exc()
        print(f"ANALYSIS-ERROR property={prop} internal error (traceback above)")
        return 2


def replay(path: str) -> int:
    with open(path) as fh:
        r = json.load(fh)
    prop = r["property"]
    mod = load_rules(prop)
    prog = Program(None)
    ctx, rep = run_rules(mod, prog)
    hit = [o for o in rep.obligations if (o.rule, o.func, o.key) == (r["rule"], r["function"], r["construct_key"])]
    if not hit:
        print(f"obligation {r['rule']} / {r['function']} / {r['construct_key']} no longer exists on the current tree")
        return 0
    rc = 0
    for o in hit:
        print(f"{o.loc}: {o.rule}: {'ok' if o.ok else 'VIOLATED'}: {o.msg or o.desc}")
        if o.witness:
            print(json.dumps(o.witness, indent=1, default=str))
        if not o.ok:
            rc = 1
    return rc


def setup() -> int:
    print(f"python {sys.version.split()[0]}")
    try:
        prog = Program(None)
        print("program:", prog.stats())
    except AnalysisError as e:
        print("ANALYSIS-ERROR", e)
        return 2
    os.makedirs(os.path.join(VERIF, "evidence"), exist_ok=True)
    os.makedirs(os.path.join(VERIF, "replay"), exist_ok=True)
    try:
        from sa import algebra

        algebra.ensure_sympy()
        print("sympy ok")
    except Exception as e:  # pragma: no cover
        print("sympy unavailable:", e)
    return 0


def main(argv=None) -> int:
    ap = argparse.ArgumentParser()
    sub = ap.add_subparsers(dest="cmd", required=True)
    c = sub.add_parser("check")
    c.add_argument("prop")
    c.add_argument("--tier", default=os.environ.get("VERIF_TIER", "quick"), choices=["quick", "thorough"])
    c.add_argument("--repo", default=None)
    a = sub.add_parser("all")
    a.add_argument("--tier", default=os.environ.get("VERIF_TIER", "quick"), choices=["quick", "thorough"])
    a.add_argument("--repo", default=None)
    r = sub.add_parser("replay")
    r.add_argument("path")
    sub.add_parser("setup")
    args = ap.parse_args(argv)
    if args.cmd == "check":
        return check(args.prop.upper(), args.tier, args.repo)
    if args.cmd == "all":
        worst = 0
        for p in PROPS:
            try:
                rc = check(p, args.tier, args.repo, write=args.repo is None)
            except SystemExit as e:  # pragma: no cover
                rc = int(e.code or 0)
            worst = max(worst, rc)
        return worst
    if args.cmd == "replay":
        return replay(args.path)
    if args.cmd == "setup":
        return setup()
    return 2


if __name__ == "__main__":
    sys.exit(main())
