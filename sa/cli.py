#!/usr/bin/env python3
"""Command line of the static checker.

    cli.py check <Cxx> [--tier quick|thorough] [--repo DIR]
    cli.py all   [--tier quick|thorough]
    cli.py replay <path>
    cli.py setup

Exit codes: 0 all obligations discharged (known findings printed),
1 VIOLATION (a violation not listed in known_findings.json),
2 ANALYSIS-ERROR (anchor vanished, instance floor missed, unmodelled construct,
self-test failure, internal error) -- neither a pass nor an alarm.
"""
from __future__ import annotations

import argparse
import importlib
import json
import os
import sys
import time
import traceback

HERE = os.path.dirname(os.path.abspath(__file__))
VERIF = os.path.dirname(HERE)
if VERIF not in sys.path:
    sys.path.insert(0, VERIF)

from sa import engine  # noqa: E402
from sa.model import AnalysisError, Program  # noqa: E402

PROPS = ["C03", "C04", "C05", "C06", "C07", "C08", "C09", "C10", "C11", "C12", "C13", "C14", "C15", "C16", "C17", "C18", "C19", "C20"]


def load_rules(prop: str):
    try:
        return importlib.import_module(f"sa.rules.{prop.lower()}")
    except ModuleNotFoundError as e:
        if e.name == f"sa.rules.{prop.lower()}":
            raise AnalysisError(f"no rule module for {prop}")
        raise


from sa.engine import CONTRACT_SCOPE, run_rules  # noqa: E402,F401


PRESENCE_KEYS = ("wrapper-binding", "contract:", "requested-fraction-rebound", "mapper-keywords", "config-arg-as-given", "index-truthiness", "index-list-mutated", "unweighted-statistic", "blob-rows-are-lists", "reshape-for-transpose", "precision-downgrade", "n_total-forwarded", "import-converted", "clusterer-wiring", "copy-flag-rebound", "single-mode-agreement", "eigh-rows", "ess-lossy", "set-order-layout", "first-iteration-guard", "lost-fancy-store", "kernel-parameter-rebound", "rename-on-error", "column-density", "fancy-accumulate", "density-unregularised", "retained-state-copy", "caller-array-write", "handed-out-logw-modified", "temperature-rebound", "stride-assumption", "seed-transformed", "checkpoint-seed", "draw-cached", "import-time-draw", "stream-rewind", "pool-cached", "pool-read", "vectorize-read",
                 "cached-mutation", "inplace:", "shared-history-list", "foreign-rebind", "alias-mutation", "errstate-underflow", "weights-dtype", "wrapper-stateless", "wrapper-branch",
                 "wrapper-argument", "logl-rewritten", "logl-dtype", "partial-row-copy", "multinomial-pvals-tolerance", "rank-index", "mode-attr-write", "shared-clusterer-rebound",
                 "spectral-floor", "row-gather", "fold-guard-jump", "fold-exact", "unpicklable-attr", "retry-loop", "iter-seed", "facade-partial-selection",
                 "coord-conflict", "volume-coord-conflict", "weight-scale-conflict", "scale-conflict", "volume-scale-conflict", "conflict:", "cond:", "hazard", "seed-none-guard",
                 "seed-truthiness-guard", "provenance:", "import:", "whole-array-write", "store-index", "user-call", "blobs-write-guard-inverted", "blobs-guard-inverted",
                 "helper-drops-list", "list-dropped", "rewrite:", "crossed", "literal:", "labels-must-write", "split-index", "src-index", "commit-filter", "append-", "commit-once",
                 "copy-false", "default-copy", "cov-aweights", "bincount-minlength", "producer-loop-skips", "crossed-argument", "pass-through:", "memo-reset", "memo-init",
                 "scheme-name", "cap-last", "accept-comparison", "fresh-uniform", "dispatch:", "mapper", "mode-precedence", "wrapper-no-rng", "materialised", "pool-attr", "bisect-table",
                 "temp-open-mode", "non-atomic-copy-of-checkpoint", "label-cut-at-dot", "definition-time", "import-time:", "fit-result-altered", "mode-entry", "one-parameter-set", "component-columns-selected", "den-clamped", "bool-identity", "counter-clobbered", "cluster-frame", "ess-count-filtered")


# rules that decide through summaries of the helpers they meet (ownership lattice, label provenance): a violation they
# report in the presence of a new helper is a statement about that helper, not a gap in their vocabulary
GUARD_EXEMPT_RULES = {"C17.b", "C17.c", "C14.f"}


def _is_presence_rule(ob) -> bool:
    """violations that consist in a found construct (lint-type) -- never downgraded"""
    k = ob.key or ""
    return ob.rule in GUARD_EXEMPT_RULES or any(p in k for p in PRESENCE_KEYS)


def _residual_new_names(prog, prog2):
    """short names of functions / classes that are not in the reference table and that survive normalisation"""
    from sa import normalize

    table = normalize.baseline_table()
    p = prog2 if prog2 is not None else prog
    names = set()
    for f in p.functions.values():
        if f.parent is not None:
            continue
        q = f"{f.module.name}:{f.short}"
        if q not in table and not (f.name.startswith("__") and f.name.endswith("__")):
            names.add(f.name)
    base_classes = {q.split(":")[1].split(".")[0] for q in table if "." in q.split(":")[1]}
    for c in p.classes.values():
        if c.name not in base_classes and c.name not in ("ModeStatistics", "ProgressBar"):
            names.add(c.name)
    return names


def _references_residual(prog, ob, residual, prog2=None):
    import ast as _ast

    from sa import normalize

    table = normalize.baseline_table()
    fi = next((f for f in prog.functions.values() if f.short == ob.func), None)
    if fi is None or f"{fi.module.name}:{fi.short}" not in table:
        return []
    if prog2 is not None:
        # what matters is what is left in the normal form of this function: helpers that were written out there are
        # inside the rule's view, and a violation that survives that is a decision about the code
        fi2 = next((f for f in prog2.functions.values() if f.short == ob.func and f.module.name == fi.module.name), None)
        if fi2 is not None:
            fi = fi2
    out = set()
    for x in _ast.walk(fi.node):
        if isinstance(x, _ast.Name) and x.id in residual:
            out.add(x.id)
        elif isinstance(x, _ast.Attribute) and x.attr in residual:
            out.add(x.attr)
    return sorted(out)


def check(prop: str, tier: str, repo: str | None, write: bool = True) -> int:
    t0 = time.time()
    seed = int(os.environ.get("VERIF_SEED", "0") or 0)
    try:
        mod = load_rules(prop)
        prog = Program(repo)
        try:
            ctx, rep = run_rules(mod, prog)
        except AnalysisError as e0:
            # an anchor was not found on the tree as written: still try the normal form before giving up
            ctx = engine.Context(prog)
            rep = engine.Reporter(mod.PROP)
            rep.errors.append(str(e0))
        known = engine.load_known()
        normal_form_note = None
        if (any((not o.ok) and engine.match_known(o, prop, known) is None for o in rep.obligations) or rep.errors):
            # Fallback: re-run on the normal form in which helpers that are not in the reference
            # function table are inlined (a behaviour-preserving "extract method" refactoring
            # must not change the verdict).  The verdict of the normal form is used only if it is clean.
            from sa import normalize

            try:
                nsrc, inlined = normalize.normalize_sources(prog.sources)
            except Exception as e:  # the normaliser must never turn into an alarm
                nsrc, inlined = prog.sources, []
                normal_form_note = f"normaliser failed: {type(e).__name__}: {e}"
            if inlined:
                prog2 = Program(repo, sources=nsrc)
                try:
                    ctx2, rep2 = run_rules(mod, prog2)
                    bad2 = [o for o in rep2.obligations if (not o.ok) and engine.match_known(o, prop, known) is None]
                    if not bad2 and not rep2.errors:
                        normal_form_note = f"decided on the normal form with {len(inlined)} helper(s) inlined: {inlined}"
                        rep2.notes.append(normal_form_note)
                        prog, ctx, rep = prog2, ctx2, rep2
                    elif bad2 and rep.errors and not any((not o.ok) and engine.match_known(o, prop, known) is None for o in rep.obligations):
                        # undecided on the tree as written (a rule could not read it), decided on its normal form: the normal
                        # form is the same program with the new helpers written out, so what a rule finds there is found
                        normal_form_note = f"undecided as written ({'; '.join(x[:80] for x in rep.errors[:2])}); decided on the normal form with {len(inlined)} helper(s) inlined: {inlined}"
                        rep2.notes.append(normal_form_note)
                        prog, ctx, rep = prog2, ctx2, rep2
                    else:
                        normal_form_note = f"normal form ({inlined}) gives the same verdict"
                        if os.environ.get("SA_SHOW_NF"):
                            for o in bad2:
                                print(f"  [normal form] {o.loc}: {o.rule}: {(o.msg or o.desc)[:260]}")
                            for e2 in rep2.errors:
                                print(f"  [normal form] ANALYSIS-ERROR {e2[:260]}")
                except AnalysisError as e:
                    normal_form_note = f"normal form not analysable: {e}"
        new_violations = []
        known_lines = []
        for ob in rep.obligations:
            if ob.ok:
                ob.status = "discharged"
                continue
            e = engine.match_known(ob, prop, known)
            if e is not None:
                ob.status = "known"
                known_lines.append(f"KNOWN-FINDING: property={prop} {e.get('id', '')} {e['what_fails']} [{ob.rule} at {ob.loc}]")
            else:
                ob.status = "violated"
                new_violations.append(ob)
        # Vocabulary guard: a "required shape not found" violation reported for a function of the reference tree that
        # now works through new helpers / record classes which the normal form could not eliminate is not a decision
        # about the code but about the rule's vocabulary -> undecided (exit 2), never an alarm.  Violations that consist
        # in a *found* forbidden construct (lint-type rules) and violations inside new code are kept.
        if new_violations and not os.environ.get("SA_NO_VOCAB_GUARD"):
            kept = []
            try:
                residual = _residual_new_names(prog, locals().get("prog2"))
            except Exception:
                residual = set()
            for ob in new_violations:
                refs = _references_residual(prog, ob, residual, locals().get("prog2")) if residual and not _is_presence_rule(ob) else []
                if refs:
                    ob.status = "undecided"
                    rep.errors.append(f"{ob.rule}: undecided in {ob.func}: the rule's required shape was not found, but the function now works through new code "
                                      f"({', '.join(sorted(refs))[:120]}) that the normal form cannot inline -- outside the rule's vocabulary [{ob.loc}]")
                else:
                    kept.append(ob)
            new_violations = kept
        # Agreement with the normal form: the normal form is the same program, so a rule that reads both must say the
        # same about both.  A violation reported on the tree as written that the same rule does NOT report on the
        # normal form (where it ran without an analysis error) is a disagreement of the rule with itself about how
        # the code is spelt -- undecided, never an alarm.  A violation the normal form confirms, or about which the
        # normal form says nothing (the rule could not run there), stands.
        rep_nf = locals().get("rep2")
        if new_violations and rep_nf is not None and rep is not rep_nf and not os.environ.get("SA_NO_NF_AGREEMENT"):
            kept = []
            for ob in new_violations:
                confirmed = any(o2.rule == ob.rule and not o2.ok and engine.match_known(o2, prop, known) is None for o2 in rep_nf.obligations)
                ran = any(o2.rule == ob.rule for o2 in rep_nf.obligations) and not any(e.startswith(ob.rule) for e in rep_nf.errors)
                prog_nf = locals().get("prog2")
                still_there = prog_nf is None or any(f.short == ob.func for f in prog_nf.functions.values())
                if confirmed or not ran or (_is_presence_rule(ob) and still_there):
                    kept.append(ob)  # (a found construct is there however the rest is spelt -- unless its function was written out into its callers)
                else:
                    ob.status = "undecided"
                    rep.errors.append(f"{ob.rule}: undecided in {ob.func}: reported on the tree as written but not on its normal form (the same program with the new helpers written out): "
                                      f"the rule's reading depends on the spelling [{ob.loc}]")
            new_violations = kept
            if not new_violations:
                # nothing the tree as written says stands; what the normal form says does (same program)
                nf_bad = [o for o in rep_nf.obligations if (not o.ok) and engine.match_known(o, prop, known) is None]
                prog_nf_, ctx_nf_ = locals().get("prog2"), locals().get("ctx2")
                try:
                    residual_nf = _residual_new_names(prog, prog_nf_)
                except Exception:
                    residual_nf = set()
                keep_ = []
                for o in nf_bad:
                    if _is_presence_rule(o) or prog_nf_ is None or not _references_residual(prog_nf_, o, residual_nf, prog_nf_):
                        keep_.append(o)
                nf_bad = keep_
                if nf_bad and prog_nf_ is not None:
                    normal_form_note = "the verdict of the tree as written does not stand against its normal form; violations reported from the normal form"
                    rep_nf.notes.append(normal_form_note)
                    prog, ctx, rep = prog_nf_, ctx_nf_, rep_nf
                    known_lines = []
                    new_violations = []
                    for ob in rep.obligations:
                        if ob.ok:
                            ob.status = "discharged"
                            continue
                        e_ = engine.match_known(ob, prop, known)
                        if e_ is not None:
                            ob.status = "known"
                            known_lines.append(f"KNOWN-FINDING: property={prop} {e_.get('id', '')} {e_['what_fails']} [{ob.rule} at {ob.loc}]")
                        elif ob in nf_bad:
                            ob.status = "violated"
                            new_violations.append(ob)
                        else:
                            ob.status = "undecided"
        # self-test of the rules (variants of the live tree held in memory)
        extra = {}
        selftest_error = None
        if not new_violations and not rep.errors and not os.environ.get("SA_NO_SELFTEST"):
            from sa import selftest

            try:
                extra = selftest.run(mod, prog, rep, tier, seed)
            except AnalysisError as e:
                selftest_error = e
        for line in known_lines:
            print(line)
        for ob in new_violations:
            path = engine.write_replay(prop, ob)
            print(f"{ob.loc}: {ob.rule}: {ob.msg or ob.desc} [in {ob.func}]")
            print(f"VIOLATION property={prop} replay={path}")
        stats = dict(prog.stats())
        stats.update({"call_graph": ctx.cg.stats()} if ctx._cg is not None else {})
        if write:
            engine.write_evidence(
                prop, tier, seed, time.time() - t0, rep, stats, mod.EXPLANATION, list(getattr(mod, "ASSUMPTIONS", [])),
                len(new_violations), known_lines, extra,
            )
        if normal_form_note:
            print(f"NOTE property={prop} {normal_form_note}")
        n_ok = sum(1 for o in rep.obligations if o.ok)
        print(f"{prop} [{tier}] obligations={len(rep.obligations)} discharged={n_ok} known={len(known_lines)} "
              f"violations={len(new_violations)} functions={stats['functions']} wall={time.time() - t0:.2f}s")
        for e in rep.errors:
            print(f"ANALYSIS-ERROR property={prop} {e}" + (" (reported together with the violation(s) above)" if new_violations else ""))
        if new_violations:
            return 1
        if rep.errors:
            return 2
        if selftest_error is not None:
            print(f"ANALYSIS-ERROR property={prop} self-test: {selftest_error}")
            return 2
        return 0
    except AnalysisError as e:
        print(f"ANALYSIS-ERROR property={prop} {e}")
        return 2
    except Exception:
        traceback.print_exc()
        print(f"ANALYSIS-ERROR property={prop} internal error (traceback above)")
        return 2


def replay(path: str) -> int:
    with open(path) as fh:
        r = json.load(fh)
    prop = r["property"]
    mod = load_rules(prop)
    prog = Program(None)
    ctx, rep = run_rules(mod, prog)
    hit = [o for o in rep.obligations if (o.rule, o.func, o.key) == (r["rule"], r["function"], r["construct_key"])]
    if not hit:
        print(f"obligation {r['rule']} / {r['function']} / {r['construct_key']} no longer exists on the current tree")
        return 0
    rc = 0
    for o in hit:
        print(f"{o.loc}: {o.rule}: {'ok' if o.ok else 'VIOLATED'}: {o.msg or o.desc}")
        if o.witness:
            print(json.dumps(o.witness, indent=1, default=str))
        if not o.ok:
            rc = 1
    return rc


def setup() -> int:
    print(f"python {sys.version.split()[0]}")
    try:
        prog = Program(None)
        print("program:", prog.stats())
    except AnalysisError as e:
        print("ANALYSIS-ERROR", e)
        return 2
    os.makedirs(os.path.join(VERIF, "evidence"), exist_ok=True)
    os.makedirs(os.path.join(VERIF, "replay"), exist_ok=True)
    try:
        from sa import algebra

        algebra.ensure_sympy()
        print("sympy ok")
    except Exception as e:  # pragma: no cover
        print("sympy unavailable:", e)
    return 0


def main(argv=None) -> int:
    ap = argparse.ArgumentParser()
    sub = ap.add_subparsers(dest="cmd", required=True)
    c = sub.add_parser("check")
    c.add_argument("prop")
    c.add_argument("--tier", default=os.environ.get("VERIF_TIER", "quick"), choices=["quick", "thorough"])
    c.add_argument("--repo", default=None)
    a = sub.add_parser("all")
    a.add_argument("--tier", default=os.environ.get("VERIF_TIER", "quick"), choices=["quick", "thorough"])
    a.add_argument("--repo", default=None)
    r = sub.add_parser("replay")
    r.add_argument("path")
    sub.add_parser("setup")
    args = ap.parse_args(argv)
    def _guarded(prop, tier, repo, **kw):
        """One check under a wall-clock budget: an analysis that does not terminate in time is undecided (exit 2),
        never a hang and never an alarm."""
        import signal

        budget = int(os.environ.get("SA_TIME_BUDGET", "900" if tier == "quick" else "3600"))

        class _Timeout(BaseException):
            pass

        def _on_alarm(signum, frame):
            raise _Timeout()

        old = signal.signal(signal.SIGALRM, _on_alarm)
        signal.alarm(budget)
        try:
            return check(prop, tier, repo, **kw)
        except _Timeout:
            print(f"ANALYSIS-ERROR property={prop} analysis did not finish within {budget} s (undecided)")
            return 2
        finally:
            signal.alarm(0)
            signal.signal(signal.SIGALRM, old)

    if args.cmd == "check":
        return _guarded(args.prop.upper(), args.tier, args.repo)
    if args.cmd == "all":
        worst = 0
        for p in PROPS:
            try:
                rc = _guarded(p, args.tier, args.repo, write=args.repo is None)
            except SystemExit as e:  # pragma: no cover
                rc = int(e.code or 0)
            worst = max(worst, rc)
        return worst
    if args.cmd == "replay":
        return replay(args.path)
    if args.cmd == "setup":
        return setup()
    return 2


if __name__ == "__main__":
    sys.exit(main())
