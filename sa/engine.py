"""Rule framework: analysis context, obligations, findings, known-findings
matching, evidence writing, replay files.
"""
from __future__ import annotations

import ast
import hashlib
import json
import os
import re
import time
from dataclasses import dataclass, field
from typing import Any, Callable, Dict, List, Optional

from .effects import RngEffects, StateEffects
from .model import AnalysisError, FuncInfo, Program, norm_text
from .resolve import CallGraph, Resolver

VERIF = os.path.dirname(os.path.dirname(os.path.abspath(__file__)))
KNOWN_FILE = os.path.join(VERIF, "known_findings.json")


class Context:
    """Lazily built analysis context for one program (live tree or an in-memory
    variant of it)."""

    def __init__(self, prog: Program):
        self.prog = prog
        self._res = None
        self._cg = None
        self._sfx = None
        self._rfx = None

    @property
    def res(self) -> Resolver:
        if self._res is None:
            self._res = Resolver(self.prog)
            canonical_internal_calls(self.prog, self._res)
        return self._res

    @property
    def cg(self) -> CallGraph:
        if self._cg is None:
            self._cg = CallGraph(self.prog, self.res)
        return self._cg

    @property
    def state(self) -> StateEffects:
        if self._sfx is None:
            self._sfx = StateEffects(self.prog, self.res)
        return self._sfx

    @property
    def rng(self) -> RngEffects:
        if self._rfx is None:
            self._rfx = RngEffects(self.prog, self.res)
        return self._rfx


def canonical_internal_calls(prog: Program, res) -> int:
    """How an argument is passed to one of the package's own functions -- by position or by keyword -- is not something a
    rule may depend on.  For every call that resolves to exactly one internal function (or class constructor) with plain
    parameters, the leading keywords that follow the declaration order are moved into their positional slots (Python
    binds them identically), and the call node is annotated with the parameter names, so that `util.call_arg` finds an
    argument by position *or* by name whichever way it was written.  Done once, in place, right after the resolver is
    built and before any rule reads a call."""
    from .model import ClassInfo, FuncInfo

    n = 0
    for fi in list(prog.functions.values()):
        for c in ast.walk(fi.node):
            if not isinstance(c, ast.Call) or hasattr(c, "_sa_params"):
                continue
            try:
                tg = list(res.call_targets(fi, c))
            except Exception:
                continue
            if len(tg) != 1:
                continue
            t = tg[0]
            fn = None
            skip = 0
            if isinstance(t, FuncInfo):
                fn = t
                skip = 1 if (t.cls is not None and not t.is_staticmethod and t.params and t.params[0] in ("self", "cls")) else 0
                if skip and isinstance(c.func, ast.Attribute) and isinstance(c.func.value, ast.Name) and t.cls is not None and c.func.value.id == t.cls.name:
                    continue  # Class.method(obj, ...): the receiver is the first positional argument
            elif isinstance(t, ClassInfo):
                fn = t.methods.get("__init__")
                skip = 1
            if fn is None:
                continue
            a = fn.node.args
            if a.vararg or a.posonlyargs:
                continue
            params = [p.arg for p in a.args][skip:]
            c._sa_params = params
            if any(isinstance(x, ast.Starred) for x in c.args) or any(k.arg is None for k in c.keywords):
                continue
            k = len(c.args)
            moved = 0
            while c.keywords and k < len(params) and c.keywords[0].arg == params[k]:
                c.args.append(c.keywords.pop(0).value)
                k += 1
                moved += 1
            n += moved
    return n


@dataclass
class Obligation:
    rule: str
    desc: str
    loc: str
    ok: bool
    func: str = ""
    key: str = ""
    msg: str = ""
    witness: Dict[str, Any] = field(default_factory=dict)
    status: str = ""  # discharged | violated | known
    key_alpha: str = ""  # the key with the function's local names replaced by positional placeholders

    def ident(self) -> tuple:
        return (self.rule, self.func, self.key)


class Reporter:
    def __init__(self, prop: str):
        self.prop = prop
        self.obligations: List[Obligation] = []
        self.notes: List[str] = []
        self.errors: List[str] = []
        self.analysed: Dict[str, Any] = {}

    def check(self, rule: str, desc: str, ok: bool, func: Optional[FuncInfo] = None, node: Optional[ast.AST] = None,
              msg: str = "", witness: Optional[dict] = None, key: Optional[str] = None, loc: Optional[str] = None) -> bool:
        if loc is None:
            loc = func.loc(node) if func is not None else "?"
        if key is None:
            key = norm_text(node)[:160] if node is not None else desc
        ob = Obligation(rule, desc, loc, bool(ok), func.short if func is not None else "", key, msg, witness or {})
        ob.key_alpha = alpha_key(func, key)
        self.obligations.append(ob)
        return bool(ok)

    def floor(self, rule: str, what: str, found: int, floor: int):
        """Instance floor: fewer rule instances than confirmed by hand means
        the rule would pass vacuously -> analysis error, never a pass."""
        self.analysed[f"{rule}:{what}"] = found
        if found < floor:
            raise AnalysisError(f"{rule}: instance floor missed for {what}: found {found} < {floor}")

    def note(self, text: str):
        self.notes.append(text)

    def guard(self, fn, *args, **kw):
        """Run one rule; an AnalysisError is recorded (and later reported as
        exit 2 unless a violation was found) instead of aborting the other rules."""
        try:
            return fn(*args, **kw)
        except AnalysisError as e:
            self.errors.append(str(e))
            return None

    def violated(self) -> List[Obligation]:
        return [o for o in self.obligations if not o.ok]


# ---------------------------------------------------------------------------
# known findings
# ---------------------------------------------------------------------------

def load_known() -> List[dict]:
    if not os.path.exists(KNOWN_FILE):
        return []
    with open(KNOWN_FILE) as fh:
        data = json.load(fh)
    return data.get("entries", [])


def match_known(ob: Obligation, prop: str, known: List[dict]) -> Optional[dict]:
    for e in known:
        if e.get("status") != "known":
            continue
        if e.get("property") != prop or e.get("rule") != ob.rule:
            continue
        if e.get("function") and e["function"] != ob.func:
            continue
        ck = e.get("construct_key")
        if ck and ck != ob.key:
            # the same construct with a local re-named is the same finding: compare with local names abstracted
            cka = e.get("construct_key_alpha")
            if not (cka and ob.key_alpha and cka == ob.key_alpha):
                continue
        return e
    return None


_ALPHA_CACHE: Dict[int, Dict[str, str]] = {}


def alpha_key(func, key: str) -> str:
    """`key` with every whole-word occurrence of a local variable of `func` replaced by $<k>, k the order in which the
    local is first bound in the function (parameters, attributes, globals keep their names).  Two trees that differ
    only in the names of locals give the same alpha key for the same construct."""
    if func is None or not key or getattr(func, "node", None) is None:
        return key or ""
    table = _ALPHA_CACHE.get(id(func.node))
    if table is None:
        import ast as _ast

        params = set(getattr(func, "params", []) or [])
        order = []
        # first binding order = source order of Store names
        stores = [x for x in _ast.walk(func.node) if isinstance(x, _ast.Name) and isinstance(x.ctx, _ast.Store)]
        stores.sort(key=lambda n: (getattr(n, "lineno", 0), getattr(n, "col_offset", 0)))
        for n in stores:
            if n.id not in params and n.id not in order:
                order.append(n.id)
        table = {nm: f"${i}" for i, nm in enumerate(order)}
        _ALPHA_CACHE[id(func.node)] = table
    if not table:
        return key
    pat = re.compile(r"(?<![A-Za-z0-9_.])(" + "|".join(re.escape(k) for k in sorted(table, key=len, reverse=True)) + r")(?![A-Za-z0-9_])")
    return pat.sub(lambda m: table[m.group(1)], key)


# ---------------------------------------------------------------------------
# evidence / replay
# ---------------------------------------------------------------------------

def slug(s: str) -> str:
    s = re.sub(r"[^A-Za-z0-9_.-]+", "_", s)[:80]
    return s.strip("_") or "x"


def write_replay(prop: str, ob: Obligation) -> str:
    d = os.path.join(VERIF, "replay", prop)
    os.makedirs(d, exist_ok=True)
    h = hashlib.sha1(repr(ob.ident()).encode()).hexdigest()[:10]
    path = os.path.join(d, f"{slug(ob.rule)}-{slug(ob.func)}-{h}.json")
    with open(path, "w") as fh:
        json.dump(
            {
                "property": prop,
                "rule": ob.rule,
                "function": ob.func,
                "construct_key": ob.key,
                "location": ob.loc,
                "obligation": ob.desc,
                "message": ob.msg,
                "witness": ob.witness,
            },
            fh,
            indent=1,
            default=str,
        )
    return path


def write_evidence(prop: str, tier: str, seed: int, wall: float, rep: Reporter, ctx_stats: dict, explanation: str,
                   assumptions: List[str], violations: int, known_printed: List[str], extra: Optional[dict] = None):
    d = os.path.join(VERIF, "evidence")
    os.makedirs(d, exist_ok=True)
    obs = rep.obligations
    distinct = len({o.ident() for o in obs})
    samples = []
    for o in obs[:40]:
        samples.append({"rule": o.rule, "obligation": o.desc, "at": o.loc, "function": o.func, "status": o.status or ("discharged" if o.ok else "violated"),
                        **({"message": o.msg} if o.msg and not o.ok else {})})
    cov = {
        "explanation": explanation,
        "obligations": len(obs),
        "discharged": sum(1 for o in obs if o.ok),
        "evaluations": len(obs),
        "distinct_nontrivial": distinct,
        "rule": "one obligation per (rule, function, construct) instance discovered on the live tree; distinct = distinct (rule, function, construct-key) triples; trivial obligations are not generated",
        "samples": samples,
        "exhaustive": True,
        "checker_cmd": f"python3-vt /verif/sa/cli.py check {prop} --tier {tier}",
        "trusted_base": ["CPython ast parser", "sa/ engine (CFG, reaching definitions, call resolution)"],
        "rules": sorted({o.rule for o in obs}),
        "instances": rep.analysed,
        "program": ctx_stats,
        "known_findings_printed": known_printed,
        "notes": rep.notes,
    }
    if extra:
        cov.update(extra)
    ev = {
        "property_id": prop,
        "tier": tier,
        "seed": seed,
        "level": "other",
        "coverage": cov,
        "assumptions": assumptions,
        "wall_s": round(wall, 3),
        "violations": violations,
    }
    path = os.path.join(d, f"{prop}.json")
    tmp = path + ".tmp"
    with open(tmp, "w") as fh:
        json.dump(ev, fh, indent=1, default=str)
    os.replace(tmp, path)
    return path


# where each property's code lives (module file names): the construct-level numpy / Python contracts of
# sa/util.numpy_contract_pack are checked there and reported under that property as rule <id>.z
CONTRACT_SCOPE = {
    "C03": (("mcmc.py", "modes.py"), "the kernel no longer does what its acceptance ratio assumes"),
    "C04": (("state_manager.py",), "weights / evidence are computed from other values than the stored history"),
    "C05": (("reweight.py",), "the temperature search works on corrupted evaluations"),
    "C06": (("resample.py",), "the resampled indices / rows are not the ones drawn"),
    "C07": (("mutate.py", "resample.py", "core.py", "mcmc.py"), "stored particles stop being coherent (u, x, logL, blob) records"),
    "C11": (("mutate.py",), "zero-likelihood draws are not replaced as intended"),
    "C12": (("core.py", "sampler.py"), "the returned posterior / evidence do not describe the stored history"),
    "C14": (("modes.py", "train.py", "resample.py"), "labels and modes stop referring to the same clusters"),
    "C15": (("cluster.py",), "the fitted mixture is not the weighted fit of the data it was given"),
    "C17": (("state_manager.py",), "internal state is changed or shared behind the accessors"),
    "C19": (("student.py", "modes.py"), "the fitted location / scale is not that of the weighted particles"),
    "C20": (("tools.py",), "the weight utilities return values of another weight vector"),
}


def run_rules(mod, prog):
    ctx = Context(prog)
    rep = Reporter(mod.PROP)
    mod.run(ctx, rep)
    scope = CONTRACT_SCOPE.get(mod.PROP)
    if scope is not None:
        from .util import numpy_contract_pack

        files, what = scope
        funcs = [f for f in prog.functions.values() if f.module.relpath.split("/")[-1] in files]
        rep.guard(numpy_contract_pack, ctx, rep, f"{mod.PROP}.z", funcs, what)
    return ctx, rep
