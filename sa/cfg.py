"""Statement-level control-flow graph for one function, dominators,
post-dominators, path queries (must-pass-through) and path conditions.

Nodes
-----
kind 'entry' / 'exit' (normal return, explicit or fall-through) / 'raise'
(exceptional exit); 'stmt' (simple statement: the ast.stmt); 'test' (If/While
header: node.ast is the test expression, node.stmt the compound statement);
'for' (For header: evaluates iter / binds target); 'with' (With header);
'except' (handler entry).

Edges carry a label: None, ('cond', test_expr, polarity), ('iter', True|False)
for a for-loop (has-next / exhausted), ('exc',) from a statement of a try body
to a handler.  `while True` (constant true test) has no false edge.
"""
from __future__ import annotations

import ast
from typing import Callable, Dict, Iterable, List, Optional, Set, Tuple


class Node:
    __slots__ = ("id", "kind", "ast", "stmt", "loops")

    def __init__(self, id: int, kind: str, astnode=None, stmt=None, loops=()):
        self.id = id
        self.kind = kind
        self.ast = astnode
        self.stmt = stmt if stmt is not None else astnode
        self.loops = tuple(loops)  # ids of enclosing loop header nodes, outermost first

    @property
    def lineno(self) -> int:
        return getattr(self.ast, "lineno", None) or getattr(self.stmt, "lineno", 0) or 0

    def __repr__(self):
        t = ""
        if self.ast is not None:
            try:
                t = ast.unparse(self.ast).split("\n")[0][:60]
            except Exception:
                t = type(self.ast).__name__
        return f"<{self.id}:{self.kind}@{self.lineno} {t}>"


Label = Optional[tuple]


class CFG:
    def __init__(self, fn: ast.FunctionDef):
        self.fn = fn
        self.nodes: List[Node] = []
        self.succ: Dict[int, List[Tuple[int, Label]]] = {}
        self.pred: Dict[int, List[Tuple[int, Label]]] = {}
        self.entry = self._new("entry")
        self.exit = self._new("exit")
        self.raise_exit = self._new("raise")
        self._stmt_node: Dict[int, Node] = {}  # id(ast stmt) -> first node
        self._build()

    # ------------------------------------------------------------ construction
    def _new(self, kind, astnode=None, stmt=None, loops=()) -> Node:
        n = Node(len(self.nodes), kind, astnode, stmt, loops)
        self.nodes.append(n)
        self.succ[n.id] = []
        self.pred[n.id] = []
        return n

    def _edge(self, a: Node, b: Node, label: Label = None):
        for (t, l) in self.succ[a.id]:
            if t == b.id and l == label:
                return
        self.succ[a.id].append((b.id, label))
        self.pred[b.id].append((a.id, label))

    def _connect(self, preds, node: Node):
        for (p, lab) in preds:
            self._edge(p, node, lab)

    def _build(self):
        ctx = _Ctx()
        out = self._block(self.fn.body, [(self.entry, None)], ctx)
        self._connect(out, self.exit)

    def _block(self, stmts, preds, ctx):
        for s in stmts:
            preds = self._stmt(s, preds, ctx)
        return preds

    def _abrupt_through_finally(self, preds, ctx, upto: int):
        """Route an abrupt exit through copies of the enclosing finally blocks
        (innermost first) down to try-depth `upto`."""
        for depth in range(len(ctx.finals) - 1, upto - 1, -1):
            fb = ctx.finals[depth]
            sub = ctx.clone()
            sub.finals = ctx.finals[:depth]
            sub.handlers = ctx.handlers[: ctx.final_handler_depth[depth]]
            sub.final_handler_depth = ctx.final_handler_depth[:depth]
            preds = self._block(fb, preds, sub)
        return preds

    def _stmt(self, s: ast.stmt, preds, ctx):
        loops = tuple(l[0].id for l in ctx.loops)
        if isinstance(s, ast.If):
            t = self._new("test", s.test, s, loops)
            self._stmt_node[id(s)] = t
            self._connect(preds, t)
            self._exc_edges(t, ctx)
            out_t = self._block(s.body, [(t, ("cond", s.test, True))], ctx)
            if s.orelse:
                out_f = self._block(s.orelse, [(t, ("cond", s.test, False))], ctx)
            else:
                out_f = [(t, ("cond", s.test, False))]
            return out_t + out_f
        if isinstance(s, ast.While):
            t = self._new("test", s.test, s, loops)
            self._stmt_node[id(s)] = t
            self._connect(preds, t)
            self._exc_edges(t, ctx)
            breaks: list = []
            ctx.loops.append((t, breaks, len(ctx.finals)))
            body_out = self._block(s.body, [(t, ("cond", s.test, True))], ctx)
            ctx.loops.pop()
            self._connect(body_out, t)
            const_true = isinstance(s.test, ast.Constant) and bool(s.test.value) is True
            out = list(breaks)
            if not const_true:
                if s.orelse:
                    out += self._block(s.orelse, [(t, ("cond", s.test, False))], ctx)
                else:
                    out.append((t, ("cond", s.test, False)))
            return out
        if isinstance(s, (ast.For, ast.AsyncFor)):
            h = self._new("for", s, s, loops)
            self._stmt_node[id(s)] = h
            self._connect(preds, h)
            self._exc_edges(h, ctx)
            breaks = []
            ctx.loops.append((h, breaks, len(ctx.finals)))
            body_out = self._block(s.body, [(h, ("iter", True))], ctx)
            ctx.loops.pop()
            self._connect(body_out, h)
            out = list(breaks)
            if s.orelse:
                out += self._block(s.orelse, [(h, ("iter", False))], ctx)
            else:
                out.append((h, ("iter", False)))
            return out
        if isinstance(s, (ast.With, ast.AsyncWith)):
            w = self._new("with", s, s, loops)
            self._stmt_node[id(s)] = w
            self._connect(preds, w)
            self._exc_edges(w, ctx)
            return self._block(s.body, [(w, None)], ctx)
        if isinstance(s, ast.Try):
            return self._try(s, preds, ctx)
        if isinstance(s, ast.Return):
            n = self._new("stmt", s, s, loops)
            self._stmt_node[id(s)] = n
            self._connect(preds, n)
            self._exc_edges(n, ctx)
            out = self._abrupt_through_finally([(n, None)], ctx, 0)
            self._connect(out, self.exit)
            return []
        if isinstance(s, ast.Raise):
            n = self._new("stmt", s, s, loops)
            self._stmt_node[id(s)] = n
            self._connect(preds, n)
            if ctx.handlers:
                for h in ctx.handlers[-1]:
                    self._edge(n, h, ("exc",))
                # an unmatched exception type may also propagate
            out = self._abrupt_through_finally([(n, None)], ctx, 0)
            self._connect(out, self.raise_exit)
            return []
        if isinstance(s, ast.Break):
            n = self._new("stmt", s, s, loops)
            self._stmt_node[id(s)] = n
            self._connect(preds, n)
            if not ctx.loops:
                return []
            hdr, breaks, fdepth = ctx.loops[-1]
            out = self._abrupt_through_finally([(n, None)], ctx, fdepth)
            breaks.extend(out)
            return []
        if isinstance(s, ast.Continue):
            n = self._new("stmt", s, s, loops)
            self._stmt_node[id(s)] = n
            self._connect(preds, n)
            if not ctx.loops:
                return []
            hdr, breaks, fdepth = ctx.loops[-1]
            out = self._abrupt_through_finally([(n, None)], ctx, fdepth)
            self._connect(out, hdr)
            return []
        if isinstance(s, ast.Match):  # not used by tempest
            n = self._new("stmt", s, s, loops)
            self._connect(preds, n)
            outs = []
            for case in s.cases:
                outs += self._block(case.body, [(n, None)], ctx)
            return outs + [(n, None)]
        # simple statement (incl. nested def / class, assert, import, expr, assign)
        n = self._new("stmt", s, s, loops)
        self._stmt_node[id(s)] = n
        self._connect(preds, n)
        self._exc_edges(n, ctx)
        return [(n, None)]

    def _exc_edges(self, n: Node, ctx):
        if ctx.handlers:
            for h in ctx.handlers[-1]:
                self._edge(n, h, ("exc",))
        elif ctx.finals:
            # exception inside try/finally without handler: finally copy then raise
            pass

    def _try(self, s: ast.Try, preds, ctx):
        loops = tuple(l[0].id for l in ctx.loops)
        hnodes = []
        for h in s.handlers:
            hn = self._new("except", h, h, loops)
            hnodes.append(hn)
        has_final = bool(s.finalbody)
        if has_final:
            ctx.finals.append(s.finalbody)
            ctx.final_handler_depth.append(len(ctx.handlers))
        ctx.handlers.append(hnodes)
        # a marker node so that a try with an empty set of handlers still has an anchor
        body_out = self._block(s.body, preds, ctx)
        ctx.handlers.pop()
        if s.orelse:
            body_out = self._block(s.orelse, body_out, ctx)
        outs = list(body_out)
        for h, hn in zip(s.handlers, hnodes):
            outs += self._block(h.body, [(hn, None)], ctx)
        if has_final:
            ctx.finals.pop()
            ctx.final_handler_depth.pop()
            # normal completion -> finally -> continue
            outs = self._block(s.finalbody, outs, ctx)
            # exceptional completion of the body (no handler matched): finally copy -> raise
            exc_sources = [n for n in self._nodes_of_block(s.body)]
            if exc_sources:
                sub_preds = [(n, ("exc",)) for n in exc_sources]
                fout = self._block(s.finalbody, sub_preds, ctx)
                self._connect(fout, self.raise_exit)
        return outs

    def _nodes_of_block(self, stmts) -> List[Node]:
        ids = set()
        for s in stmts:
            for sub in ast.walk(s):
                if isinstance(sub, ast.stmt):
                    ids.add(id(sub))
        return [n for n in self.nodes if n.stmt is not None and id(n.stmt) in ids and n.kind in ("stmt", "test", "for", "with")]

    # ------------------------------------------------------------------ query
    def node_of(self, stmt: ast.stmt) -> Optional[Node]:
        return self._stmt_node.get(id(stmt))

    def stmt_nodes(self) -> List[Node]:
        return [n for n in self.nodes if n.kind not in ("entry", "exit", "raise")]

    def successors(self, nid: int) -> List[Tuple[int, Label]]:
        return self.succ[nid]

    def predecessors(self, nid: int) -> List[Tuple[int, Label]]:
        return self.pred[nid]

    def reachable_from(self, start: int, blocked: Iterable[int] = (), blocked_edges: Optional[Callable] = None) -> Set[int]:
        blocked = set(blocked)
        seen = set()
        todo = [start]
        while todo:
            x = todo.pop()
            if x in seen or (x in blocked and x != start):
                continue
            seen.add(x)
            for (t, lab) in self.succ[x]:
                if blocked_edges is not None and blocked_edges(x, t, lab):
                    continue
                if t not in seen and t not in blocked:
                    todo.append(t)
        return seen

    def reaches(self, a: int, b: int, blocked: Iterable[int] = (), blocked_edges=None) -> bool:
        """Is there a path a -> ... -> b (length >= 1) avoiding `blocked`?"""
        blocked = set(blocked)
        seen = set()
        todo = [t for (t, lab) in self.succ[a] if not (blocked_edges and blocked_edges(a, t, lab))]
        while todo:
            x = todo.pop()
            if x == b:
                return True
            if x in seen or x in blocked:
                continue
            seen.add(x)
            for (t, lab) in self.succ[x]:
                if blocked_edges and blocked_edges(x, t, lab):
                    continue
                todo.append(t)
        return False

    def find_path(self, a: int, b: int, blocked: Iterable[int] = (), blocked_edges=None) -> Optional[List[int]]:
        blocked = set(blocked)
        prev = {a: None}
        todo = [a]
        first = True
        while todo:
            x = todo.pop(0)
            if x == b and not first:
                break
            first = False
            for (t, lab) in self.succ[x]:
                if blocked_edges and blocked_edges(x, t, lab):
                    continue
                if t in blocked and t != b:
                    continue
                if t not in prev or (t == b and prev.get(b) is None and b == a):
                    prev[t] = x
                    if t == b:
                        todo = []
                        break
                    todo.append(t)
        if b not in prev or (a == b and prev[b] is None):
            return None
        path = [b]
        cur = prev[b]
        guard = 0
        while cur is not None and guard < 10000:
            path.append(cur)
            if cur == a:
                break
            cur = prev[cur]
            guard += 1
        return list(reversed(path))

    def must_pass(self, a: int, b: int, through: Iterable[int], blocked_edges=None) -> bool:
        """Every path from a to b passes a node in `through`."""
        return not self.reaches(a, b, blocked=through, blocked_edges=blocked_edges) if a != b else True

    # dominators --------------------------------------------------------------
    def dominators(self) -> Dict[int, Set[int]]:
        if getattr(self, "_dom", None) is None:
            self._dom = _dominators(self, self.entry.id, self.succ, self.pred)
        return self._dom

    def postdominators(self) -> Dict[int, Set[int]]:
        """Post-dominators with respect to the normal exit."""
        if getattr(self, "_pdom", None) is None:
            self._pdom = _dominators(self, self.exit.id, self.pred, self.succ)
        return self._pdom

    def dominates(self, a: int, b: int) -> bool:
        return a in self.dominators().get(b, set())

    def postdominates(self, a: int, b: int) -> bool:
        return a in self.postdominators().get(b, set())

    def back_edges(self) -> List[Tuple[int, int]]:
        dom = self.dominators()
        out = []
        for a, lst in self.succ.items():
            for (b, _) in lst:
                if b in dom.get(a, set()):
                    out.append((a, b))
        return out

    def loop_body(self, header: int) -> Set[int]:
        """Natural loop of header: nodes that can reach a back edge source
        without leaving through the header."""
        body = {header}
        for (a, b) in self.back_edges():
            if b != header:
                continue
            todo = [a]
            while todo:
                x = todo.pop()
                if x in body:
                    continue
                body.add(x)
                todo.extend(p for (p, _) in self.pred[x])
        return body

    # paths -------------------------------------------------------------------
    def acyclic_paths(self, a: int, b: int, limit: int = 5000) -> List[List[Tuple[int, Label]]]:
        """All loop-free paths from a to b as lists of (node, label-of-edge-taken-into-node)."""
        out = []
        stack = [(a, [(a, None)], {a})]
        while stack:
            x, path, seen = stack.pop()
            if x == b and len(path) > 1 or (x == b and a == b and len(path) == 1 and False):
                out.append(path)
                if len(out) > limit:
                    raise OverflowError("too many paths")
                continue
            for (t, lab) in self.succ[x]:
                if t in seen and t != b:
                    continue
                if t == b:
                    out.append(path + [(t, lab)])
                    if len(out) > limit:
                        raise OverflowError("too many paths")
                    continue
                stack.append((t, path + [(t, lab)], seen | {t}))
        return out

    def conditions_on_all_paths(self, target: int, start: Optional[int] = None) -> List[Tuple[ast.expr, bool]]:
        """Branch conditions (test, polarity) that hold on *every* path from
        start (default: entry) to target: the test node dominates target and
        target is reachable from only one of its outgoing polarities without
        re-passing the test."""
        start = self.entry.id if start is None else start
        res = []
        dom = self.dominators()
        for d in dom.get(target, set()):
            n = self.nodes[d]
            if n.kind != "test" or d == target:
                continue
            pols = set()
            for (t, lab) in self.succ[d]:
                if lab and lab[0] == "cond":
                    if t == target or self.reaches(t, target, blocked=[d]) or t == target:
                        pols.add(lab[2])
            if len(pols) == 1:
                res.append((n.ast, pols.pop()))
        return res


class _Ctx:
    def __init__(self):
        self.loops: list = []  # (header node, break-preds list, finals depth)
        self.handlers: list = []  # stack of lists of handler nodes
        self.finals: list = []  # stack of finalbody stmt lists
        self.final_handler_depth: list = []

    def clone(self):
        c = _Ctx()
        c.loops = self.loops
        c.handlers = list(self.handlers)
        c.finals = list(self.finals)
        c.final_handler_depth = list(self.final_handler_depth)
        return c


def _dominators(cfg: CFG, root: int, succ, pred) -> Dict[int, Set[int]]:
    # nodes reachable from root following succ
    reach = set()
    todo = [root]
    while todo:
        x = todo.pop()
        if x in reach:
            continue
        reach.add(x)
        todo.extend(t for (t, _) in succ[x])
    dom = {n: set(reach) for n in reach}
    dom[root] = {root}
    changed = True
    order = sorted(reach)
    while changed:
        changed = False
        for n in order:
            if n == root:
                continue
            ps = [p for (p, _) in pred[n] if p in reach]
            if not ps:
                new = {n}
            else:
                new = set.intersection(*(dom[p] for p in ps)) | {n}
            if new != dom[n]:
                dom[n] = new
                changed = True
    return dom


_CFG_CACHE: Dict[int, CFG] = {}


def cfg_of(fn: ast.FunctionDef) -> CFG:
    c = _CFG_CACHE.get(id(fn))
    if c is None or c.fn is not fn:
        c = CFG(fn)
        _CFG_CACHE[id(fn)] = c
    return c
