"""Memoised attributes and their invalidation obligations.

A *memo attribute* A of class K is an instance attribute for which some method
M (not the constructor)

  * tests it (`self.A is None`, `self.A is not None`, `key in self.A`,
    `getattr(self, "A", None)` compared/tested, truthiness), and
  * fills it (assigns a non-constant value to `self.A`, or stores into
    `self.A[...]`).

The memo's *dependencies* are the other instance attributes read by M and by
the methods of K it calls (transitively): the cached value was computed from
them.  The obligation: every method of K that mutates a dependency (assigns
it, stores into it, or calls a mutating container method on it) must also
reset A -- directly, or through a method it calls -- unless it is the filling
method itself or the constructor (which must initialise A to an empty value).

This is a structural necessary condition for "the result depends only on the
current state": a missing reset means a later call can return a value computed
from a state that no longer exists.
"""
from __future__ import annotations

import ast
from dataclasses import dataclass, field
from typing import Dict, List, Optional, Set, Tuple

from .engine import Context
from .model import ClassInfo, FuncInfo, norm_text, walk_no_nested

MUTATING_METHODS = {"append", "extend", "clear", "update", "pop", "popitem", "insert", "remove", "setdefault", "sort", "reverse", "fill", "resize", "put", "itemset"}
EMPTY_CTORS = {"dict", "list", "set", "tuple", "OrderedDict", "defaultdict"}


def _self_attr(e: ast.AST, selfname: str = "self") -> Optional[str]:
    if isinstance(e, ast.Attribute) and isinstance(e.value, ast.Name) and e.value.id == selfname:
        return e.attr
    if isinstance(e, ast.Call) and isinstance(e.func, ast.Name) and e.func.id == "getattr" and len(e.args) >= 2 \
            and isinstance(e.args[0], ast.Name) and e.args[0].id == selfname and isinstance(e.args[1], ast.Constant) and isinstance(e.args[1].value, str):
        return e.args[1].value
    return None


def _is_empty_value(v: ast.AST) -> bool:
    if isinstance(v, ast.Constant):
        return True
    if isinstance(v, (ast.Dict, ast.List, ast.Set, ast.Tuple)):
        return not (v.keys if isinstance(v, ast.Dict) else v.elts)
    if isinstance(v, ast.Call) and isinstance(v.func, ast.Name) and v.func.id in EMPTY_CTORS and not v.args and not v.keywords:
        return True
    return False


@dataclass
class MethodFacts:
    fi: FuncInfo
    reads: Set[str] = field(default_factory=set)
    tests: Set[str] = field(default_factory=set)
    raw_tests: List[tuple] = field(default_factory=list)  # (attr, empty_when_true, If node)
    fills: Dict[str, List[ast.AST]] = field(default_factory=dict)  # non-empty assignment / subscript store
    resets: Dict[str, List[ast.AST]] = field(default_factory=dict)  # assignment of an empty value / .clear()
    mutates: Dict[str, List[ast.AST]] = field(default_factory=dict)  # any write to the attribute or its contents
    self_calls: Set[str] = field(default_factory=set)


def method_facts(fi: FuncInfo) -> MethodFacts:
    mf = MethodFacts(fi)
    selfname = fi.params[0] if fi.params else "self"
    # local aliases of getattr(self, "A", ...) / self.A used in tests
    alias: Dict[str, str] = {}
    for n in walk_no_nested(fi.node):
        if isinstance(n, ast.Assign) and len(n.targets) == 1 and isinstance(n.targets[0], ast.Name):
            a = _self_attr(n.value, selfname)
            if a is not None:
                alias[n.targets[0].id] = a
        # chained assignment `cache = self.A = {}`: the local is the attribute's object
        if isinstance(n, ast.Assign) and len(n.targets) > 1:
            attrs = [_self_attr(t, selfname) for t in n.targets if _self_attr(t, selfname) is not None]
            if len(attrs) == 1:
                for t in n.targets:
                    if isinstance(t, ast.Name):
                        alias[t.id] = attrs[0]
    for n in ast.walk(fi.node):
        a = _self_attr(n, selfname)
        if a is not None and isinstance(getattr(n, "ctx", ast.Load()), ast.Load):
            mf.reads.add(a)
        if isinstance(n, ast.Call) and isinstance(n.func, ast.Attribute):
            rb = n.func.value
            while isinstance(rb, ast.Subscript):
                rb = rb.value
            recv = _self_attr(rb, selfname)
            if isinstance(n.func.value, ast.Name) and n.func.value.id == selfname:
                mf.self_calls.add(n.func.attr)
            if recv is not None and n.func.attr in MUTATING_METHODS:
                mf.mutates.setdefault(recv, []).append(n)
                if n.func.attr == "clear":
                    mf.resets.setdefault(recv, []).append(n)
            if isinstance(n.func.value, ast.Name) and n.func.value.id == "object" and n.func.attr == "__setattr__" and len(n.args) == 3 \
                    and isinstance(n.args[1], ast.Constant):
                mf.mutates.setdefault(n.args[1].value, []).append(n)
        if isinstance(n, ast.Call) and isinstance(n.func, ast.Name) and n.func.id == "setattr" and len(n.args) == 3 and isinstance(n.args[0], ast.Name) \
                and n.args[0].id == selfname and isinstance(n.args[1], ast.Constant):
            a = n.args[1].value
            mf.mutates.setdefault(a, []).append(n)
            (mf.resets if _is_empty_value(n.args[2]) else mf.fills).setdefault(a, []).append(n)
        targets = []
        value = None
        if isinstance(n, ast.Assign):
            targets, value = n.targets, n.value
        elif isinstance(n, (ast.AugAssign, ast.AnnAssign)) and n.target is not None:
            targets, value = [n.target], n.value
        flat = []
        for t in targets:
            if isinstance(t, (ast.Tuple, ast.List)):
                flat.extend((e, None) for e in t.elts)
            else:
                flat.append((t, value))
        for (t, v) in flat:
            a = _self_attr(t, selfname)
            if a is not None:
                mf.mutates.setdefault(a, []).append(n)
                if v is not None and _is_empty_value(v) and not isinstance(n, ast.AugAssign):
                    mf.resets.setdefault(a, []).append(n)
                else:
                    mf.fills.setdefault(a, []).append(n)
            elif isinstance(t, ast.Subscript):
                base = t.value
                while isinstance(base, ast.Subscript):
                    base = base.value
                a = _self_attr(base, selfname)
                if a is None and isinstance(base, ast.Name) and base.id in alias:
                    a = alias[base.id]
                if a is not None:
                    mf.mutates.setdefault(a, []).append(n)
                    mf.fills.setdefault(a, []).append(n)
        if isinstance(n, ast.Delete):
            for t in n.targets:
                b = t.value if isinstance(t, ast.Subscript) else t
                a = _self_attr(b, selfname)
                if a is not None:
                    mf.mutates.setdefault(a, []).append(n)
    # emptiness tests of an attribute whose fill is on the "was empty" side
    def attr_of(x):
        a = _self_attr(x, selfname)
        if a is None and isinstance(x, ast.Name) and x.id in alias:
            a = alias[x.id]
        return a

    def classify(t):
        """[(attr, True if the test being true means 'empty')]"""
        out = []
        if isinstance(t, ast.BoolOp):
            for v in t.values:
                out.extend(classify(v))
            return out
        if isinstance(t, ast.UnaryOp) and isinstance(t.op, ast.Not):
            return [(a, not e) for (a, e) in classify(t.operand)]
        if isinstance(t, ast.Compare) and len(t.ops) == 1:
            l, r, op = t.left, t.comparators[0], t.ops[0]
            if isinstance(op, (ast.Is, ast.IsNot)) and isinstance(r, ast.Constant) and r.value is None and attr_of(l) is not None:
                out.append((attr_of(l), isinstance(op, ast.Is)))
            if isinstance(op, (ast.In, ast.NotIn)) and attr_of(r) is not None:
                out.append((attr_of(r), isinstance(op, ast.NotIn)))
            return out
        if attr_of(t) is not None:
            return [(attr_of(t), False)]
        return out

    def contains(body, node):
        return any(node is x for st in body for x in ast.walk(st))

    for n in walk_no_nested(fi.node):
        if not isinstance(n, ast.If):
            continue
        for (a, empty_when_true) in classify(n.test):
            mf.raw_tests.append((a, empty_when_true, n))
            fills = mf.fills.get(a, [])
            if not fills:
                continue
            nonempty_side = n.orelse if empty_when_true else n.body
            if any(not contains(nonempty_side, f) for f in fills):
                mf.tests.add(a)
    return mf


@dataclass
class Memo:
    cls: ClassInfo
    attr: str
    filler: FuncInfo
    deps: Set[str]
    unreset: List[Tuple[FuncInfo, str, ast.AST]]  # (method, dependency it mutates, the mutating node)
    init_ok: bool


def class_memos(ctx: Context, cls: ClassInfo) -> Tuple[List[Memo], Dict[str, MethodFacts]]:
    methods = [f for f in ctx.prog.functions.values() if f.cls is cls and f.parent_func is None] if hasattr(FuncInfo, "parent_func") else \
        [f for f in ctx.prog.functions.values() if f.cls is cls]
    facts = {f.name: method_facts(f) for f in methods}

    def closure(name: str, what: str) -> Set[str]:
        seen, todo, out = set(), [name], set()
        while todo:
            m = todo.pop()
            if m in seen or m not in facts:
                continue
            seen.add(m)
            mf = facts[m]
            out |= set(getattr(mf, what)) if what != "reads" else mf.reads
            todo.extend(mf.self_calls)
        return out

    def covered_by_callers(name: str, attr: str, seen: Set[str]) -> bool:
        if name in seen:
            return False
        seen = seen | {name}
        callers = [m for m, f in facts.items() if name in f.self_calls and m != name]
        if not callers:
            return False
        for c in callers:
            if c in ("__init__", "__post_init__", "__setstate__"):
                continue
            if attr in closure(c, "resets"):
                continue
            if c.startswith("_") and not c.startswith("__") and covered_by_callers(c, attr, seen):
                continue
            return False
        return True

    # test-and-fill split over a helper: `if self.A is None: self._fill_A()` with the fill in (a callee of) the helper
    for name, mf in facts.items():
        if name in ("__init__", "__post_init__", "__setstate__"):
            continue
        for (a, empty_when_true, ifnode) in mf.raw_tests:
            if a in mf.tests:
                continue
            empty_side = ifnode.body if empty_when_true else ifnode.orelse
            for st in empty_side:
                for c in ast.walk(st):
                    if isinstance(c, ast.Call) and isinstance(c.func, ast.Attribute) and isinstance(c.func.value, ast.Name) and c.func.value.id == (mf.fi.params[0] if mf.fi.params else "self"):
                        if a in closure(c.func.attr, "fills"):
                            mf.tests.add(a)
                            mf.fills.setdefault(a, []).append(c)
    memos: List[Memo] = []
    all_memo_attrs = set()
    for name, mf in facts.items():
        if name not in ("__init__", "__post_init__", "__setstate__"):
            all_memo_attrs |= mf.tests & set(mf.fills)
    for name, mf in facts.items():
        if name in ("__init__", "__post_init__", "__setstate__"):
            continue
        for a in sorted(mf.tests & set(mf.fills)):
            if any(m.attr == a for m in memos):
                continue
            # methods that only reset are not fillers; the filler must not be a plain setter of configuration
            deps = closure(name, "reads") - all_memo_attrs  # other memos are derived data with their own obligations
            # only attributes that are state (assigned somewhere in the class) count
            assigned = set()
            for f2 in facts.values():
                assigned |= set(f2.mutates)
            deps &= assigned
            unreset = []
            for n2, f2 in facts.items():
                if n2 in ("__init__", "__post_init__", "__setstate__") or n2 == name:
                    continue
                touched = [d for d in f2.mutates if d in deps]
                if not touched:
                    continue
                resets = closure(n2, "resets")
                if a in resets:
                    continue
                # a private helper is covered when every method that calls it resets the memo (the reset is
                # the entry point's duty: `_load_sections(...)` then `_invalidate_cache()` in the caller)
                if n2.startswith("_") and not n2.startswith("__") and covered_by_callers(n2, a, set()):
                    continue
                # a method that itself (re)fills the memo from the new state is also fine
                if a in f2.fills and a not in f2.tests:
                    continue
                for d in touched:
                    unreset.append((f2.fi, d, f2.mutates[d][0]))
            init = facts.get("__init__")
            init_ok = init is not None and (a in init.resets or a in init.fills)
            memos.append(Memo(cls, a, mf.fi, deps, unreset, init_ok))
    return memos, facts


def memo_rule(ctx: Context, R, rule_id: str, classes: List[ClassInfo], what: str, min_memos: int = 0):
    """One obligation per (memo attribute, mutator of a dependency); one for the
    constructor initialisation.  `min_memos` is the number confirmed by hand on
    the reference tree (0 when the class keeps no memo today)."""
    n = 0
    methods = 0
    for cls in classes:
        memos, facts = class_memos(ctx, cls)
        methods += len(facts)
        for m in memos:
            n += 1
            R.check(rule_id, f"{cls.name}.{m.attr}: memoised value is initialised empty by the constructor", m.init_ok, m.filler, m.filler.node,
                    msg=f"{cls.name}: memo attribute `{m.attr}` (filled in {m.filler.short}) is not initialised in __init__", key=f"memo-init:{cls.name}.{m.attr}")
            bad = {}
            for (f, d, node) in m.unreset:
                bad.setdefault(f.short, (f, d, node))
            muts = set()
            for f2 in facts.values():
                if f2.fi.name not in ("__init__", "__post_init__", "__setstate__") and f2.fi is not m.filler and any(d in m.deps for d in f2.mutates):
                    muts.add(f2.fi.short)
            for fs in sorted(muts):
                ok = fs not in bad
                f, d, node = bad.get(fs, (m.filler, "", m.filler.node))
                R.check(rule_id, f"{fs} resets the memo `{m.attr}` when it changes what the memo was computed from", ok, f, node,
                        msg=f"{fs}: changes `self.{d}` but does not reset `self.{m.attr}`, which {m.filler.short} computed from it and returns without recomputing: "
                            f"{what}", key=f"memo-reset:{cls.name}.{m.attr}:{fs}")
    R.analysed[f"{rule_id}:methods_scanned"] = methods
    R.analysed[f"{rule_id}:memo_attributes"] = n
    if n < min_memos:
        R.floor(rule_id, "memo attributes", n, min_memos)
    if n == 0:
        # nothing memoised: the clause holds trivially, recorded as one discharged obligation
        R.check(rule_id, "no result is memoised across calls in " + ", ".join(c.name for c in classes), True, None, None, key="memo-none")
