"""A4: ownership / freshness abstract interpretation.

Abstract values (trees):
    Scalar                      no array inside (numbers, strings, None, len())
    Arr(owner)                  an array-like leaf; owner in {'fresh','internal','param','unknown'}
    Cont(owner, elems)          a container (dict/list/tuple); elems = list of abstract values
                                (one summarising element, or one per literal entry)

owner 'internal' = aliases memory reachable from the state object's attributes;
'param' = aliases an object owned by the caller; 'fresh' = allocated by this
evaluation and not retained anywhere.

A returned value is *safe* when no node of its tree is 'internal' (and, for the
retention rule, the object itself is not stored in an attribute).  A stored
value is *safe* when no node is 'param' or aliases another internal slot.
"""
from __future__ import annotations

import ast
from typing import Dict, List, Optional, Tuple

from .dataflow import flow_of, select_path
from .engine import Context
from .model import ClassInfo, FuncInfo, dotted


class AV:
    __slots__ = ("kind", "owner", "elems", "why")

    def __init__(self, kind: str, owner: str = "fresh", elems: Optional[List["AV"]] = None, why: str = ""):
        self.kind = kind  # 'scalar' | 'arr' | 'cont' | 'unknown'
        self.owner = owner
        self.elems = elems or []
        self.why = why

    def __repr__(self):
        if self.kind == "scalar":
            return "Scalar"
        if self.kind == "arr":
            return f"Arr({self.owner})"
        if self.kind == "cont":
            return f"Cont({self.owner},[{','.join(map(repr, self.elems))}])"
        return f"Unknown({self.why})"

    def bad_nodes(self, bad_owners=("internal",)) -> List["AV"]:
        out = []
        if self.kind in ("arr", "cont") and self.owner in bad_owners:
            out.append(self)
        if self.kind == "unknown" and "unknown" in bad_owners:
            out.append(self)
        for e in self.elems:
            out += e.bad_nodes(bad_owners)
        return out

    def elem(self) -> "AV":
        if self.kind == "cont":
            if not self.elems:
                return SCALAR
            if len(self.elems) == 1:
                return self.elems[0]
            return join(self.elems)
        if self.kind == "arr":
            # element / view of an array: same owner
            return AV("arr", self.owner, why=self.why)
        if self.kind == "scalar":
            return SCALAR
        return self


SCALAR = AV("scalar")


def join(vals: List[AV]) -> AV:
    vals = [v for v in vals if v is not None]
    if not vals:
        return SCALAR
    rank = {"fresh": 0, "param": 2, "unknown": 1, "internal": 3}
    non_scalar = [v for v in vals if v.kind != "scalar"]
    if not non_scalar:
        return SCALAR
    if any(v.kind == "cont" for v in non_scalar):
        owner = max((v.owner for v in non_scalar if v.kind in ("cont", "arr")), key=lambda o: rank[o], default="fresh")
        elems = []
        for v in non_scalar:
            if v.kind == "cont":
                elems += v.elems
            else:
                elems.append(v)
        return AV("cont", owner, [join(elems)] if elems else [], why=";".join(v.why for v in non_scalar if v.why)[:120])
    if any(v.kind == "unknown" for v in non_scalar) and not any(v.kind == "arr" and v.owner == "internal" for v in non_scalar):
        return next(v for v in non_scalar if v.kind == "unknown")
    owner = max((v.owner for v in non_scalar if v.kind == "arr"), key=lambda o: rank[o], default="fresh")
    why = next((v.why for v in non_scalar if v.kind == "arr" and v.owner == owner), "")
    return AV("arr", owner, why=why)


NEW_ARRAY_FUNCS = {
    "numpy.array", "numpy.concatenate", "numpy.copy", "numpy.zeros", "numpy.ones", "numpy.empty", "numpy.full", "numpy.arange",
    "numpy.zeros_like", "numpy.ones_like", "numpy.empty_like", "numpy.exp", "numpy.log", "numpy.sum", "numpy.max", "numpy.min",
    "numpy.mean", "numpy.where", "numpy.linspace", "numpy.eye", "numpy.stack", "numpy.vstack", "numpy.hstack", "numpy.sqrt",
    "numpy.logaddexp.reduce", "numpy.abs", "numpy.isfinite", "numpy.isinf", "numpy.unique", "numpy.percentile", "numpy.dot",
    "numpy.einsum", "numpy.minimum", "numpy.maximum", "numpy.nan_to_num", "numpy.clip", "numpy.cumsum", "numpy.argmax",
    "numpy.argmin", "numpy.linalg.inv", "numpy.linalg.cholesky", "numpy.random.rand", "numpy.random.choice", "copy.deepcopy",
}
IDENTITY_FUNCS = {"numpy.asarray", "numpy.asanyarray", "numpy.atleast_1d", "numpy.atleast_2d", "numpy.ravel", "numpy.squeeze",
                  "numpy.reshape", "numpy.transpose", "numpy.ascontiguousarray"}
VIEW_METHODS = {"reshape", "ravel", "view", "squeeze", "transpose", "swapaxes", "T"}
COPY_METHODS = {"copy", "astype", "flatten", "tolist"}


def _kw_false_or_unknown(call: ast.Call, name: str) -> bool:
    """keyword `name` is given and is not the literal True: the call may hand back its argument instead of a new array"""
    for k in call.keywords:
        if k.arg == name:
            return not (isinstance(k.value, ast.Constant) and k.value.value is True)
        if k.arg is None:
            return True  # **options: unknown
    return False


def copies_name(external_name, v: ast.AST, name: str) -> bool:
    """`v` is a new array / deep copy made from the plain name `name`"""
    src = fresh_copy_source(external_name, v)
    if isinstance(src, ast.Name) and src.id == name:
        return True
    return isinstance(v, ast.Call) and (external_name(v) or "") == "copy.deepcopy" and bool(v.args) and isinstance(v.args[0], ast.Name) and v.args[0].id == name


def fresh_copy_source(external_name, v: ast.AST) -> Optional[ast.expr]:
    """The one definition of "a new array holding the values of an existing one", shared by every rule that asks whether
    a working copy / stored copy is *fresh* (writes to it cannot reach the original).  Returns the copied expression for

        X.copy(...)   X.flatten(...)   X.astype(T) / X.astype(T, copy=True)
        numpy.copy(X, ...)   numpy.array(X, ...) unless copy is given and is not the literal True

    and None for everything that may alias X: asarray / asanyarray / ascontiguousarray / atleast_nd / reshape / ravel /
    view / squeeze / transpose / slices, `numpy.array(X, copy=False)`, `X.astype(T, copy=False)`.
    `external_name(call)` resolves a call to its dotted library name (or None)."""
    if not isinstance(v, ast.Call):
        return None
    f = v.func
    if isinstance(f, ast.Attribute) and f.attr in ("copy", "flatten") and not (external_name(v) or "").startswith(("numpy.", "copy.")):
        return f.value
    if isinstance(f, ast.Attribute) and f.attr == "astype" and len(v.args) <= 1 and not _kw_false_or_unknown(v, "copy"):
        return f.value
    ext = external_name(v) or ""
    if ext == "numpy.copy" and v.args and not isinstance(v.args[0], ast.Starred):
        return v.args[0]
    if ext == "numpy.array" and v.args and not isinstance(v.args[0], ast.Starred) and not _kw_false_or_unknown(v, "copy") and len(v.args) <= 2:
        return v.args[0]
    return None
SCALAR_FUNCS = {"builtins.len", "builtins.int", "builtins.float", "builtins.bool", "builtins.str", "builtins.isinstance", "builtins.getattr",
                "builtins.sum", "builtins.max", "builtins.min", "builtins.abs", "builtins.round", "builtins.sorted", "builtins.range",
                "builtins.enumerate", "builtins.zip", "builtins.hasattr", "builtins.type", "builtins.repr", "builtins.callable"}


class Freshness:
    """Abstract interpreter.  `internal_attrs` describes, for the state class,
    the shape of each attribute; other classes' attributes are 'unknown'
    unless they hold the state object."""

    def __init__(self, ctx: Context):
        self.ctx = ctx
        self.sc: ClassInfo = ctx.state.state_cls
        self._summaries: Dict[str, AV] = {}
        self._in_progress = set()
        self.internal_shapes = {
            "_current": AV("cont", "internal", [AV("arr", "internal", why="self._current[...]")], why="self._current"),
            "_history": AV("cont", "internal", [AV("cont", "internal", [AV("arr", "internal", why="self._history[...][...]")], why="self._history[...]")], why="self._history"),
        }

    def retained_names(self, fi: FuncInfo) -> Dict[str, str]:
        """Local names whose object -- or a shallow copy dict(v)/list(v)/v.copy()
        -- is stored into an attribute of self in this function."""
        cache = getattr(self, "_retained", None)
        if cache is None:
            cache = self._retained = {}
        if fi.qualname in cache:
            return cache[fi.qualname]
        out: Dict[str, str] = {}
        from .model import walk_no_nested

        def aliases(v: ast.expr) -> Optional[str]:
            if isinstance(v, ast.Name):
                return v.id
            if isinstance(v, ast.Call) and dotted(v.func) in ("dict", "list", "tuple") and len(v.args) == 1 and isinstance(v.args[0], ast.Name):
                return v.args[0].id
            if isinstance(v, ast.Call) and isinstance(v.func, ast.Attribute) and v.func.attr == "copy" and isinstance(v.func.value, ast.Name) and not v.args:
                return v.func.value.id
            if isinstance(v, ast.Dict) and any(k is None and isinstance(x, ast.Name) for k, x in zip(v.keys, v.values)):
                return next(x.id for k, x in zip(v.keys, v.values) if k is None and isinstance(x, ast.Name))
            return None

        flow = flow_of(fi.node)
        for n in walk_no_nested(fi.node):
            if isinstance(n, ast.Assign):
                for t in n.targets:
                    base = t.value if isinstance(t, ast.Subscript) else t
                    if isinstance(base, ast.Attribute) and isinstance(base.value, ast.Name) and base.value.id == "self":
                        a = aliases(n.value)
                        if a is not None and a not in fi.params:
                            # only containers / arrays built locally (a dict literal, comprehension, call result)
                            out[a] = base.attr
        cache[fi.qualname] = out
        return out

    def _local_stores(self, fi: FuncInfo, name: str):
        """(value expr, cfg node, mode) for every element store into the local container `name`."""
        from .model import walk_no_nested

        flow = flow_of(fi.node)
        out = []
        for n in walk_no_nested(fi.node):
            if isinstance(n, ast.Assign):
                for t in n.targets:
                    if isinstance(t, ast.Subscript) and isinstance(t.value, ast.Name) and t.value.id == name:
                        out.append((n.value, flow.node_containing(n), "value"))
            elif isinstance(n, ast.Call) and isinstance(n.func, ast.Attribute) and isinstance(n.func.value, ast.Name) and n.func.value.id == name and n.args:
                if n.func.attr in ("append", "add", "setdefault", "insert"):
                    out.append((n.args[-1], flow.node_containing(n), "value"))
                elif n.func.attr in ("update", "extend"):
                    out.append((n.args[0], flow.node_containing(n), "elems"))
        return [(v, nd, m) for (v, nd, m) in out if nd is not None]

    # ------------------------------------------------------------ summaries
    def summary(self, fi: FuncInfo) -> AV:
        """Abstract value returned by fi (join over its return statements)."""
        q = fi.qualname + ("#copy=False" if getattr(self, "_copy_false", False) else "")
        if q in self._summaries:
            return self._summaries[q]
        if q in self._in_progress:
            return AV("unknown", why=f"recursive {fi.short}")
        self._in_progress.add(q)
        try:
            vals = []
            flow = flow_of(fi.node)
            for n in flow.cfg.stmt_nodes():
                if n.kind == "stmt" and isinstance(n.stmt, ast.Return):
                    if n.stmt.value is None:
                        vals.append(SCALAR)
                    else:
                        vals.append(self.eval(fi, n.stmt.value, n))
            res = join(vals) if vals else SCALAR
        finally:
            self._in_progress.discard(q)
        self._summaries[q] = res
        return res

    def returns_of(self, fi: FuncInfo) -> List[Tuple[ast.Return, AV]]:
        out = []
        flow = flow_of(fi.node)
        for n in flow.cfg.stmt_nodes():
            if n.kind == "stmt" and isinstance(n.stmt, ast.Return) and n.stmt.value is not None:
                out.append((n.stmt, self.eval(fi, n.stmt.value, n)))
        return out

    def copy_helper_kind(self, fi: FuncInfo) -> str:
        """Summary of a one-argument helper like _ensure_copy: 'copies-arrays'
        when every return of the parameter itself is dominated by the failure of
        an isinstance(param, ndarray) test whose success branch returns
        param.copy(); else 'identity'."""
        params = [p for p in fi.params if p != "self"]
        if len(params) != 1:
            return "other"
        p = params[0]
        flow = flow_of(fi.node)
        cfg = flow.cfg
        copies = False
        identity_unguarded = False
        def _leaves(v, facts):
            if isinstance(v, ast.IfExp):
                return _leaves(v.body, facts + [(v.test, True)]) + _leaves(v.orelse, facts + [(v.test, False)])
            return [(v, facts)]

        for n in cfg.stmt_nodes():
            if n.kind == "stmt" and isinstance(n.stmt, ast.Return) and isinstance(n.stmt.value, ast.IfExp):
                # conditional-expression spelling: `return p.copy() if isinstance(p, ndarray) else p`
                for (v, facts) in _leaves(n.stmt.value, []):
                    if copies_name(lambda c_: self.ctx.res.external_name(fi, c_), v, p):
                        copies = True
                    elif isinstance(v, ast.Constant):
                        pass
                    elif isinstance(v, ast.Name) and v.id == p:
                        from .util import conds_holding_at, split_cond

                        allf = [(a, q) for (t, pol) in list(conds_holding_at(cfg, n)) + facts for (a, q) in split_cond(t, pol)]
                        if not any(isinstance(a, ast.Call) and dotted(a.func) == "isinstance" and len(a.args) == 2 and isinstance(a.args[0], ast.Name) and a.args[0].id == p
                                   and "ndarray" in ast.unparse(a.args[1]) and not q for (a, q) in allf):
                            identity_unguarded = True
                    else:
                        identity_unguarded = True
                continue
            if n.kind == "stmt" and isinstance(n.stmt, ast.Return) and n.stmt.value is not None:
                v = n.stmt.value
                if copies_name(lambda c_: self.ctx.res.external_name(fi, c_), v, p):
                    copies = True
                    continue
                if isinstance(v, ast.Name) and v.id == p:
                    # must be on the false edge of an isinstance(p, ndarray) test
                    from .util import conds_holding_at

                    guarded = False
                    for (t, pol) in conds_holding_at(cfg, n):
                        if isinstance(t, ast.Call) and dotted(t.func) == "isinstance" and len(t.args) == 2 and isinstance(t.args[0], ast.Name) and t.args[0].id == p and not pol:
                            if "ndarray" in ast.unparse(t.args[1]):
                                guarded = True
                    if not guarded:
                        identity_unguarded = True
                    continue
                if isinstance(v, ast.Name):
                    # single-exit spelling: `r = p; if isinstance(p, ndarray): r = p.copy(); return r`
                    defs = flow.reaching(n, v.id)
                    if not defs:
                        identity_unguarded = True
                        continue
                    redef_ids = [d.node.id for d in defs if d.node is not None]
                    for d in defs:
                        dv = d.value
                        if d.kind != "assign" or dv is None or d.path:
                            identity_unguarded = True
                            continue
                        if copies_name(lambda c_: self.ctx.res.external_name(fi, c_), dv, p):
                            copies = True
                            continue
                        if isinstance(dv, ast.Constant):
                            continue
                        if isinstance(dv, ast.Name) and dv.id == p:
                            # the identity definition may reach the return only along the False edge of an isinstance(p, ndarray) test
                            tests = [t for t in cfg.stmt_nodes() if t.kind == "test" and isinstance(t.ast, ast.Call) and dotted(t.ast.func) == "isinstance" and len(t.ast.args) == 2
                                     and isinstance(t.ast.args[0], ast.Name) and t.ast.args[0].id == p and "ndarray" in ast.unparse(t.ast.args[1])]
                            ok_guard = False
                            for t in tests:
                                others = [i for i in redef_ids if i != d.node.id]
                                through_test = not cfg.reaches(d.node.id, n.id, blocked=[t.id])
                                true_succ = [x for (x, lab) in cfg.succ[t.id] if lab and lab[0] == "cond" and lab[2] is True]
                                leaks = any(x == n.id or (x not in others and cfg.reaches(x, n.id, blocked=others)) for x in true_succ)
                                if through_test and not leaks:
                                    ok_guard = True
                            if not ok_guard:
                                identity_unguarded = True
                            continue
                        identity_unguarded = True
        if copies and not identity_unguarded:
            return "copies-arrays"
        return "identity"

    # ----------------------------------------------------------------- eval
    def eval(self, fi: FuncInfo, e: ast.expr, at, env: Optional[Dict[str, AV]] = None, depth: int = 0) -> AV:
        # a name whose definitions reach themselves (an accumulator updated in a loop) is evaluated once per
        # (function, name, program point): a re-entry contributes nothing new to the join
        if isinstance(e, ast.Name) and at is not None and not (env and e.id in env):
            gkey = (fi.qualname, e.id, at.id)
            active = getattr(self, "_name_active", None)
            if active is None:
                active = self._name_active = set()
            if gkey in active:
                return SCALAR
            active.add(gkey)
            try:
                return self._eval_impl(fi, e, at, env, depth)
            finally:
                active.discard(gkey)
        return self._eval_impl(fi, e, at, env, depth)

    def _eval_impl(self, fi: FuncInfo, e: ast.expr, at, env: Optional[Dict[str, AV]] = None, depth: int = 0) -> AV:
        env = env or {}
        if depth > 25:
            return AV("unknown", why="depth")
        ev = lambda x, **kw: self.eval(fi, x, at, env, depth + 1)  # noqa: E731
        if e is None or isinstance(e, ast.Constant):
            return SCALAR
        if isinstance(e, ast.Name):
            if e.id in env:
                return env[e.id]
            if e.id in ("self", "cls"):
                return AV("unknown", why="self")
            if e.id in self.retained_names(fi) and not getattr(self, "_shape_mode", False):
                # the object (or a shallow copy of it) is also stored in an attribute:
                # its arrays are retained, i.e. internal from the caller's point of view
                return AV("cont", "internal", [AV("arr", "internal", why=f"elements of `{e.id}` are also stored in self.{self.retained_names(fi)[e.id]}")], why=f"`{e.id}` is retained in self.{self.retained_names(fi)[e.id]}")
            flow = flow_of(fi.node)
            ds = flow.reaching(at, e.id) if at is not None else []
            if not ds:
                return SCALAR if e.id in ("None", "True", "False") else AV("unknown", why=f"global {e.id}")
            vals = []
            # statement form of the documented copy=False contract: `if copy: v = <copy of v>` followed by the store.
            # The parameter's own definition reaches the use only along the false edge of the test on `copy`.
            if len(ds) > 1 and any(d.kind == "param" for d in ds) and at is not None and "copy" in fi.params:
                cfg = flow.cfg
                others = [d.node.id for d in ds if d.kind != "param" and d.node is not None]
                tests = [t for t in cfg.stmt_nodes() if t.kind == "test" and isinstance(t.ast, ast.Name) and t.ast.id == "copy"]
                if tests and others:
                    def _false_edge(a, b, lab, tests=tests):
                        return any(a == t.id for t in tests) and bool(lab) and lab[0] == "cond" and lab[2] is False
                    if not cfg.reaches(cfg.entry.id, at.id, blocked=others, blocked_edges=_false_edge):
                        ds = [d for d in ds if d.kind != "param"]
            for d in ds:
                if d.kind == "param":
                    ann = fi.param_annotation(d.name)
                    anntxt = ast.unparse(ann) if ann is not None else ""
                    if anntxt in ("int", "float", "bool", "str", "Optional[int]", "Optional[str]", "Optional[float]"):
                        vals.append(SCALAR)
                    else:
                        vals.append(AV("cont", "param", [AV("arr", "param", why=f"parameter {d.name}")], why=f"parameter {d.name}")
                                    if anntxt in ("dict", "Dict", "list") or "dict" in anntxt.lower() else AV("arr", "param", why=f"parameter {d.name}"))
                elif d.kind == "assign" and d.value is not None:
                    if d.path:
                        sel = select_path(d.value, d.path)
                        if sel is not None:
                            vals.append(self.eval(fi, sel, d.node, env, depth + 1))
                        else:
                            whole = self.eval(fi, d.value, d.node, env, depth + 1)
                            cur = whole
                            for p in d.path:
                                if cur.kind == "cont" and len(cur.elems) > 1 and isinstance(p, int) and p < len(cur.elems):
                                    cur = cur.elems[p]
                                else:
                                    cur = cur.elem()
                            vals.append(cur)
                    else:
                        vals.append(self.eval(fi, d.value, d.node, env, depth + 1))
                elif d.kind == "aug":
                    vals.append(AV("arr", "fresh") if not isinstance(d.value.op, ast.Add) else join([self.eval(fi, ast.Name(id=d.name, ctx=ast.Load()), d.node, env, depth + 1)]))
                elif d.kind == "for":
                    it = self.eval(fi, d.value, d.node, env, depth + 1)
                    cur = self._iter_elem(d.value, it, fi, d.node, env, depth)
                    for p in d.path:
                        if cur.kind == "cont" and len(cur.elems) > 1 and isinstance(p, int) and p < len(cur.elems):
                            cur = cur.elems[p]
                        else:
                            cur = cur.elem()
                    vals.append(cur)
                elif d.kind == "with":
                    vals.append(AV("unknown", why="with"))
                else:
                    vals.append(AV("unknown", why=d.kind))
            res = join(vals)
            # a local container filled by item stores / append / update after it was created
            # (`out = {}; out[k] = v; return out`): its elements are whatever was stored into it
            if res.kind == "cont" and any(d.kind == "assign" and not d.path and isinstance(d.value, (ast.Dict, ast.List, ast.Set, ast.Call)) for d in ds) and depth < 12:
                stored = self._local_stores(fi, e.id)
                if stored:
                    guard = getattr(self, "_store_guard", None)
                    if guard is None:
                        guard = self._store_guard = set()
                    key = (fi.qualname, e.id)
                    if key not in guard:
                        guard.add(key)
                        try:
                            extra = []
                            for (v, nd, mode) in stored:
                                av = self.eval(fi, v, nd, env, depth + 1)
                                if mode == "elems":  # update/extend: the argument's elements are stored
                                    av = av.elem() if av.kind == "cont" else av
                                extra.append(av)
                            res = AV("cont", res.owner, list(res.elems) + extra, why=res.why)
                        finally:
                            guard.discard(key)
            return res
        if isinstance(e, ast.Attribute):
            d = dotted(e)
            base = e.value
            if isinstance(base, ast.Name) and base.id == "self" and fi.cls is not None:
                return self.attr_value(fi.cls, e.attr)
            # instance._current on a fresh local instance of the state class
            bt = self.ctx.res.expr_types(fi, base)
            if self.sc in bt and e.attr in self.internal_shapes:
                bv = ev(base)
                return self.internal_shapes[e.attr]
            if e.attr in ("shape", "size", "ndim", "dtype"):
                return SCALAR
            if e.attr in VIEW_METHODS:
                return ev(base)
            return AV("unknown", why=f"attribute {d or e.attr}")
        if isinstance(e, ast.Subscript):
            b = ev(e.value)
            if b.kind == "cont":
                # literal index into a literal tuple
                if len(b.elems) > 1 and isinstance(e.slice, ast.Constant) and isinstance(e.slice.value, int) and e.slice.value < len(b.elems):
                    return b.elems[e.slice.value]
                if isinstance(e.slice, ast.Slice):
                    return AV("cont", "fresh", [b.elem()])
                return b.elem()
            if b.kind == "arr":
                # one integer index into a vector that is one-dimensional by the repository's conventions (weights,
                # log-weights, log-likelihoods, labels) is a number, not a view
                if isinstance(e.slice, ast.Constant) and isinstance(e.slice.value, int) and isinstance(e.value, ast.Name) \
                        and e.value.id in ("weights", "w", "logw", "logl", "sample_weight", "labels", "assignments", "weights_trimmed", "cdf", "positions"):
                    return SCALAR
                # fancy indexing with an array/mask copies; basic slicing is a view
                idx = e.slice
                if self._is_basic_index(fi, idx, at, env, depth):
                    return AV("arr", b.owner, why=b.why)
                return AV("arr", "fresh")
            return b
        if isinstance(e, ast.Call):
            return self._call(fi, e, at, env, depth)
        if isinstance(e, (ast.BinOp, ast.UnaryOp, ast.Compare, ast.BoolOp)):
            if isinstance(e, ast.BoolOp):
                return join([ev(v) for v in e.values])
            return AV("arr", "fresh")
        if isinstance(e, ast.IfExp):
            # `copy`-controlled stores: the documented copy=False contract is exempt; evaluate the default branch
            kind = self._copy_test(fi, e.test, at)
            if kind == "contract":
                # a call site that passes copy=False explicitly gets the other branch: what a *getter* hands out then is
                # the stored object itself
                return ev(e.orelse) if getattr(self, "_copy_false", False) else ev(e.body)
            if kind is not None and isinstance(e.orelse, ast.Name) and e.orelse.id == kind:
                # `x.copy() if copy and isinstance(x, np.ndarray) else x`: with copy=True the else branch is reached
                # only for values that are not arrays (nothing to share)
                return ev(e.body)
            return join([ev(e.body), ev(e.orelse)])
        if isinstance(e, (ast.Tuple, ast.List, ast.Set)):
            return AV("cont", "fresh", [ev(x) for x in e.elts])
        if isinstance(e, ast.Dict):
            return AV("cont", "fresh", [ev(v) for v in e.values if v is not None] + [ev(k.value) if False else SCALAR for k in []])
        if isinstance(e, (ast.ListComp, ast.SetComp, ast.GeneratorExp, ast.DictComp)):
            env2 = dict(env)
            for g in e.generators:
                it = self.eval(fi, g.iter, at, env2, depth + 1)
                el = self._iter_elem(g.iter, it, fi, at, env2, depth)
                self._bind(g.target, el, env2)
            val = e.value if isinstance(e, ast.DictComp) else e.elt
            return AV("cont", "fresh", [self.eval(fi, val, at, env2, depth + 1)])
        if isinstance(e, ast.JoinedStr):
            return SCALAR
        if isinstance(e, ast.Starred):
            return ev(e.value)
        if isinstance(e, ast.Lambda):
            return SCALAR
        return AV("unknown", why=type(e).__name__)

    def _copy_test(self, fi: FuncInfo, test: ast.expr, at, depth: int = 0) -> Optional[str]:
        """'contract' when `test` is the caller's `copy` parameter itself (never re-bound on the way);
        the name X when it is `copy and isinstance(X, np.ndarray)` with that parameter; None otherwise.
        Local names bound once to such an expression are looked through."""
        if depth > 4:
            return None
        flow = flow_of(fi.node)

        def pure_param(nm: ast.Name) -> bool:
            if nm.id != "copy" or "copy" not in fi.params or at is None:
                return False
            ds = flow.reaching(at, "copy")
            return bool(ds) and all(d.kind == "param" for d in ds)

        if isinstance(test, ast.Name):
            if pure_param(test):
                return "contract"
            if at is not None and test.id != "copy":
                ds = flow.reaching(at, test.id)
                if len(ds) == 1 and ds[0].kind == "assign" and ds[0].value is not None and not ds[0].path and ds[0].node is not None:
                    # the flag's own definition must see the un-rebound parameter too
                    saved = at
                    return Freshness._copy_test(self, fi, ds[0].value, ds[0].node, depth + 1)
            return None
        if isinstance(test, ast.BoolOp) and isinstance(test.op, ast.And) and len(test.values) == 2:
            a, b = test.values
            for (c, i) in ((a, b), (b, a)):
                if isinstance(c, ast.Name) and pure_param(c) and isinstance(i, ast.Call) and dotted(i.func) == "isinstance" and len(i.args) == 2 and isinstance(i.args[0], ast.Name) \
                        and "ndarray" in ast.unparse(i.args[1]):
                    return i.args[0].id
        return None

    def _is_basic_index(self, fi, idx, at, env, depth) -> bool:
        if isinstance(idx, ast.Slice):
            return True
        if isinstance(idx, ast.Constant):
            return True  # a[i] of an n-d array is a view (row)
        if isinstance(idx, ast.Tuple):
            return all(self._is_basic_index(fi, x, at, env, depth) for x in idx.elts)
        if isinstance(idx, ast.UnaryOp) and isinstance(idx.operand, ast.Constant):
            return True
        if isinstance(idx, ast.Name):
            v = self.eval(fi, idx, at, env, depth + 1)
            return v.kind == "scalar"
        return False

    def _bind(self, target, val: AV, env):
        if isinstance(target, ast.Name):
            env[target.id] = val
        elif isinstance(target, (ast.Tuple, ast.List)):
            for i, t in enumerate(target.elts):
                if val.kind == "cont" and len(val.elems) > 1 and i < len(val.elems):
                    self._bind(t, val.elems[i], env)
                else:
                    self._bind(t, val.elem(), env)

    def _iter_elem(self, iter_expr: ast.expr, it: AV, fi, at, env, depth) -> AV:
        """Abstract element produced by iterating iter_expr."""
        if isinstance(iter_expr, ast.Call) and isinstance(iter_expr.func, ast.Attribute):
            m = iter_expr.func.attr
            base = self.eval(fi, iter_expr.func.value, at, env, depth + 1)
            if m == "items":
                return AV("cont", "fresh", [SCALAR, base.elem()])
            if m == "keys":
                return SCALAR
            if m == "values":
                return base.elem()
        if isinstance(iter_expr, ast.Call) and dotted(iter_expr.func) in ("range", "enumerate", "zip"):
            if dotted(iter_expr.func) == "range":
                return SCALAR
            args = [self.eval(fi, a, at, env, depth + 1) for a in iter_expr.args]
            if dotted(iter_expr.func) == "enumerate":
                return AV("cont", "fresh", [SCALAR, args[0].elem() if args else SCALAR])
            return AV("cont", "fresh", [a.elem() for a in args])
        return it.elem()

    def attr_value(self, ci: ClassInfo, attr: str) -> AV:
        if ci is self.sc or self.ctx.prog.is_subclass(ci, self.sc):
            if attr in self.internal_shapes:
                return self.internal_shapes[attr]
            if attr == "n_dim":
                return SCALAR
            # any other attribute of the state object (caches): retained => internal, with the
            # shape of what the class stores into it (scalars stay scalars)
            return self._stored_shape(ci, attr)
        # attributes of other classes holding plain configuration
        ts = self.ctx.res.attr_type(ci, attr)
        if self.sc in ts:
            return AV("unknown", why="state object")
        return AV("unknown", why=f"{ci.name}.{attr}")

    def _stored_shape(self, ci: ClassInfo, attr: str) -> AV:
        cache = getattr(self, "_stored_shapes", None)
        if cache is None:
            cache = self._stored_shapes = {}
        k = (ci.qualname, attr)
        if k in cache:
            return cache[k]
        default = AV("cont", "internal", [AV("arr", "internal", why=f"self.{attr}[...]")], why=f"self.{attr} (retained)")
        cache[k] = default  # recursion guard
        from .model import walk_no_nested

        def internalise(v: AV) -> AV:
            if v.kind == "scalar":
                return v
            if v.kind == "arr":
                return AV("arr", "internal", why=f"stored in self.{attr}")
            if v.kind == "cont":
                return AV("cont", "internal", [internalise(x) for x in (v.elems or [])], why=f"stored in self.{attr}")
            return AV("arr", "internal", why=f"stored in self.{attr} (shape unknown)")

        shapes = []
        for f in self.ctx.prog.functions.values():
            if f.cls is not ci:
                continue
            flow = flow_of(f.node)
            for n in walk_no_nested(f.node):
                if not isinstance(n, ast.Assign) or len(n.targets) != 1:
                    continue
                t = n.targets[0]
                sub = isinstance(t, ast.Subscript)
                base = t.value if sub else t
                if not (isinstance(base, ast.Attribute) and isinstance(base.value, ast.Name) and base.value.id == "self" and base.attr == attr):
                    continue
                try:
                    at = flow.node_containing(n)
                except Exception:
                    at = None
                prev = getattr(self, "_shape_mode", False)
                self._shape_mode = True  # the value itself, not "it is retained" (that is what is being computed)
                try:
                    v = self.eval(f, n.value, at, {}, 1)
                finally:
                    self._shape_mode = prev
                if v.kind == "scalar" and not sub:
                    continue  # reset to None / empty
                if isinstance(n.value, ast.Call) and dotted(n.value.func) in ("dict", "list") and not n.value.args:
                    continue
                v = internalise(v)
                shapes.append(AV("cont", "internal", [v], why=f"self.{attr}") if sub else v)
        if not shapes:
            return default
        out = shapes[0]
        for sh in shapes[1:]:
            out = join([out, sh]) if "join" in globals() else default
        cache[k] = out
        return out

    def _call(self, fi: FuncInfo, e: ast.Call, at, env, depth) -> AV:
        ev = lambda x: self.eval(fi, x, at, env, depth + 1)  # noqa: E731
        targets = self.ctx.res.call_targets(fi, e)
        f = e.func
        # methods on abstract values first
        if isinstance(f, ast.Attribute):
            m = f.attr
            if m in COPY_METHODS or m in VIEW_METHODS or m in ("get", "items", "values", "keys", "pop", "setdefault"):
                base = ev(f.value)
                if base.kind in ("arr", "cont", "scalar"):
                    if m == "astype" and (_kw_false_or_unknown(e, "copy") or len(e.args) > 1):
                        return base  # astype(T, copy=False) may return the array itself
                    if m in COPY_METHODS:
                        if base.kind == "cont":
                            return AV("cont", "fresh", base.elems, why=f"{m}() of a container is shallow")
                        if base.kind == "arr":
                            return AV("arr", "fresh")
                        return SCALAR
                    if m in VIEW_METHODS:
                        return base
                    if m in ("get", "pop", "setdefault"):
                        return join([base.elem()] + [ev(a) for a in e.args[1:]]) if base.kind == "cont" else base
                    if m in ("items", "values", "keys"):
                        return AV("cont", "fresh", [base.elem()])
        internal_targets = [t for t in targets if isinstance(t, FuncInfo)]
        if internal_targets:
            vals = []
            for t in internal_targets:
                if t.cls is not None and len([p for p in t.params if p != "self"]) == 1 and self._looks_like_copy_helper(t):
                    kind = self.copy_helper_kind(t)
                    arg = e.args[0] if e.args else (e.keywords[0].value if e.keywords else None)
                    a = ev(arg) if arg is not None else SCALAR
                    if kind == "copies-arrays":
                        if a.kind == "arr":
                            vals.append(AV("arr", "fresh"))
                        elif a.kind == "cont":
                            vals.append(AV(a.kind, a.owner, a.elems, why=f"{t.name}() does not copy containers"))
                        else:
                            vals.append(a)
                    else:
                        vals.append(AV(a.kind, a.owner, a.elems, why=f"{t.name}() returns its argument uncopied"))
                else:
                    cf = next((k.value for k in e.keywords if k.arg == "copy"), None)
                    if cf is None and "copy" in t.params:
                        ps_ = [p for p in t.params if p not in ("self", "cls")]
                        i_ = ps_.index("copy")
                        cf = e.args[i_] if i_ < len(e.args) else None
                    if isinstance(cf, ast.Constant) and cf.value is False and "copy" in t.params:
                        saved = getattr(self, "_copy_false", False)
                        self._copy_false = True
                        try:
                            vals.append(self.summary(t))
                        finally:
                            self._copy_false = saved
                    else:
                        saved = getattr(self, "_copy_false", False)
                        self._copy_false = False
                        try:
                            vals.append(self.summary(t))
                        finally:
                            self._copy_false = saved
            return join(vals)
        for t in targets:
            if isinstance(t, ClassInfo):
                return AV("unknown", why=f"instance of {t.name}") if t is not self.sc else AV("unknown", why="state object")
        name = self.ctx.res.external_name(fi, e) or ""
        if name in NEW_ARRAY_FUNCS or name.startswith("numpy.random.") or name.startswith("numpy.linalg."):
            if name == "numpy.array":
                for k in e.keywords:
                    if k.arg == "copy" and isinstance(k.value, ast.Constant) and k.value.value is False:
                        return ev(e.args[0]) if e.args else SCALAR
            if name in ("numpy.array", "numpy.asarray", "numpy.empty", "numpy.full") and any(k.arg == "dtype" and "object" in ast.unparse(k.value) for k in e.keywords) and e.args:
                # an object array is a container of references: its elements are the argument's elements
                inner = ev(e.args[0])
                return AV("cont", "fresh", [inner.elem()], why="object array holds references to the elements of its argument")
            return AV("arr", "fresh")
        if name in IDENTITY_FUNCS:
            a = ev(e.args[0]) if e.args else SCALAR
            if a.kind == "cont":
                return AV("arr", "fresh")
            return a
        if name in SCALAR_FUNCS:
            return SCALAR
        if name in ("builtins.list", "builtins.dict", "builtins.tuple", "builtins.set", "builtins.frozenset"):
            if not e.args:
                return AV("cont", "fresh", [ev(k.value) for k in e.keywords])
            a = ev(e.args[0])
            if a.kind == "cont":
                return AV("cont", "fresh", a.elems, why="list()/dict() of a container is shallow")
            return AV("cont", "fresh", [a.elem()])
        if name.startswith("numpy."):
            return AV("arr", "fresh")
        if name.startswith("<callable:") or name.startswith("<attr-callable:"):
            return AV("arr", "fresh", why="result of a user callable")
        if name.startswith("dill.") or name.startswith("pickle."):
            return AV("cont", "fresh", [AV("cont", "fresh", [AV("arr", "fresh")])])
        if name.startswith("tempest."):
            return AV("unknown", why=f"unresolved {name}")
        return AV("arr", "fresh", why=f"external {name}")

    def _looks_like_copy_helper(self, t: FuncInfo) -> bool:
        """A one-parameter method whose every return is the parameter, None, or a
        copy of the parameter."""
        params = [p for p in t.params if p != "self"]
        if len(params) != 1:
            return False
        p = params[0]
        rets = [r for r in ast.walk(t.node) if isinstance(r, ast.Return)]
        if not rets:
            return False
        def _leaf_ok(v) -> bool:
            if isinstance(v, ast.IfExp):
                return _leaf_ok(v.body) and _leaf_ok(v.orelse)
            return v is None or (isinstance(v, ast.Constant) and v.value is None) or (isinstance(v, ast.Name) and v.id == p) or \
                (isinstance(v, ast.Call) and any(isinstance(a, ast.Name) and a.id == p for a in ast.walk(v)))

        for r in rets:
            v = r.value
            if v is None or (isinstance(v, ast.Constant) and v.value is None):
                continue
            if isinstance(v, ast.IfExp) and _leaf_ok(v):
                continue
            if isinstance(v, ast.Name) and v.id == p:
                continue
            if isinstance(v, ast.Call) and any(isinstance(a, ast.Name) and a.id == p for a in ast.walk(v)):
                continue
            if isinstance(v, ast.Name):
                # single-exit spelling: a local whose every definition is the parameter, None or a call on the parameter
                defs = [x for x in ast.walk(t.node) if isinstance(x, ast.Assign) and len(x.targets) == 1 and isinstance(x.targets[0], ast.Name) and x.targets[0].id == v.id]
                if defs and all((isinstance(d.value, ast.Name) and d.value.id == p) or (isinstance(d.value, ast.Constant) and d.value.value is None)
                                or (isinstance(d.value, ast.Call) and any(isinstance(a, ast.Name) and a.id == p for a in ast.walk(d.value))) for d in defs):
                    continue
            return False
        return True


def caller_array_writes(ctx: Context, fi: FuncInfo, params: Optional[List[str]] = None):
    """In-place writes in `fi` whose target may be (an alias / view of) an array owned by the caller:
    [(statement node, target name, abstract value)].  Writes: augmented assignment to a name, item / slice store,
    `out=<name>`, in-place array methods (sort, fill, put, resize, partition, itemset, setfield, byteswap(True)).
    The ownership lattice decides aliasing: np.asarray / ravel / reshape / basic slicing keep the owner, np.array /
    arithmetic / copy() give a fresh array."""
    F = Freshness(ctx)
    flow = flow_of(fi.node)
    out = []
    inplace_methods = {"sort", "fill", "put", "resize", "partition", "itemset", "setfield", "setflags"}

    def owned_by_caller(name_node: ast.Name, at) -> Optional[AV]:
        v = F.eval(fi, name_node, at)
        bad = v.bad_nodes(("param",))
        if params is not None and bad:
            # only the listed parameters count
            ds = flow.reaching(at, name_node.id)
        return bad[0] if bad else None

    for nd in flow.cfg.stmt_nodes():
        if nd.kind != "stmt" or nd.ast is None:
            continue
        st = nd.stmt
        cands: List[ast.Name] = []
        if isinstance(st, ast.AugAssign):
            b = st.target
            while isinstance(b, ast.Subscript):
                b = b.value
            if isinstance(b, ast.Name):
                cands.append(b)
        elif isinstance(st, ast.Assign):
            for t in st.targets:
                for tt in (t.elts if isinstance(t, (ast.Tuple, ast.List)) else [t]):
                    if isinstance(tt, ast.Subscript):
                        b = tt
                        while isinstance(b, ast.Subscript):
                            b = b.value
                        if isinstance(b, ast.Name):
                            cands.append(b)
        for c in ast.walk(st) if not isinstance(st, (ast.FunctionDef, ast.ClassDef)) else []:
            if isinstance(c, ast.Call):
                for k in c.keywords:
                    if k.arg == "out" and isinstance(k.value, ast.Name):
                        cands.append(k.value)
                if isinstance(c.func, ast.Attribute) and isinstance(c.func.value, ast.Name) and c.func.attr in inplace_methods:
                    cands.append(c.func.value)
        for nm in cands:
            load = ast.Name(id=nm.id, ctx=ast.Load())
            ast.copy_location(load, nm)
            # the value the name has *before* this statement (an augmented assignment re-binds it afterwards)
            v = F.eval(fi, load, nd)
            bad = v.bad_nodes(("param",))
            if bad:
                out.append((nd, nm.id, v))
    return out


def inputs_untouched_rule(ctx: Context, R, rule: str, funcs, what: str, allowed=None, min_funcs: int = 1):
    """`rule`: none of `funcs` writes in place into an array that belongs to its caller (see caller_array_writes).
    `allowed`: {(function short name, variable): reason} -- writes confirmed by reading and frozen."""
    allowed = allowed or {}
    n = 0
    for fi in funcs:
        n += 1
        hits = [(nd, name, v) for (nd, name, v) in caller_array_writes(ctx, fi) if (fi.short, name) not in allowed]
        R.check(rule, f"{fi.short} does not write into its caller's arrays", not hits, fi, hits[0][0].stmt if hits else fi.node,
                msg=(f"{fi.short}: `{ast.unparse(hits[0][0].stmt)[:60]}` writes in place into `{hits[0][1]}`, which is (a view / alias of) an array the caller passed in: "
                     f"{what}") if hits else "", key=f"caller-array-write:{fi.short}")
    R.floor(rule, "functions checked for writes into caller-owned arrays", n, min_funcs)


def attr_alias_writes(ctx: Context, cls: ClassInfo):
    """Attributes of `cls` that are written in place by its methods (`self.a[idx] = ...`, `self.a += ...`, out=self.a)
    although some binding `self.a = E` may leave them aliasing an array the caller passed in:
    [(binding method, binding statement, attribute, in-place statement)]."""
    F = Freshness(ctx)
    inplace: Dict[str, ast.stmt] = {}
    for m in cls.methods.values():
        for st in ast.walk(m.node):
            tgs = []
            if isinstance(st, ast.Assign):
                tgs = [x for t in st.targets for x in (t.elts if isinstance(t, (ast.Tuple, ast.List)) else [t])]
            elif isinstance(st, ast.AugAssign):
                tgs = [st.target]
            for t in tgs:
                b = t
                sub = False
                while isinstance(b, ast.Subscript):
                    b = b.value
                    sub = True
                if isinstance(b, ast.Attribute) and isinstance(b.value, ast.Name) and b.value.id == "self" and (sub or isinstance(st, ast.AugAssign)):
                    # `self.a = self.a + x` re-binds; `self.a[i] = x` / `self.a += x` (arrays) write in place
                    inplace.setdefault(b.attr, st)
    out = []
    if not inplace:
        return out
    for m in cls.methods.values():
        flow = flow_of(m.node)
        for nd in flow.cfg.stmt_nodes():
            if nd.kind != "stmt" or not isinstance(nd.stmt, ast.Assign) or len(nd.stmt.targets) != 1:
                continue
            t = nd.stmt.targets[0]
            if isinstance(t, ast.Attribute) and isinstance(t.value, ast.Name) and t.value.id == "self" and t.attr in inplace:
                v = F.eval(m, nd.stmt.value, nd)
                if v.kind == "arr" and v.owner == "param" or (v.kind in ("arr", "cont") and any(b_.kind == "arr" for b_ in v.bad_nodes(("param",))) and v.kind == "arr"):
                    out.append((m, nd.stmt, t.attr, inplace[t.attr]))
    return out
