"""Program normalisation: inline helper functions that are *not* part of the
reference function table (`baseline_functions.json`, the functions of the tree
the rules were written against).

A behaviour-preserving "extract method" refactoring introduces new helpers; the
rules' shape analyses are intraprocedural in places, so a check that reports a
violation or cannot decide on the tree as written is re-run on this normal form
(see cli.check).  Inlining is semantics preserving for the helper shapes handled
here (straight parameter passing, no recursion, no generators, no *args):

  x = H(a, b)            body ...; x = <returned expr>       (single final return)
  return H(a, b)         body with its returns kept          (any return structure)
  H(a, b)                body                                (no value returned)
  ... H(a, b) ...        (<returned expr>)                   (body is a single return)

Parameters are substituted by the argument expression when the argument is a
name / attribute / constant and the parameter is never reassigned; otherwise a
binding assignment is emitted.  Helper locals that clash with caller names are
renamed.  Nothing is executed.
"""
from __future__ import annotations

import ast
import copy
import json
import os
from typing import Dict, List, Optional, Set, Tuple

HERE = os.path.dirname(os.path.abspath(__file__))
BASELINE = os.path.join(HERE, "baseline_functions.json")


def baseline_table() -> Set[str]:
    with open(BASELINE) as fh:
        return set(json.load(fh)["functions"])


def _qual(modname: str, cls: Optional[str], name: str) -> str:
    return f"{modname}:{cls + '.' if cls else ''}{name}"


class _Helper:
    def __init__(self, modname, cls, node: ast.FunctionDef):
        self.modname = modname
        self.cls = cls
        self.node = node
        self.name = node.name
        decos = [ast.unparse(d) for d in node.decorator_list]
        self.static = "staticmethod" in decos
        self.kwname = None
        self.last_kwmap: Dict[str, ast.expr] = {}
        self.ok = self._inlinable(decos)
        body = [s for s in node.body if not (isinstance(s, ast.Expr) and isinstance(s.value, ast.Constant) and isinstance(s.value.value, str))]
        self.body = body
        rets = [n for n in ast.walk(node) if isinstance(n, ast.Return)]
        self.n_returns = len(rets)
        self.single_expr = len(body) == 1 and isinstance(body[0], ast.Return) and body[0].value is not None
        self.final_return = bool(body) and isinstance(body[-1], ast.Return) and self.n_returns == 1
        self.no_value = all(r.value is None for r in rets) and (not rets or (len(rets) == 1 and body and body[-1] is rets[0]))

    def _inlinable(self, decos) -> bool:
        n = self.node
        if any(d not in ("staticmethod",) for d in decos):
            return False
        a = n.args
        if a.vararg or a.posonlyargs:
            return False
        self.kwname = a.kwarg.arg if a.kwarg else None
        if self.kwname:
            # **options is supported when the body only reads options["literal"] and forwards **options
            parents = {}
            for x in ast.walk(n):
                for ch in ast.iter_child_nodes(x):
                    parents[id(ch)] = x
            for x in ast.walk(n):
                if isinstance(x, ast.Name) and x.id == self.kwname:
                    par = parents.get(id(x))
                    ok = (isinstance(par, ast.Subscript) and par.value is x and isinstance(par.slice, ast.Constant) and isinstance(par.slice.value, str) and isinstance(par.ctx, ast.Load)) or \
                         (isinstance(par, ast.keyword) and par.arg is None and par.value is x)
                    if not ok:
                        return False
        for x in ast.walk(n):
            if isinstance(x, (ast.Yield, ast.YieldFrom, ast.Global, ast.Nonlocal, ast.Await, ast.Lambda)):
                return False
            if isinstance(x, (ast.FunctionDef, ast.ClassDef)) and x is not n:
                return False
            if isinstance(x, ast.Call) and isinstance(x.func, (ast.Name, ast.Attribute)) and (getattr(x.func, "id", None) == n.name or getattr(x.func, "attr", None) == n.name):
                return False  # (possibly) recursive
        return True

    def params(self) -> List[Tuple[str, Optional[ast.expr]]]:
        a = self.node.args
        pos = list(a.args)
        defaults = [None] * (len(pos) - len(a.defaults)) + list(a.defaults)
        out = [(p.arg, d) for p, d in zip(pos, defaults)]
        out += [(p.arg, d) for p, d in zip(a.kwonlyargs, a.kw_defaults)]
        if self.cls is not None and not self.static and out and out[0][0] in ("self", "cls"):
            out = out[1:]
        return out


def _assigned_names(node: ast.AST) -> Set[str]:
    out = set()
    for x in ast.walk(node):
        if isinstance(x, ast.Name) and isinstance(x.ctx, (ast.Store, ast.Del)):
            out.add(x.id)
        elif isinstance(x, ast.arg):
            out.add(x.arg)
    return out


def _simple(e: ast.expr) -> bool:
    if isinstance(e, (ast.Name, ast.Constant)):
        return True
    if isinstance(e, ast.Attribute):
        return _simple(e.value)
    return False


class _Renamer(ast.NodeTransformer):
    def __init__(self, subst: Dict[str, ast.expr], rename: Dict[str, str]):
        self.subst = subst
        self.rename = rename

    def visit_Name(self, node: ast.Name):
        if node.id in self.subst and isinstance(node.ctx, ast.Load):
            return copy.deepcopy(self.subst[node.id])
        if node.id in self.rename:
            return ast.copy_location(ast.Name(id=self.rename[node.id], ctx=node.ctx), node)
        return node


def _match_call(call: ast.Call, helpers: Dict[Tuple[Optional[str], str], _Helper], cur_cls: Optional[str]) -> Optional[_Helper]:
    f = call.func
    if isinstance(f, ast.Name):
        h = helpers.get((None, f.id))
        return h
    if isinstance(f, ast.Attribute) and isinstance(f.value, ast.Name):
        if f.value.id in ("self", "cls") and cur_cls is not None:
            h = helpers.get((cur_cls, f.attr))
            if h is not None:
                return h
            # a helper defined in a base class of the same module (and not overridden on the way)
            seen = set()
            todo = list(_BASES.get(cur_cls, []))
            while todo:
                b = todo.pop(0)
                if b in seen:
                    continue
                seen.add(b)
                if (b, f.attr) in helpers:
                    return helpers[(b, f.attr)]
                if f.attr in _METHODS.get(b, ()):
                    return None  # a reference-tree method of that name exists on the way: not a new helper
                todo.extend(_BASES.get(b, []))
            return None
        h = helpers.get((f.value.id, f.attr))
        if h is not None and h.static:
            return h
    return None


_BASES: Dict[str, List[str]] = {}
_METHODS: Dict[str, Set[str]] = {}


def _bind(h: _Helper, call: ast.Call, caller_names: Set[str], counter: List[int]) -> Optional[Tuple[List[ast.stmt], Dict[str, ast.expr], Dict[str, str]]]:
    params = h.params()
    if any(isinstance(a, ast.Starred) for a in call.args) or any(k.arg is None for k in call.keywords):
        return None
    if len(call.args) > len(params):
        return None
    actual: Dict[str, ast.expr] = {}
    for (p, _), a in zip(params, call.args):
        actual[p] = a
    names = [p for (p, _) in params]
    kwextra: Dict[str, ast.expr] = {}
    for k in call.keywords:
        if k.arg in actual:
            return None
        if k.arg not in names:
            if h.kwname is None:
                return None
            kwextra[k.arg] = k.value
            continue
        actual[k.arg] = k.value
    if h.kwname is not None:
        # every options["k"] read in the body must be supplied at this call site
        for x in ast.walk(h.node):
            if isinstance(x, ast.Subscript) and isinstance(x.value, ast.Name) and x.value.id == h.kwname and isinstance(x.slice, ast.Constant) and x.slice.value not in kwextra:
                return None
    for (p, d) in params:
        if p not in actual:
            if d is None:
                return None
            actual[p] = d
    assigned = set()
    for st in h.body:
        assigned |= _assigned_names(st)
    pre: List[ast.stmt] = []
    subst: Dict[str, ast.expr] = {}
    rename: Dict[str, str] = {}
    counter[0] += 1
    tag = f"__{h.name.strip('_')}{counter[0]}"
    for (p, _) in params:
        a = actual[p]
        if _simple(a) and p not in assigned:
            subst[p] = a
        else:
            new = p if (p not in caller_names and p not in rename.values()) else p + tag
            rename[p] = new
            pre.append(ast.Assign(targets=[ast.Name(id=new, ctx=ast.Store())], value=copy.deepcopy(a)))
    for nm in assigned:
        if nm in dict(params):
            continue
        if nm in caller_names:
            rename[nm] = nm + tag
    h.last_kwmap = {}
    for kname, a in kwextra.items():
        if _simple(a):
            h.last_kwmap[kname] = a
        else:
            new = f"{kname}{tag}"
            pre.append(ast.Assign(targets=[ast.Name(id=new, ctx=ast.Store())], value=copy.deepcopy(a)))
            h.last_kwmap[kname] = ast.Name(id=new, ctx=ast.Load())
    return pre, subst, rename


class _KwExpand(ast.NodeTransformer):
    """options["k"] -> the keyword argument given at the call site; f(**options) -> f(k1=..., k2=...)"""

    def __init__(self, kwname: Optional[str], kwmap: Dict[str, ast.expr]):
        self.kwname = kwname
        self.kwmap = kwmap

    def visit_Subscript(self, node: ast.Subscript):
        if self.kwname and isinstance(node.value, ast.Name) and node.value.id == self.kwname and isinstance(node.slice, ast.Constant) and node.slice.value in self.kwmap:
            return copy.deepcopy(self.kwmap[node.slice.value])
        return self.generic_visit(node)

    def visit_Call(self, node: ast.Call):
        node = self.generic_visit(node)
        if self.kwname:
            new = []
            for k in node.keywords:
                if k.arg is None and isinstance(k.value, ast.Name) and k.value.id == self.kwname:
                    given = {x.arg for x in node.keywords if x.arg}
                    new += [ast.keyword(arg=a, value=copy.deepcopy(v)) for a, v in self.kwmap.items() if a not in given]
                else:
                    new.append(k)
            node.keywords = new
        return node


def _always_returns(stmts: List[ast.stmt]) -> bool:
    if not stmts:
        return False
    last = stmts[-1]
    if isinstance(last, (ast.Return, ast.Raise)):
        return True
    if isinstance(last, ast.If):
        return bool(last.orelse) and _always_returns(last.body) and _always_returns(last.orelse)
    if isinstance(last, ast.With):
        return _always_returns(last.body)
    if isinstance(last, ast.Try) and not last.orelse:
        return _always_returns(last.body) and all(_always_returns(h.body) for h in last.handlers)
    return False


def _tailify(stmts: List[ast.stmt], k) -> Optional[List[ast.stmt]]:
    """Rewrite a block whose `return`s are all in tail position (directly, under
    if/else, guard clauses `if c: ...return`, `with` bodies, try/finally bodies)
    so that every `return e` becomes the statements k(e) and control falls out of
    the end of the block instead.  None if some return is not in tail position
    (inside a loop, an except handler, ...)."""
    out: List[ast.stmt] = []
    for i, st in enumerate(stmts):
        rest = stmts[i + 1:]
        if isinstance(st, ast.Return):
            out.extend(k(st.value))
            return out  # anything after a return is dead
        has_ret = any(isinstance(x, ast.Return) for x in ast.walk(st))
        if not has_ret:
            out.append(st)
            continue
        if isinstance(st, ast.If):
            if rest and _always_returns(st.body) and not st.orelse:
                # guard clause: the remainder becomes the else branch
                b = _tailify(st.body, k)
                r = _tailify(rest, k)
                if b is None or r is None:
                    return None
                out.append(ast.If(test=st.test, body=b or [ast.Pass()], orelse=r))
                return out
            if rest and st.orelse and _always_returns(st.orelse) and not any(isinstance(x, ast.Return) for s2 in st.body for x in ast.walk(s2)):
                b = _tailify(st.body + rest, k)
                o = _tailify(st.orelse, k)
                if b is None or o is None:
                    return None
                out.append(ast.If(test=st.test, body=b or [ast.Pass()], orelse=o))
                return out
            if rest:
                if _always_returns([st]):
                    rest = []
                else:
                    return None
            b = _tailify(st.body, k)
            o = _tailify(st.orelse, k) if st.orelse else k(None)
            if b is None or o is None:
                return None
            out.append(ast.If(test=st.test, body=b or [ast.Pass()], orelse=o))
            return out
        if isinstance(st, ast.With):
            if rest and not _always_returns(st.body):
                return None
            b = _tailify(st.body, k)
            if b is None:
                return None
            out.append(ast.With(items=st.items, body=b or [ast.Pass()]))
            return out
        if isinstance(st, ast.Try) and not st.orelse:
            if any(isinstance(x, ast.Return) for s2 in st.finalbody for x in ast.walk(s2)):
                return None
            body_ret = any(isinstance(x, ast.Return) for s2 in st.body for x in ast.walk(s2))
            if rest and not _always_returns([st]):
                # `try: X = f() except E: return D` followed by more statements: the remainder moves into the try's
                # else-position only when the try body itself has no return (exceptions of the remainder stay uncaught)
                if body_ret:
                    return None
                hs = []
                for h in st.handlers:
                    if not _always_returns(h.body):
                        return None
                    hb = _tailify(h.body, k)
                    if hb is None:
                        return None
                    hs.append(ast.ExceptHandler(type=h.type, name=h.name, body=hb or [ast.Pass()]))
                r = _tailify(rest, k)
                if r is None:
                    return None
                out.append(ast.Try(body=st.body, handlers=hs, orelse=r, finalbody=st.finalbody))
                return out
            b = _tailify(st.body, k)
            if b is None:
                return None
            hs = []
            for h in st.handlers:
                hb = _tailify(h.body, k)
                if hb is None:
                    return None
                hs.append(ast.ExceptHandler(type=h.type, name=h.name, body=hb or [ast.Pass()]))
            out.append(ast.Try(body=b or [ast.Pass()], handlers=hs, orelse=[], finalbody=st.finalbody))
            return out
        return None
    out.extend(k(None))
    return out


def _inline_in_function(fn: ast.FunctionDef, cur_cls: Optional[str], helpers, counter, used: Set[Tuple[Optional[str], str]]) -> bool:
    changed = [False]
    caller_names = _assigned_names(fn)

    def expand(call: ast.Call):
        h = _match_call(call, helpers, cur_cls)
        if h is None or not h.ok or h.node is fn:
            return None
        b = _bind(h, call, caller_names, counter)
        if b is None:
            return None
        return h, b

    def rewrite_block(stmts: List[ast.stmt]) -> List[ast.stmt]:
        out: List[ast.stmt] = []
        for st in stmts:
            # recurse into compound statements first
            for fld in ("body", "orelse", "finalbody"):
                sub = getattr(st, fld, None)
                if isinstance(sub, list) and sub and isinstance(sub[0], ast.stmt) and not isinstance(st, (ast.FunctionDef, ast.ClassDef)):
                    setattr(st, fld, rewrite_block(sub))
            if isinstance(st, ast.Try):
                for hd in st.handlers:
                    hd.body = rewrite_block(hd.body)
            call = None
            form = None
            if isinstance(st, ast.Assign) and isinstance(st.value, ast.Call):
                call, form = st.value, "assign"
            elif isinstance(st, ast.Return) and isinstance(st.value, ast.Call):
                call, form = st.value, "return"
            elif isinstance(st, ast.Expr) and isinstance(st.value, ast.Call):
                call, form = st.value, "expr"
            done = False
            if call is not None:
                ex = expand(call)
                if ex is not None:
                    h, (pre, subst, rename) = ex
                    body = [_Renamer(subst, rename).visit(_KwExpand(h.kwname, h.last_kwmap).visit(copy.deepcopy(s))) for s in h.body]
                    if form == "return":
                        out.extend(pre + body)
                        if not body or not isinstance(body[-1], ast.Return):
                            out.append(ast.Return(value=None))
                        done = True
                    elif form == "expr" and (h.no_value or h.final_return or h.single_expr):
                        if body and isinstance(body[-1], ast.Return):
                            last = body.pop()
                            if last.value is not None:
                                body.append(ast.Expr(value=last.value))
                        out.extend(pre + body)
                        done = True
                    elif form in ("assign", "expr") and not (h.final_return or h.single_expr or (form == "expr" and h.no_value)) and h.n_returns >= 1:
                        tgt_nodes = st.targets if form == "assign" else None

                        def k(e, tgt_nodes=tgt_nodes):
                            if tgt_nodes is None:
                                return [ast.Expr(value=e)] if e is not None and not isinstance(e, (ast.Constant, ast.Name)) else []
                            return [ast.Assign(targets=copy.deepcopy(tgt_nodes), value=e if e is not None else ast.Constant(value=None))]

                        tb = _tailify(body, k)
                        if tb is not None and not any(isinstance(x, ast.Return) for s2 in tb for x in ast.walk(s2)):
                            out.extend(pre + (tb or [ast.Pass()]))
                            body = tb
                            done = True
                    elif form == "assign" and (h.final_return or h.single_expr):
                        last = body.pop()
                        out.extend(pre + body)
                        tgt = st.targets[0] if len(st.targets) == 1 else None
                        val = last.value
                        if isinstance(tgt, ast.Tuple) and isinstance(val, ast.Tuple) and len(tgt.elts) == len(val.elts) and all(isinstance(t, ast.Name) for t in tgt.elts):
                            tnames = {t.id for t in tgt.elts}
                            vnames = {x.id for v in val.elts for x in ast.walk(v) if isinstance(x, ast.Name)}
                            if not (tnames & vnames):
                                for t, v in zip(tgt.elts, val.elts):
                                    if t.id == "_" and isinstance(v, (ast.Name, ast.Constant)):
                                        continue
                                    out.append(ast.Assign(targets=[t], value=v))
                                done = True
                        if not done:
                            out.append(ast.Assign(targets=st.targets, value=val))
                        done = True
                    if done:
                        used.add((h.cls, h.name))
                        changed[0] = True
                        caller_names.update(_assigned_names(ast.Module(body=out[-(len(pre) + len(body) + 1):], type_ignores=[])))
            if not done:
                out.append(st)
        return out

    fn.body = rewrite_block(fn.body)

    # expression-position calls of single-expression helpers
    class E(ast.NodeTransformer):
        def visit_FunctionDef(self, node):
            return node if node is not fn else self.generic_visit(node)

        def visit_Call(self, node: ast.Call):
            node = self.generic_visit(node)
            h = _match_call(node, helpers, cur_cls)
            if h is None or not h.ok or not h.single_expr or h.node is fn:
                return node
            params = h.params()
            b = _bind(h, node, caller_names, counter)
            if b is None:
                return node
            pre, subst, rename = b
            if pre:
                return node  # would need a binding statement
            used.add((h.cls, h.name))
            changed[0] = True
            return _Renamer(subst, rename).visit(_KwExpand(h.kwname, h.last_kwmap).visit(copy.deepcopy(h.body[0].value)))

    E().visit(fn)
    return changed[0]


def _coalesce_aliases(fn: ast.FunctionDef) -> bool:
    """Copy propagation for the aliases that inlining leaves behind:

        a = <expr> ... b = a        (a, b plain local names)

    becomes `b = <expr> ...` with every `a` renamed to `b` when `a` and `b` each
    have exactly one binding in the function (the two shown), neither is a
    parameter, and `b` is not mentioned before the alias statement.  Pure
    renaming of a single-assignment local: behaviour preserving."""
    changed = False
    rejected: Set[Tuple[str, str]] = set()
    for _ in range(20):
        params = {a.arg for a in fn.args.args + fn.args.kwonlyargs + fn.args.posonlyargs}
        if fn.args.vararg:
            params.add(fn.args.vararg.arg)
        if fn.args.kwarg:
            params.add(fn.args.kwarg.arg)
        stores: Dict[str, int] = {}
        for x in ast.walk(fn):
            if isinstance(x, ast.Name) and isinstance(x.ctx, (ast.Store, ast.Del)):
                stores[x.id] = stores.get(x.id, 0) + 1
            elif isinstance(x, (ast.FunctionDef, ast.Lambda)) and x is not fn:
                stores["<nested>"] = 1
        if "<nested>" in stores:
            return changed
        cand = None

        def find(stmts):
            nonlocal cand
            for i, st in enumerate(stmts):
                if cand is not None:
                    return
                if isinstance(st, ast.Assign) and len(st.targets) == 1 and isinstance(st.targets[0], ast.Name) and isinstance(st.value, ast.Name):
                    b, a = st.targets[0].id, st.value.id
                    if a != b and a not in params and b not in params and stores.get(a, 0) >= 1 and stores.get(b) == 1 and (a, b) not in rejected:
                        # every binding of `a` lies textually before the alias statement, outside any loop that contains it
                        pos = (getattr(st, "lineno", 0), getattr(st, "col_offset", 0))
                        a_stores = [x for x in ast.walk(fn) if isinstance(x, ast.Name) and x.id == a and isinstance(x.ctx, (ast.Store, ast.Del))]
                        loops_of_alias = [lp for lp in ast.walk(fn) if isinstance(lp, (ast.For, ast.While)) and any(y is st for y in ast.walk(lp))]
                        # inside a loop the alias is still a pure renaming when every binding of `a` happens in the same
                        # loop(s), earlier in the iteration
                        in_loop = any(not all(any(y is x for y in ast.walk(lp)) for x in a_stores) for lp in loops_of_alias)
                        if all((getattr(x, "lineno", 10**9), getattr(x, "col_offset", 0)) < pos for x in a_stores) and not in_loop and (stores.get(a) == 1 or "__" in a):
                            cand = (stmts, i, a, b, st)
                            return
                        rejected.add((a, b))
                for fld in ("body", "orelse", "finalbody"):
                    sub = getattr(st, fld, None)
                    if isinstance(sub, list) and sub and isinstance(sub[0], ast.stmt):
                        find(sub)
                if isinstance(st, ast.Try):
                    for h in st.handlers:
                        find(h.body)

        find(fn.body)
        if cand is None:
            return changed
        stmts, i, a, b, st = cand
        # `b` must not be mentioned anywhere but in the alias statement's target ... before it (single store => only loads matter)
        order = [x for x in ast.walk(fn)]
        first_b_load = min((getattr(x, "lineno", 10**9), getattr(x, "col_offset", 0)) for x in order if isinstance(x, ast.Name) and x.id == b and isinstance(x.ctx, ast.Load)) \
            if any(isinstance(x, ast.Name) and x.id == b and isinstance(x.ctx, ast.Load) for x in order) else (10**9, 0)
        if first_b_load < (getattr(st, "lineno", 0), getattr(st, "col_offset", 0)):
            # b read before the alias statement (would now see a's value): leave it
            rejected.add((a, b))
            continue
        del stmts[i]
        if not stmts:
            stmts.append(ast.Pass())
        for x in ast.walk(fn):
            if isinstance(x, ast.Name) and x.id == a:
                x.id = b
        changed = True
    return changed


def _namedtuple_table(tree: ast.Module) -> Dict[str, List[str]]:
    out: Dict[str, List[str]] = {}
    for st in tree.body:
        if isinstance(st, ast.Assign) and len(st.targets) == 1 and isinstance(st.targets[0], ast.Name) and isinstance(st.value, ast.Call):
            f = st.value.func
            nm = f.id if isinstance(f, ast.Name) else (f.attr if isinstance(f, ast.Attribute) else "")
            if nm == "namedtuple" and len(st.value.args) >= 2:
                a = st.value.args[1]
                if isinstance(a, (ast.List, ast.Tuple)) and all(isinstance(e, ast.Constant) and isinstance(e.value, str) for e in a.elts):
                    out[st.targets[0].id] = [e.value for e in a.elts]
                elif isinstance(a, ast.Constant) and isinstance(a.value, str):
                    out[st.targets[0].id] = a.value.replace(",", " ").split()
        elif isinstance(st, ast.ClassDef) and any((isinstance(b, ast.Name) and b.id == "NamedTuple") or (isinstance(b, ast.Attribute) and b.attr == "NamedTuple") for b in st.bases):
            if not any(isinstance(x, ast.FunctionDef) for x in st.body):
                out[st.name] = [x.target.id for x in st.body if isinstance(x, ast.AnnAssign) and isinstance(x.target, ast.Name)]
    return out


def _scalar_replace_records(fn: ast.FunctionDef, nts: Dict[str, List[str]]) -> bool:
    """Scalar replacement of a local named-tuple record (and of a local list of such
    records that is only appended to and projected field-wise):

        r = NT(*call)                 r__a, r__b = call
        r = NT(a=x, b=y) / NT(x, y)   r__a = x; r__b = y
        r = r._replace(b=v)           r__b = v
        r.a                           r__a
        rs = []                       rs__a = []; rs__b = []
        rs.append(r)                  rs__a.append(r__a); rs__b.append(r__b)
        [q.a for q in rs]             rs__a

    Applied only when every occurrence of the names fits one of these patterns
    (the record never escapes as a whole)."""
    if not nts:
        return False
    # candidate record variables: assigned from NT(...) somewhere
    rec_vars: Dict[str, str] = {}
    for x in ast.walk(fn):
        if isinstance(x, ast.Assign) and len(x.targets) == 1 and isinstance(x.targets[0], ast.Name) and isinstance(x.value, ast.Call) and isinstance(x.value.func, ast.Name) and x.value.func.id in nts:
            rec_vars[x.targets[0].id] = x.value.func.id
    if not rec_vars:
        return False
    changed = False
    for r, nt in list(rec_vars.items()):
        fields = nts[nt]
        # list variables that receive r via append
        lists = {x.func.value.id for x in ast.walk(fn) if isinstance(x, ast.Call) and isinstance(x.func, ast.Attribute) and x.func.attr == "append" and isinstance(x.func.value, ast.Name)
                 and len(x.args) == 1 and isinstance(x.args[0], ast.Name) and x.args[0].id == r}
        ok = True
        # classify every occurrence of r
        parents = {}
        for p_ in ast.walk(fn):
            for c_ in ast.iter_child_nodes(p_):
                parents[c_] = p_
        for x in ast.walk(fn):
            if isinstance(x, ast.Name) and x.id == r:
                par = parents.get(x)
                if isinstance(par, ast.Attribute) and par.value is x and (par.attr in fields or par.attr == "_replace"):
                    if par.attr == "_replace":
                        call = parents.get(par)
                        asg = parents.get(call)
                        if not (isinstance(call, ast.Call) and call.func is par and not call.args and all(k.arg in fields for k in call.keywords)
                                and isinstance(asg, ast.Assign) and len(asg.targets) == 1 and isinstance(asg.targets[0], ast.Name) and asg.targets[0].id == r):
                            ok = False
                    continue
                if isinstance(par, ast.Assign) and x in par.targets:
                    v = par.value
                    if isinstance(v, ast.Call) and isinstance(v.func, ast.Name) and v.func.id == nt:
                        if len(v.args) == 1 and isinstance(v.args[0], ast.Starred) and not v.keywords:
                            continue
                        if not any(isinstance(a, ast.Starred) for a in v.args) and len(v.args) + len(v.keywords) == len(fields) and all(k.arg in fields for k in v.keywords):
                            continue
                    if isinstance(v, ast.Call) and isinstance(v.func, ast.Attribute) and v.func.attr == "_replace":
                        continue
                    ok = False
                    continue
                if isinstance(par, ast.Call) and isinstance(par.func, ast.Attribute) and par.func.attr == "append" and isinstance(par.func.value, ast.Name) and par.func.value.id in lists and isinstance(parents.get(par), ast.Expr):
                    continue
                ok = False
        # classify every occurrence of the list variables
        for L in lists:
            for x in ast.walk(fn):
                if isinstance(x, ast.Name) and x.id == L:
                    par = parents.get(x)
                    if isinstance(par, ast.Assign) and x in par.targets and isinstance(par.value, ast.List) and not par.value.elts:
                        continue
                    if isinstance(par, ast.Attribute) and par.attr == "append":
                        continue
                    if isinstance(par, ast.comprehension) and par.iter is x and isinstance(par.target, ast.Name) and not par.ifs:
                        lc = parents.get(par)
                        if isinstance(lc, ast.ListComp) and len(lc.generators) == 1 and isinstance(lc.elt, ast.Attribute) and isinstance(lc.elt.value, ast.Name) and lc.elt.value.id == par.target.id and lc.elt.attr in fields:
                            continue
                    ok = False
        if not ok:
            continue

        def nm(base, f):
            return f"{base}__{f}"

        class Rw(ast.NodeTransformer):
            def visit_FunctionDef(self, node):
                return self.generic_visit(node) if node is fn else node

            def visit_Attribute(self, node):
                node = self.generic_visit(node)
                if isinstance(node.value, ast.Name) and node.value.id == r and node.attr in fields:
                    return ast.Name(id=nm(r, node.attr), ctx=node.ctx)
                return node

            def visit_ListComp(self, node):
                g = node.generators[0] if len(node.generators) == 1 else None
                if g is not None and isinstance(g.iter, ast.Name) and g.iter.id in lists and isinstance(node.elt, ast.Attribute):
                    return ast.Name(id=nm(g.iter.id, node.elt.attr), ctx=ast.Load())
                return self.generic_visit(node)

        def rewrite(stmts):
            out = []
            for st in stmts:
                for fld in ("body", "orelse", "finalbody"):
                    sub = getattr(st, fld, None)
                    if isinstance(sub, list) and sub and isinstance(sub[0], ast.stmt) and not isinstance(st, (ast.FunctionDef, ast.ClassDef)):
                        setattr(st, fld, rewrite(sub))
                if isinstance(st, ast.Try):
                    for h in st.handlers:
                        h.body = rewrite(h.body)
                if isinstance(st, ast.Assign) and len(st.targets) == 1 and isinstance(st.targets[0], ast.Name):
                    t, v = st.targets[0].id, st.value
                    if t == r and isinstance(v, ast.Call) and isinstance(v.func, ast.Name) and v.func.id == nt:
                        if len(v.args) == 1 and isinstance(v.args[0], ast.Starred):
                            out.append(ast.Assign(targets=[ast.Tuple(elts=[ast.Name(id=nm(r, f), ctx=ast.Store()) for f in fields], ctx=ast.Store())], value=Rw().visit(v.args[0].value)))
                        else:
                            vals = {f: a for f, a in zip(fields, v.args)}
                            vals.update({k.arg: k.value for k in v.keywords})
                            for f in fields:
                                out.append(ast.Assign(targets=[ast.Name(id=nm(r, f), ctx=ast.Store())], value=Rw().visit(vals[f])))
                        continue
                    if t == r and isinstance(v, ast.Call) and isinstance(v.func, ast.Attribute) and v.func.attr == "_replace":
                        for k in v.keywords:
                            out.append(ast.Assign(targets=[ast.Name(id=nm(r, k.arg), ctx=ast.Store())], value=Rw().visit(k.value)))
                        continue
                    if t in lists and isinstance(v, ast.List) and not v.elts:
                        for f in fields:
                            out.append(ast.Assign(targets=[ast.Name(id=nm(t, f), ctx=ast.Store())], value=ast.List(elts=[], ctx=ast.Load())))
                        continue
                if isinstance(st, ast.Expr) and isinstance(st.value, ast.Call) and isinstance(st.value.func, ast.Attribute) and st.value.func.attr == "append" \
                        and isinstance(st.value.func.value, ast.Name) and st.value.func.value.id in lists and len(st.value.args) == 1 and isinstance(st.value.args[0], ast.Name) and st.value.args[0].id == r:
                    L = st.value.func.value.id
                    for f in fields:
                        out.append(ast.Expr(value=ast.Call(func=ast.Attribute(value=ast.Name(id=nm(L, f), ctx=ast.Load()), attr="append", ctx=ast.Load()),
                                                         args=[ast.Name(id=nm(r, f), ctx=ast.Load())], keywords=[])))
                    continue
                out.append(Rw().visit(st))
            return out

        fn.body = rewrite(fn.body)
        ast.fix_missing_locations(fn)
        changed = True
    return changed


def _inline_local_closures(fn: ast.FunctionDef) -> bool:
    """A zero-argument local closure with a single returned expression,

        def g(): return E
        ...  S[g()]  ...

    is replaced at its call sites by a hoisted binding `g_value = E; S[g_value]`
    when `g` is only ever called (never passed on), the call is the first
    evaluated call of its statement, and no free variable of E is re-bound after
    the definition of g.  (What remains after a helper that *takes* a callable has
    been inlined.)"""
    changed = False
    for i, st in enumerate(list(fn.body)):
        if not (isinstance(st, ast.FunctionDef) and not st.args.args and not st.args.vararg and not st.args.kwarg and not st.args.kwonlyargs and not st.decorator_list):
            continue
        body = [b for b in st.body if not (isinstance(b, ast.Expr) and isinstance(b.value, ast.Constant))]
        if len(body) != 1 or not isinstance(body[0], ast.Return) or body[0].value is None:
            continue
        g = st.name
        E = body[0].value
        refs = [x for x in ast.walk(fn) if isinstance(x, ast.Name) and x.id == g]
        calls = [x for x in ast.walk(fn) if isinstance(x, ast.Call) and isinstance(x.func, ast.Name) and x.func.id == g and not x.args and not x.keywords]
        if not calls or len(refs) != len(calls):
            continue
        free = {x.id for x in ast.walk(E) if isinstance(x, ast.Name)}
        def_pos = (st.lineno, st.col_offset) if hasattr(st, "lineno") else (0, 0)
        rebound = [x for x in ast.walk(fn) if isinstance(x, ast.Name) and isinstance(x.ctx, (ast.Store, ast.Del)) and x.id in free
                   and (getattr(x, "lineno", 0), getattr(x, "col_offset", 0)) > def_pos and not any(x is y for y in ast.walk(st))]
        if rebound:
            continue
        tmp = g + "_value"
        if any(isinstance(x, ast.Name) and x.id == tmp for x in ast.walk(fn)):
            continue
        ok = [True]

        def rewrite(stmts: List[ast.stmt]) -> List[ast.stmt]:
            out = []
            for s2 in stmts:
                if s2 is st:
                    continue  # drop the closure definition
                for fld in ("body", "orelse", "finalbody"):
                    sub = getattr(s2, fld, None)
                    if isinstance(sub, list) and sub and isinstance(sub[0], ast.stmt) and not isinstance(s2, (ast.FunctionDef, ast.ClassDef)):
                        setattr(s2, fld, rewrite(sub))
                if isinstance(s2, ast.Try):
                    for h in s2.handlers:
                        h.body = rewrite(h.body)
                # calls of g in the statement's own expressions (not in nested blocks)
                own = []
                for fld, val in ast.iter_fields(s2):
                    if fld in ("body", "orelse", "finalbody", "handlers"):
                        continue
                    vals = val if isinstance(val, list) else [val]
                    for v in vals:
                        if isinstance(v, ast.AST):
                            own += [x for x in ast.walk(v) if isinstance(x, ast.Call)]
                mine = [c for c in own if c in calls]
                if not mine:
                    out.append(s2)
                    continue
                if len(mine) != 1 or isinstance(s2, (ast.While, ast.For)):
                    ok[0] = False
                    out.append(s2)
                    continue
                # the closure call must be the first call evaluated in the statement
                first_call = own[0] if own else None
                order = sorted(own, key=lambda c: (getattr(c, "lineno", 0), getattr(c, "col_offset", 0)))
                inner_first = [c for c in order if not any((d is not c) and any(y is d for y in ast.walk(c)) for d in order if d is not c)]
                if not inner_first or inner_first[0] is not mine[0]:
                    ok[0] = False
                    out.append(s2)
                    continue

                class Sub(ast.NodeTransformer):
                    def visit_Call(self, node):
                        if node is mine[0]:
                            return ast.Name(id=tmp, ctx=ast.Load())
                        return self.generic_visit(node)

                out.append(ast.Assign(targets=[ast.Name(id=tmp, ctx=ast.Store())], value=copy.deepcopy(E)))
                out.append(Sub().visit(s2))
            return out

        backup = copy.deepcopy(fn.body)
        fn.body = rewrite(fn.body)
        if not ok[0]:
            fn.body = backup
            continue
        changed = True
        ast.fix_missing_locations(fn)
    return changed


def _sink_returns(fn: ast.FunctionDef) -> bool:
    """Single-exit spelling -> returns at the points of definition:

        if c: r = A          if c: return A
        else: r = B    ->    else: return B
        return r

    applied to the tail of every block that ends in `return <name>` when each
    path into that return ends with a plain assignment to the name (through
    if/else, with, try/finally).  The name must not be read in a `finally`."""
    changed = [False]

    def sink(stmts: List[ast.stmt], name: str) -> Optional[List[ast.stmt]]:
        """stmts with its trailing assignments to `name` turned into returns, or None."""
        if not stmts:
            return None
        last = stmts[-1]
        if isinstance(last, ast.Assign) and len(last.targets) == 1 and isinstance(last.targets[0], ast.Name) and last.targets[0].id == name:
            return stmts[:-1] + [ast.Return(value=last.value)]
        if isinstance(last, ast.If) and last.orelse:
            b, o = sink(last.body, name), sink(last.orelse, name)
            if b is None or o is None:
                return None
            return stmts[:-1] + [ast.If(test=last.test, body=b, orelse=o)]
        if isinstance(last, ast.With):
            b = sink(last.body, name)
            if b is None:
                return None
            return stmts[:-1] + [ast.With(items=last.items, body=b)]
        if isinstance(last, (ast.Return, ast.Raise)):
            return stmts
        return None

    def visit(stmts: List[ast.stmt]) -> List[ast.stmt]:
        for st in stmts:
            for fld in ("body", "orelse", "finalbody"):
                sub = getattr(st, fld, None)
                if isinstance(sub, list) and sub and isinstance(sub[0], ast.stmt) and not isinstance(st, (ast.FunctionDef, ast.ClassDef)):
                    setattr(st, fld, visit(sub))
            if isinstance(st, ast.Try):
                for h in st.handlers:
                    h.body = visit(h.body)
        if len(stmts) >= 2 and isinstance(stmts[-1], ast.Return) and isinstance(stmts[-1].value, ast.Name):
            name = stmts[-1].value.id
            new = sink(stmts[:-1], name)
            if new is not None:
                # the name must not be needed elsewhere: no other read of it after the sunk assignments (it was
                # only read by the return) -- reads inside the sunk region other than its own definitions are kept
                changed[0] = True
                return new
        return stmts

    fn.body = visit(fn.body)
    return changed[0]


def _canonical_loops(fn: ast.FunctionDef) -> bool:
    """`while True: if not C: break; BODY`  ->  `while C: BODY` (and the `if C: break`
    twin): the literal spelling of a guarded loop.  Only when the guard test is the
    first statement of the body, has no else branch and the loop has no else."""
    changed = False
    for x in ast.walk(fn):
        if isinstance(x, ast.While) and isinstance(x.test, ast.Constant) and x.test.value is True and not x.orelse and x.body:
            first = x.body[0]
            if isinstance(first, ast.If) and not first.orelse and len(first.body) == 1 and isinstance(first.body[0], ast.Break) and len(x.body) > 1:
                t = first.test
                if isinstance(t, ast.UnaryOp) and isinstance(t.op, ast.Not):
                    x.test = t.operand
                else:
                    x.test = ast.UnaryOp(op=ast.Not(), operand=t)
                x.body = x.body[1:]
                changed = True
    return changed


def _expand_vararg_maps(tree: ast.Module, modname: str, table: Set[str]) -> List[str]:
    """New helpers of the form `def f(p.., *xs): return tuple(E(p.., x) for x in xs)` (or a list): every call
    `f(a.., y1, y2, ...)` becomes the display `(E(a.., y1), E(a.., y2), ...)`."""
    helpers = {}
    for st in tree.body:
        cands = [(None, st)] if isinstance(st, ast.FunctionDef) else ([(st.name, x) for x in st.body if isinstance(x, ast.FunctionDef)] if isinstance(st, ast.ClassDef) else [])
        for (cls, fn) in cands:
            if _qual(modname, cls, fn.name) in table or fn.args.vararg is None or fn.args.kwarg or fn.args.kwonlyargs or fn.args.defaults:
                continue
            body = [x for x in fn.body if not (isinstance(x, ast.Expr) and isinstance(x.value, ast.Constant))]
            if len(body) != 1 or not isinstance(body[0], ast.Return):
                continue
            v = body[0].value
            comp, kind = None, None
            if isinstance(v, ast.Call) and isinstance(v.func, ast.Name) and v.func.id in ("tuple", "list") and len(v.args) == 1 and isinstance(v.args[0], (ast.GeneratorExp, ast.ListComp)):
                comp, kind = v.args[0], v.func.id
            elif isinstance(v, ast.ListComp):
                comp, kind = v, "list"
            if comp is None or len(comp.generators) != 1 or comp.generators[0].ifs or not isinstance(comp.generators[0].target, ast.Name):
                continue
            g = comp.generators[0]
            if not (isinstance(g.iter, ast.Name) and g.iter.id == fn.args.vararg.arg):
                continue
            fixed = [a.arg for a in fn.args.args]
            if cls is not None and fixed and fixed[0] in ("self", "cls") and not any(ast.unparse(d) == "staticmethod" for d in fn.decorator_list):
                fixed = fixed[1:]
            helpers[fn.name] = (fixed, g.target.id, comp.elt, kind)
    done = []
    if not helpers:
        return done

    class T(ast.NodeTransformer):
        def visit_Call(self, node: ast.Call):
            node = self.generic_visit(node)
            name = node.func.id if isinstance(node.func, ast.Name) else (node.func.attr if isinstance(node.func, ast.Attribute) and isinstance(node.func.value, ast.Name) else None)
            if name not in helpers or node.keywords or any(isinstance(a, ast.Starred) for a in node.args):
                return node
            fixed, var, elt, kind = helpers[name]
            if len(node.args) < len(fixed) or not all(_simple(a) for a in node.args):
                return node
            sub = {p: a for p, a in zip(fixed, node.args)}
            elts = []
            for a in node.args[len(fixed):]:
                m = dict(sub)
                m[var] = a
                elts.append(_Renamer(m, {}).visit(copy.deepcopy(elt)))
            done.append(_qual(modname, None, name))
            return ast.Tuple(elts=elts, ctx=ast.Load()) if kind == "tuple" else ast.List(elts=elts, ctx=ast.Load())

    T().visit(tree)
    return done


def _split_tuple_assigns(fn: ast.FunctionDef) -> bool:
    """`a, b = (ea, eb)` -> `a = ea; b = eb` when no target is read by a later element (same evaluation order)."""
    changed = [False]

    def rewrite(stmts):
        out = []
        for st in stmts:
            for fld in ("body", "orelse", "finalbody"):
                sub = getattr(st, fld, None)
                if isinstance(sub, list) and sub and isinstance(sub[0], ast.stmt) and not isinstance(st, (ast.FunctionDef, ast.ClassDef)):
                    setattr(st, fld, rewrite(sub))
            if isinstance(st, ast.Assign) and len(st.targets) == 1 and isinstance(st.targets[0], ast.Tuple) and isinstance(st.value, (ast.Tuple, ast.List)) \
                    and len(st.targets[0].elts) == len(st.value.elts) and all(isinstance(t, ast.Name) for t in st.targets[0].elts):
                tg = [t.id for t in st.targets[0].elts]
                ok = True
                for i, v in enumerate(st.value.elts):
                    used = {x.id for x in ast.walk(v) if isinstance(x, ast.Name)}
                    if used & set(tg[:i]):
                        ok = False
                if ok and len(set(tg)) == len(tg):
                    for t, v in zip(st.targets[0].elts, st.value.elts):
                        out.append(ast.copy_location(ast.Assign(targets=[t], value=v), st))
                    changed[0] = True
                    continue
            out.append(st)
        return out

    fn.body = rewrite(fn.body)
    return changed[0]


def _none_guard_assigns(fn: ast.FunctionDef) -> bool:
    """`x = None if x is None else E`  /  `x = E if x is not None else None`  ->  `if x is not None: x = E`."""
    changed = [False]

    def rewrite(stmts):
        out = []
        for st in stmts:
            for fld in ("body", "orelse", "finalbody"):
                sub = getattr(st, fld, None)
                if isinstance(sub, list) and sub and isinstance(sub[0], ast.stmt) and not isinstance(st, (ast.FunctionDef, ast.ClassDef)):
                    setattr(st, fld, rewrite(sub))
            if isinstance(st, ast.Assign) and len(st.targets) == 1 and isinstance(st.targets[0], ast.Name) and isinstance(st.value, ast.IfExp):
                x = st.targets[0].id
                t, a, b = st.value.test, st.value.body, st.value.orelse
                is_none = isinstance(t, ast.Compare) and len(t.ops) == 1 and isinstance(t.left, ast.Name) and t.left.id == x and isinstance(t.comparators[0], ast.Constant) and t.comparators[0].value is None
                if is_none:
                    none_when_true = isinstance(t.ops[0], ast.Is)
                    none_branch, val_branch = (a, b) if none_when_true else (b, a)
                    if isinstance(none_branch, ast.Constant) and none_branch.value is None and isinstance(t.ops[0], (ast.Is, ast.IsNot)):
                        test = ast.Compare(left=ast.Name(id=x, ctx=ast.Load()), ops=[ast.IsNot()], comparators=[ast.Constant(value=None)])
                        out.append(ast.copy_location(ast.If(test=test, body=[ast.Assign(targets=[st.targets[0]], value=val_branch)], orelse=[]), st))
                        changed[0] = True
                        continue
            out.append(st)
        return out

    fn.body = rewrite(fn.body)
    return changed[0]


def _const_getattr(tree: ast.AST) -> bool:
    """getattr(obj, "name") with a literal name and no default is the attribute access obj.name."""
    changed = [False]

    class T(ast.NodeTransformer):
        def visit_Call(self, node):
            node = self.generic_visit(node)
            if isinstance(node.func, ast.Name) and node.func.id == "getattr" and len(node.args) == 2 and not node.keywords and isinstance(node.args[1], ast.Constant) \
                    and isinstance(node.args[1].value, str) and node.args[1].value.isidentifier() and _simple(node.args[0]):
                changed[0] = True
                return ast.copy_location(ast.Attribute(value=node.args[0], attr=node.args[1].value, ctx=ast.Load()), node)
            return node

    T().visit(tree)
    return changed[0]


def _unroll_literal_loops(fn: ast.FunctionDef) -> bool:
    """`for a, b in ((x1, y1), (x2, y2)): BODY` over a literal display of at most 6 entries -> BODY[x1,y1]; BODY[x2,y2]
    (table-driven code written out; the loop variables must not be assigned in the body, no break/continue/else)."""
    changed = [False]

    def literal(e) -> bool:
        return _simple(e) or (isinstance(e, (ast.Tuple, ast.List)) and all(literal(x) for x in e.elts)) or (isinstance(e, ast.UnaryOp) and isinstance(e.operand, ast.Constant))

    def rewrite(stmts):
        out = []
        for st in stmts:
            for fld in ("body", "orelse", "finalbody"):
                sub = getattr(st, fld, None)
                if isinstance(sub, list) and sub and isinstance(sub[0], ast.stmt) and not isinstance(st, (ast.FunctionDef, ast.ClassDef)):
                    setattr(st, fld, rewrite(sub))
            if isinstance(st, ast.For) and not st.orelse and isinstance(st.iter, (ast.Tuple, ast.List)) and 1 <= len(st.iter.elts) <= 6 and all(literal(e) for e in st.iter.elts):
                tg = st.target
                names = [tg.id] if isinstance(tg, ast.Name) else ([t.id for t in tg.elts] if isinstance(tg, ast.Tuple) and all(isinstance(t, ast.Name) for t in tg.elts) else None)
                body_nodes = [x for b in st.body for x in ast.walk(b)]
                if names and not any(isinstance(x, (ast.Break, ast.Continue, ast.FunctionDef, ast.Lambda)) for x in body_nodes) \
                        and not any(isinstance(x, ast.Name) and x.id in names and isinstance(x.ctx, (ast.Store, ast.Del)) for x in body_nodes):
                    ok = True
                    copies = []
                    for e in st.iter.elts:
                        if isinstance(tg, ast.Name):
                            sub = {names[0]: e}
                        elif isinstance(e, (ast.Tuple, ast.List)) and len(e.elts) == len(names):
                            sub = dict(zip(names, e.elts))
                        else:
                            ok = False
                            break
                        copies.append([_Renamer(sub, {}).visit(copy.deepcopy(b)) for b in st.body])
                    if ok:
                        for c in copies:
                            out.extend(c)
                        changed[0] = True
                        continue
            out.append(st)
        return out

    fn.body = rewrite(fn.body)
    return changed[0]


def _thread_none_flags(fn: ast.FunctionDef) -> bool:
    """An if-chain every leaf of which ends by setting the same local to None or to a value, followed directly by
    `if <local> is not None: BODY`: BODY moves into the leaves that set a value (jump threading on the flag)."""
    changed = [False]

    def leaves(ifst: ast.If) -> Optional[List[List[ast.stmt]]]:
        out = []
        for br in (ifst.body, ifst.orelse):
            if not br:
                return None
            if len(br) == 1 and isinstance(br[0], ast.If):
                sub = leaves(br[0])
                if sub is None:
                    return None
                out += sub
            else:
                out.append(br)
        return out

    def flag_of(br: List[ast.stmt]) -> Optional[str]:
        last = br[-1]
        if isinstance(last, ast.Assign) and len(last.targets) == 1 and isinstance(last.targets[0], ast.Name):
            return last.targets[0].id
        return None

    def definitely_value(e: ast.expr) -> bool:
        return isinstance(e, ast.JoinedStr) or (isinstance(e, ast.Constant) and e.value is not None)

    def rewrite(stmts):
        out = []
        i = 0
        while i < len(stmts):
            st = stmts[i]
            for fld in ("body", "orelse", "finalbody"):
                sub = getattr(st, fld, None)
                if isinstance(sub, list) and sub and isinstance(sub[0], ast.stmt) and not isinstance(st, (ast.FunctionDef, ast.ClassDef)):
                    setattr(st, fld, rewrite(sub))
            nxt = stmts[i + 1] if i + 1 < len(stmts) else None
            if isinstance(st, ast.If) and isinstance(nxt, ast.If) and not nxt.orelse and isinstance(nxt.test, ast.Compare) and len(nxt.test.ops) == 1 and isinstance(nxt.test.ops[0], ast.IsNot) \
                    and isinstance(nxt.test.left, ast.Name) and isinstance(nxt.test.comparators[0], ast.Constant) and nxt.test.comparators[0].value is None:
                m = nxt.test.left.id
                lv = leaves(st)
                if lv and all(flag_of(b) == m for b in lv):
                    used_elsewhere = any(isinstance(x, ast.Name) and x.id == m and isinstance(x.ctx, ast.Load) for b in lv for s_ in b[:-1] for x in ast.walk(s_)) or \
                        any(isinstance(x, ast.Name) and x.id == m for x in ast.walk(st.test))
                    if not used_elsewhere:
                        for b in lv:
                            v = b[-1].value
                            if isinstance(v, ast.Constant) and v.value is None:
                                continue
                            b.extend(copy.deepcopy(nxt.body) if definitely_value(v) else [copy.deepcopy(nxt)])
                        out.append(st)
                        changed[0] = True
                        i += 2
                        continue
            out.append(st)
            i += 1
        return out

    fn.body = rewrite(fn.body)
    return changed[0]


def normalize_sources(sources: Dict[str, str], table: Optional[Set[str]] = None) -> Tuple[Dict[str, str], List[str]]:
    table = table if table is not None else baseline_table()
    out = dict(sources)
    inlined: List[str] = []
    for rel, src in sources.items():
        modname = rel[:-3].replace(os.sep, ".")
        if modname.endswith(".__init__"):
            modname = modname[: -len(".__init__")]
        tree = ast.parse(src)
        changed_any = False
        _BASES.clear()
        _METHODS.clear()
        for st in tree.body:
            if isinstance(st, ast.ClassDef):
                _BASES[st.name] = [b.id for b in st.bases if isinstance(b, ast.Name)]
                _METHODS[st.name] = {x.name for x in st.body if isinstance(x, ast.FunctionDef)}
        unrolled = False
        for st in tree.body:
            for fn_ in ([st] if isinstance(st, ast.FunctionDef) else ([x for x in st.body if isinstance(x, ast.FunctionDef)] if isinstance(st, ast.ClassDef) else [])):
                unrolled |= _unroll_literal_loops(fn_)
        if unrolled:
            changed_any = True
            ast.fix_missing_locations(tree)
            inlined.append(f"{modname}:<literal-table loops written out>")
        vm = _expand_vararg_maps(tree, modname, table)
        if vm:
            changed_any = True
            ast.fix_missing_locations(tree)
            for nm_ in sorted(set(vm)):
                short = nm_.split(":")[-1]
                if not any((isinstance(n, ast.Name) and n.id == short) or (isinstance(n, ast.Attribute) and n.attr == short) for n in ast.walk(tree)):
                    tree.body = [s_ for s_ in tree.body if not (isinstance(s_, ast.FunctionDef) and s_.name == short)]
                inlined.append(nm_)
            for st in tree.body:
                for fn_ in ([st] if isinstance(st, ast.FunctionDef) else ([x for x in st.body if isinstance(x, ast.FunctionDef)] if isinstance(st, ast.ClassDef) else [])):
                    _split_tuple_assigns(fn_)
                    _none_guard_assigns(fn_)
            ast.fix_missing_locations(tree)
        for _round in range(3):
            helpers: Dict[Tuple[Optional[str], str], _Helper] = {}
            for st in tree.body:
                if isinstance(st, ast.FunctionDef) and _qual(modname, None, st.name) not in table:
                    helpers[(None, st.name)] = _Helper(modname, None, st)
                elif isinstance(st, ast.ClassDef):
                    for s in st.body:
                        if isinstance(s, ast.FunctionDef) and _qual(modname, st.name, s.name) not in table and not (s.name.startswith("__") and s.name.endswith("__")):
                            helpers[(st.name, s.name)] = _Helper(modname, st.name, s)
            helpers = {k: h for k, h in helpers.items() if h.ok}
            if not helpers:
                break
            used: Set[Tuple[Optional[str], str]] = set()
            counter = [0]
            changed = False
            for st in tree.body:
                if isinstance(st, ast.FunctionDef):
                    changed |= _inline_in_function(st, None, helpers, counter, used)
                elif isinstance(st, ast.ClassDef):
                    for s in st.body:
                        if isinstance(s, ast.FunctionDef):
                            changed |= _inline_in_function(s, st.name, helpers, counter, used)
            if not changed:
                break
            changed_any = True
            # drop helper definitions that no longer have a call site
            ast.fix_missing_locations(tree)
            for (cls, name) in used:
                still = 0
                for n in ast.walk(tree):
                    if isinstance(n, ast.Call):
                        f = n.func
                        if (isinstance(f, ast.Name) and f.id == name) or (isinstance(f, ast.Attribute) and f.attr == name):
                            still += 1
                    elif isinstance(n, ast.Attribute) and n.attr == name and not isinstance(getattr(n, "ctx", None), ast.Store):
                        pass
                refs = sum(1 for n in ast.walk(tree) if (isinstance(n, ast.Name) and n.id == name) or (isinstance(n, ast.Attribute) and n.attr == name))
                if refs == 0:
                    if cls is None:
                        tree.body = [s for s in tree.body if not (isinstance(s, ast.FunctionDef) and s.name == name)]
                    else:
                        for c in tree.body:
                            if isinstance(c, ast.ClassDef) and c.name == cls:
                                c.body = [s for s in c.body if not (isinstance(s, ast.FunctionDef) and s.name == name)] or [ast.Pass()]
                    inlined.append(_qual(modname, cls, name))
        # source-level canonical forms that do not depend on new helpers
        canon = False
        nts = {k: v for k, v in _namedtuple_table(tree).items() if _qual(modname, None, k) not in table}
        for st in tree.body:
            if isinstance(st, ast.FunctionDef):
                canon |= _canonical_loops(st)
                canon |= _sink_returns(st)
                canon |= _scalar_replace_records(st, nts)
            elif isinstance(st, ast.ClassDef):
                for s2 in st.body:
                    if isinstance(s2, ast.FunctionDef):
                        canon |= _canonical_loops(s2)
                        canon |= _sink_returns(s2)
                        canon |= _scalar_replace_records(s2, nts)
        if canon:
            changed_any = True
            inlined.append(f"{modname}:<guard-loop / single-exit canonicalisation>")
        if changed_any:
            ast.fix_missing_locations(tree)
            # re-parse so that positions are those of the normal form, then tidy the aliases left by inlining
            tree = ast.parse(ast.unparse(tree))
            nts2 = {k: v for k, v in _namedtuple_table(tree).items() if _qual(modname, None, k) not in table}
            _const_getattr(tree)
            for st in tree.body:
                if isinstance(st, ast.FunctionDef):
                    _inline_local_closures(st)
                    _coalesce_aliases(st)
                    _canonical_loops(st)
                    _scalar_replace_records(st, nts2)
                    _thread_none_flags(st)
                elif isinstance(st, ast.ClassDef):
                    for s2 in st.body:
                        if isinstance(s2, ast.FunctionDef):
                            _inline_local_closures(s2)
                            _coalesce_aliases(s2)
                            _canonical_loops(s2)
                            _scalar_replace_records(s2, nts2)
                            _thread_none_flags(s2)
            ast.fix_missing_locations(tree)
            out[rel] = ast.unparse(tree) + "\n"
    return out, inlined
