"""Program normalisation: inline helper functions that are *not* part of the
reference function table (`baseline_functions.json`, the functions of the tree
the rules were written against).

A behaviour-preserving "extract method" refactoring introduces new helpers; the
rules' shape analyses are intraprocedural in places, so a check that reports a
violation or cannot decide on the tree as written is re-run on this normal form
(see cli.check).  Inlining is semantics preserving for the helper shapes handled
here (straight parameter passing, no recursion, no generators, no *args):

  x = H(a, b)            body ...; x = <returned expr>       (single final return)
  return H(a, b)         body with its returns kept          (any return structure)
  H(a, b)                body                                (no value returned)
  ... H(a, b) ...        (<returned expr>)                   (body is a single return)

Parameters are substituted by the argument expression when the argument is a
name / attribute / constant and the parameter is never reassigned; otherwise a
binding assignment is emitted.  Helper locals that clash with caller names are
renamed.  Nothing is executed.
"""
from __future__ import annotations

import ast
import copy
import json
import os
from typing import Dict, List, Optional, Set, Tuple

HERE = os.path.dirname(os.path.abspath(__file__))
BASELINE = os.path.join(HERE, "baseline_functions.json")


def baseline_table() -> Set[str]:
    with open(BASELINE) as fh:
        return set(json.load(fh)["functions"])


def _qual(modname: str, cls: Optional[str], name: str) -> str:
    return f"{modname}:{cls + '.' if cls else ''}{name}"


def _return_chain_expr(body: List[ast.stmt]) -> Optional[ast.expr]:
    """the value of a body that consists only of `if c: return e` guards (with optional else-chains) and a final `return e`"""
    if not body:
        return None
    st = body[0]
    if isinstance(st, ast.Return):
        return st.value if st.value is not None and len(body) == 1 else (st.value if st.value is not None else None)
    if isinstance(st, ast.If):
        a = _return_chain_expr(st.body)
        if a is None:
            return None
        if st.orelse:
            b = _return_chain_expr(st.orelse)
            if b is None or len(body) != 1:
                return None
        else:
            b = _return_chain_expr(body[1:])
            if b is None:
                return None
        return ast.IfExp(test=st.test, body=a, orelse=b)
    return None


_PURE_BUILTINS = {"set", "frozenset", "range", "sorted", "tuple", "len", "min", "max", "sum", "int", "float", "abs", "enumerate", "zip", "isinstance", "bool",
                  "reversed", "all", "any", "divmod", "round", "str", "None", "True", "False"}


def _closed_pure_function(n: ast.FunctionDef) -> bool:
    """The function reads nothing but its parameters, its own locals and side-effect-free builtins, mutates only
    objects it created itself, and returns an immutable value (a tuple / frozenset / number built here): memoising it
    cannot change what a call returns, so a memoised version is the function itself."""
    params = {a.arg for a in n.args.args + n.args.kwonlyargs}
    local = _assigned_names(n)
    own = [x for st in n.body for x in _walk_own(st, not isinstance(st, (ast.FunctionDef, ast.ClassDef)))]
    for x in own:
        if isinstance(x, (ast.FunctionDef, ast.Lambda, ast.ClassDef)) and x is not n:
            return False
        if isinstance(x, ast.Name) and isinstance(x.ctx, ast.Load) and x.id not in params and x.id not in local and x.id not in _PURE_BUILTINS:
            return False
        if isinstance(x, (ast.Attribute, ast.Subscript)) and isinstance(x.ctx, (ast.Store, ast.Del)):
            root = x
            while isinstance(root, (ast.Attribute, ast.Subscript)):
                root = root.value
            if not (isinstance(root, ast.Name) and root.id in local and root.id not in params):
                return False
        if isinstance(x, ast.Call) and isinstance(x.func, ast.Attribute):
            root = x.func.value
            if not (isinstance(root, ast.Name) and root.id in local and root.id not in params):
                return False  # a method call on something the function did not create
        if isinstance(x, ast.AugAssign) and isinstance(x.target, ast.Name) and x.target.id in params:
            return False
        if isinstance(x, (ast.Import, ast.ImportFrom, ast.Global, ast.Nonlocal, ast.With, ast.Try, ast.Raise)):
            return False
    # locals must start as fresh objects (not aliases of a parameter) when they are mutated through methods / |=
    mutated = {x.func.value.id for x in own if isinstance(x, ast.Call) and isinstance(x.func, ast.Attribute) and isinstance(x.func.value, ast.Name)}
    mutated |= {x.target.id for x in own if isinstance(x, ast.AugAssign) and isinstance(x.target, ast.Name)}
    for x in own:
        if isinstance(x, ast.Assign):
            for t in x.targets:
                if isinstance(t, ast.Name) and t.id in mutated and not (isinstance(x.value, ast.Call) and isinstance(x.value.func, ast.Name) and x.value.func.id in ("set", "list", "dict", "sorted")
                                                                       or isinstance(x.value, (ast.Constant, ast.List, ast.Set, ast.Dict, ast.BinOp))):
                    return False
    rets = [r for r in _walk_own(n, True) if isinstance(r, ast.Return)]
    if not rets:
        return False
    for r in rets:
        v = r.value
        if not (isinstance(v, ast.Constant) or (isinstance(v, ast.Call) and isinstance(v.func, ast.Name) and v.func.id in ("tuple", "frozenset", "int", "float", "bool", "len", "str", "sum", "min", "max"))):
            return False
    return True


class _Helper:
    def __init__(self, modname, cls, node: ast.FunctionDef):
        self.modname = modname
        self.cls = cls
        self.node = node
        self.name = node.name
        decos = [ast.unparse(d) for d in node.decorator_list]
        self.static = "staticmethod" in decos
        self.kwname = None
        self.last_kwmap: Dict[str, ast.expr] = {}
        self.ok = self._inlinable(decos)
        body = [s for s in node.body if not (isinstance(s, ast.Expr) and isinstance(s.value, ast.Constant) and isinstance(s.value.value, str))]
        # a chain of guard returns is one conditional expression:  if a: return x / if b: return y / return z  ==  x if a else (y if b else z)
        chain_expr = _return_chain_expr(body)
        if chain_expr is not None and len(body) > 1:
            body = [ast.copy_location(ast.Return(value=chain_expr), body[0])]
            ast.fix_missing_locations(body[0])
        self.body = body
        rets = [n for n in _walk_own(node, True) if isinstance(n, ast.Return)]
        self.n_returns = len(rets)
        self.single_expr = len(body) == 1 and isinstance(body[0], ast.Return) and body[0].value is not None
        self.final_return = bool(body) and isinstance(body[-1], ast.Return) and self.n_returns == 1
        self.no_value = all(r.value is None for r in rets) and (not rets or (len(rets) == 1 and body and body[-1] is rets[0]))

    def _inlinable(self, decos) -> bool:
        n = self.node
        # a memoised function of hashable arguments that is one expression is that expression (the in-place mutation of a
        # cached result is a separate, construct-level rule that reads the tree as written)
        memo = [d for d in decos if d.split("(")[0].split(".")[-1] in ("lru_cache", "cache")]
        body_ = [s_ for s_ in n.body if not (isinstance(s_, ast.Expr) and isinstance(s_.value, ast.Constant))]
        if memo and not (len(body_) == 1 and isinstance(body_[0], ast.Return) and body_[0].value is not None) and not _closed_pure_function(n):
            return False
        if any(d not in ("staticmethod",) and d not in memo for d in decos):
            return False
        a = n.args
        if a.vararg or a.posonlyargs:
            return False
        self.kwname = a.kwarg.arg if a.kwarg else None
        if self.kwname:
            # **options is supported when the body only reads options["literal"] and forwards **options
            parents = {}
            for x in ast.walk(n):
                for ch in ast.iter_child_nodes(x):
                    parents[id(ch)] = x
            for x in ast.walk(n):
                if isinstance(x, ast.Name) and x.id == self.kwname:
                    par = parents.get(id(x))
                    ok = (isinstance(par, ast.Subscript) and par.value is x and isinstance(par.slice, ast.Constant) and isinstance(par.slice.value, str) and isinstance(par.ctx, ast.Load)) or \
                         (isinstance(par, ast.keyword) and par.arg is None and par.value is x)
                    if not ok:
                        return False
        for x in ast.walk(n):
            if isinstance(x, (ast.Yield, ast.YieldFrom, ast.Global, ast.Nonlocal, ast.Await, ast.Lambda)):
                return False
            if isinstance(x, ast.ClassDef):
                return False
            if isinstance(x, ast.FunctionDef) and x is not n and (x.decorator_list or x.args.vararg or x.args.kwarg):
                return False
            if isinstance(x, ast.Call) and isinstance(x.func, (ast.Name, ast.Attribute)) and (getattr(x.func, "id", None) == n.name or getattr(x.func, "attr", None) == n.name):
                return False  # (possibly) recursive
        return True

    def params(self) -> List[Tuple[str, Optional[ast.expr]]]:
        a = self.node.args
        pos = list(a.args)
        defaults = [None] * (len(pos) - len(a.defaults)) + list(a.defaults)
        out = [(p.arg, d) for p, d in zip(pos, defaults)]
        out += [(p.arg, d) for p, d in zip(a.kwonlyargs, a.kw_defaults)]
        if self.cls is not None and not self.static and out and out[0][0] in ("self", "cls"):
            out = out[1:]
        return out


def _walk_own(node: ast.AST, enter_root: bool = False):
    """ast.walk that does not descend into nested function / class bodies (the nested def node itself is yielded)"""
    todo = [node]
    first = enter_root
    while todo:
        x = todo.pop()
        yield x
        if not first and isinstance(x, (ast.FunctionDef, ast.AsyncFunctionDef, ast.Lambda, ast.ClassDef)):
            continue
        first = False
        todo.extend(ast.iter_child_nodes(x))


def _assigned_names(node: ast.AST) -> Set[str]:
    out = set()
    for x in ast.walk(node):
        if isinstance(x, ast.Name) and isinstance(x.ctx, (ast.Store, ast.Del)):
            out.add(x.id)
        elif isinstance(x, ast.arg):
            out.add(x.arg)
        elif isinstance(x, ast.FunctionDef) and x is not node:
            out.add(x.name)
    return out


def _simple(e: ast.expr) -> bool:
    if isinstance(e, (ast.Name, ast.Constant)):
        return True
    if isinstance(e, ast.Attribute):
        return _simple(e.value)
    return False


class _Renamer(ast.NodeTransformer):
    def __init__(self, subst: Dict[str, ast.expr], rename: Dict[str, str]):
        self.subst = subst
        self.rename = rename

    def visit_FunctionDef(self, node: ast.FunctionDef):
        # a nested function: its own parameters and locals shadow the outer names; its name is an outer local
        own = {a.arg for a in node.args.args + node.args.kwonlyargs + node.args.posonlyargs} | ({node.args.vararg.arg} if node.args.vararg else set()) | ({node.args.kwarg.arg} if node.args.kwarg else set())
        for x in node.body:
            own |= {n.id for n in ast.walk(x) if isinstance(n, ast.Name) and isinstance(n.ctx, (ast.Store, ast.Del))}
        own -= {n_ for x in ast.walk(node) if isinstance(x, (ast.Nonlocal, ast.Global)) for n_ in x.names}
        inner = _Renamer({k: v for k, v in self.subst.items() if k not in own}, {k: v for k, v in self.rename.items() if k not in own})
        node.body = [inner.visit(x) for x in node.body]
        node.args.defaults = [self.visit(d) for d in node.args.defaults]
        node.args.kw_defaults = [self.visit(d) if d is not None else None for d in node.args.kw_defaults]
        node.decorator_list = [self.visit(d) for d in node.decorator_list]
        if node.name in self.rename:
            node.name = self.rename[node.name]
        return node

    def visit_Name(self, node: ast.Name):
        if node.id in self.subst and isinstance(node.ctx, ast.Load):
            return copy.deepcopy(self.subst[node.id])
        if node.id in self.rename:
            return ast.copy_location(ast.Name(id=self.rename[node.id], ctx=node.ctx), node)
        return node


def _immutable_default(d: ast.expr) -> bool:
    if isinstance(d, (ast.Constant, ast.Name, ast.Attribute)):
        return True
    if isinstance(d, ast.UnaryOp):
        return _immutable_default(d.operand)
    if isinstance(d, ast.Tuple):
        return all(_immutable_default(e) for e in d.elts)
    if isinstance(d, ast.BinOp):
        return _immutable_default(d.left) and _immutable_default(d.right)
    return False


def _match_call(call: ast.Call, helpers: Dict[Tuple[Optional[str], str], _Helper], cur_cls: Optional[str]) -> Optional[_Helper]:
    f = call.func
    if isinstance(f, ast.Name):
        h = helpers.get((None, f.id))
        return h
    if isinstance(f, ast.Attribute) and isinstance(f.value, ast.Name):
        if f.value.id in ("self", "cls") and cur_cls is not None:
            h = helpers.get((cur_cls, f.attr))
            if h is not None:
                return h
            # a helper defined in a base class of the same module (and not overridden on the way)
            seen = set()
            todo = list(_BASES.get(cur_cls, []))
            while todo:
                b = todo.pop(0)
                if b in seen:
                    continue
                seen.add(b)
                if (b, f.attr) in helpers:
                    return helpers[(b, f.attr)]
                if f.attr in _METHODS.get(b, ()):
                    return None  # a reference-tree method of that name exists on the way: not a new helper
                todo.extend(_BASES.get(b, []))
            return None
        h = helpers.get((f.value.id, f.attr))
        if h is not None and h.static:
            return h
        c = _RECV.get(f.value.id)
        if c is not None:
            h = helpers.get((c, f.attr))
            if h is not None and not h.static and h.node.args.args and h.node.args.args[0].arg == "self":
                return h
    return None


_RECV: Dict[str, str] = {}


def _receiver_types(fn: ast.FunctionDef, helpers, cur_cls: Optional[str] = None) -> Dict[str, str]:
    """local name -> class, for locals every binding of which is `Class(...)` or `<name>.<helper method of Class>(...)`
    (the class is one with new helper methods)"""
    classes = {c for (c, _) in helpers if c is not None}
    is_classmethod = cur_cls is not None and any(ast.unparse(d) == "classmethod" for d in fn.decorator_list) and fn.args.args and fn.args.args[0].arg == "cls"
    stores: Dict[str, int] = {}
    for x in ast.walk(fn):
        if isinstance(x, ast.Name) and isinstance(x.ctx, (ast.Store, ast.Del)):
            stores[x.id] = stores.get(x.id, 0) + 1
        elif isinstance(x, ast.arg):
            stores[x.arg] = stores.get(x.arg, 0) + 100
    cand: Dict[str, Set[str]] = {}
    good: Dict[str, int] = {}
    for x in ast.walk(fn):
        if isinstance(x, ast.Assign) and len(x.targets) == 1 and isinstance(x.targets[0], ast.Name) and isinstance(x.value, ast.Call):
            t, f = x.targets[0].id, x.value.func
            if isinstance(f, ast.Name) and (f.id in classes or (f.id == "cls" and is_classmethod and cur_cls in classes)):
                cand.setdefault(t, set()).add(cur_cls if f.id == "cls" else f.id)
                good[t] = good.get(t, 0) + 1
    out = {t: next(iter(cs)) for t, cs in cand.items() if len(cs) == 1}
    for x in ast.walk(fn):
        if isinstance(x, ast.Assign) and len(x.targets) == 1 and isinstance(x.targets[0], ast.Name) and isinstance(x.value, ast.Call):
            t, f = x.targets[0].id, x.value.func
            if t in out and isinstance(f, ast.Attribute) and isinstance(f.value, ast.Name) and out.get(f.value.id) == out[t] and (out[t], f.attr) in helpers:
                good[t] = good.get(t, 0) + 1
    return {t: c for t, c in out.items() if good.get(t, 0) == stores.get(t, 0)}


_BASES: Dict[str, List[str]] = {}
_METHODS: Dict[str, Set[str]] = {}


def _bind(h: _Helper, call: ast.Call, caller_names: Set[str], counter: List[int]) -> Optional[Tuple[List[ast.stmt], Dict[str, ast.expr], Dict[str, str]]]:
    params = h.params()
    if any(isinstance(a, ast.Starred) for a in call.args) or any(k.arg is None for k in call.keywords):
        return None
    if len(call.args) > len(params):
        return None
    actual: Dict[str, ast.expr] = {}
    for (p, _), a in zip(params, call.args):
        actual[p] = a
    names = [p for (p, _) in params]
    kwextra: Dict[str, ast.expr] = {}
    for k in call.keywords:
        if k.arg in actual:
            return None
        if k.arg not in names:
            if h.kwname is None:
                return None
            kwextra[k.arg] = k.value
            continue
        actual[k.arg] = k.value
    if h.kwname is not None:
        # every options["k"] read in the body must be supplied at this call site
        for x in ast.walk(h.node):
            if isinstance(x, ast.Subscript) and isinstance(x.value, ast.Name) and x.value.id == h.kwname and isinstance(x.slice, ast.Constant) and x.slice.value not in kwextra:
                return None
    for (p, d) in params:
        if p not in actual:
            if d is None or not _immutable_default(d):
                return None  # (a mutable default is one object shared by all calls: not the same as a fresh one per call)
            actual[p] = d
    assigned = set()
    for st in h.body:
        assigned |= _assigned_names(st)
    pre: List[ast.stmt] = []
    subst: Dict[str, ast.expr] = {}
    rename: Dict[str, str] = {}
    counter[0] += 1
    tag = f"__{h.name.strip('_')}{counter[0]}"
    for (p, _) in params:
        a = actual[p]
        if _simple(a) and p not in assigned:
            subst[p] = a
        else:
            new = p if (p not in caller_names and p not in rename.values()) else p + tag
            rename[p] = new
            pre.append(ast.Assign(targets=[ast.Name(id=new, ctx=ast.Store())], value=copy.deepcopy(a)))
    for nm in assigned:
        if nm in dict(params):
            continue
        if nm in caller_names:
            rename[nm] = nm + tag
    h.last_kwmap = {}
    for kname, a in kwextra.items():
        if _simple(a):
            h.last_kwmap[kname] = a
        else:
            new = f"{kname}{tag}"
            pre.append(ast.Assign(targets=[ast.Name(id=new, ctx=ast.Store())], value=copy.deepcopy(a)))
            h.last_kwmap[kname] = ast.Name(id=new, ctx=ast.Load())
    return pre, subst, rename


class _KwExpand(ast.NodeTransformer):
    """options["k"] -> the keyword argument given at the call site; f(**options) -> f(k1=..., k2=...)"""

    def __init__(self, kwname: Optional[str], kwmap: Dict[str, ast.expr]):
        self.kwname = kwname
        self.kwmap = kwmap

    def visit_Subscript(self, node: ast.Subscript):
        if self.kwname and isinstance(node.value, ast.Name) and node.value.id == self.kwname and isinstance(node.slice, ast.Constant) and node.slice.value in self.kwmap:
            return copy.deepcopy(self.kwmap[node.slice.value])
        return self.generic_visit(node)

    def visit_Call(self, node: ast.Call):
        node = self.generic_visit(node)
        if self.kwname:
            new = []
            for k in node.keywords:
                if k.arg is None and isinstance(k.value, ast.Name) and k.value.id == self.kwname:
                    given = {x.arg for x in node.keywords if x.arg}
                    new += [ast.keyword(arg=a, value=copy.deepcopy(v)) for a, v in self.kwmap.items() if a not in given]
                else:
                    new.append(k)
            node.keywords = new
        return node


def _always_returns(stmts: List[ast.stmt]) -> bool:
    if not stmts:
        return False
    last = stmts[-1]
    if isinstance(last, (ast.Return, ast.Raise)):
        return True
    if isinstance(last, ast.If):
        return bool(last.orelse) and _always_returns(last.body) and _always_returns(last.orelse)
    if isinstance(last, ast.With):
        return _always_returns(last.body)
    if isinstance(last, ast.Try) and not last.orelse:
        return _always_returns(last.body) and all(_always_returns(h.body) for h in last.handlers)
    return False


def _tailify(stmts: List[ast.stmt], k) -> Optional[List[ast.stmt]]:
    """Rewrite a block whose `return`s are all in tail position (directly, under
    if/else, guard clauses `if c: ...return`, `with` bodies, try/finally bodies)
    so that every `return e` becomes the statements k(e) and control falls out of
    the end of the block instead.  None if some return is not in tail position
    (inside a loop, an except handler, ...)."""
    out: List[ast.stmt] = []
    for i, st in enumerate(stmts):
        rest = stmts[i + 1:]
        if isinstance(st, ast.Return):
            out.extend(k(st.value))
            return out  # anything after a return is dead
        has_ret = any(isinstance(x, ast.Return) for x in _walk_own(st))
        if not has_ret:
            out.append(st)
            continue
        if isinstance(st, ast.If):
            if rest and _always_returns(st.body) and not st.orelse:
                # guard clause: the remainder becomes the else branch
                b = _tailify(st.body, k)
                r = _tailify(rest, k)
                if b is None or r is None:
                    return None
                out.append(ast.If(test=st.test, body=b or [ast.Pass()], orelse=r))
                return out
            if rest and st.orelse and _always_returns(st.orelse) and not any(isinstance(x, ast.Return) for s2 in st.body for x in _walk_own(s2)):
                b = _tailify(st.body + rest, k)
                o = _tailify(st.orelse, k)
                if b is None or o is None:
                    return None
                out.append(ast.If(test=st.test, body=b or [ast.Pass()], orelse=o))
                return out
            if rest:
                if _always_returns([st]):
                    rest = []
                else:
                    return None
            b = _tailify(st.body, k)
            o = _tailify(st.orelse, k) if st.orelse else k(None)
            if b is None or o is None:
                return None
            out.append(ast.If(test=st.test, body=b or [ast.Pass()], orelse=o))
            return out
        if isinstance(st, ast.With):
            if rest and not _always_returns(st.body):
                return None
            b = _tailify(st.body, k)
            if b is None:
                return None
            out.append(ast.With(items=st.items, body=b or [ast.Pass()]))
            return out
        if isinstance(st, ast.Try) and not st.orelse:
            if any(isinstance(x, ast.Return) for s2 in st.finalbody for x in _walk_own(s2)):
                return None
            body_ret = any(isinstance(x, ast.Return) for s2 in st.body for x in _walk_own(s2))
            if rest and not _always_returns([st]):
                # `try: X = f() except E: return D` followed by more statements: the remainder moves into the try's
                # else-position only when the try body itself has no return (exceptions of the remainder stay uncaught)
                if body_ret:
                    return None
                hs = []
                for h in st.handlers:
                    if not _always_returns(h.body):
                        return None
                    hb = _tailify(h.body, k)
                    if hb is None:
                        return None
                    hs.append(ast.ExceptHandler(type=h.type, name=h.name, body=hb or [ast.Pass()]))
                r = _tailify(rest, k)
                if r is None:
                    return None
                out.append(ast.Try(body=st.body, handlers=hs, orelse=r, finalbody=st.finalbody))
                return out
            b = _tailify(st.body, k)
            if b is None:
                return None
            hs = []
            for h in st.handlers:
                hb = _tailify(h.body, k)
                if hb is None:
                    return None
                hs.append(ast.ExceptHandler(type=h.type, name=h.name, body=hb or [ast.Pass()]))
            out.append(ast.Try(body=b or [ast.Pass()], handlers=hs, orelse=[], finalbody=st.finalbody))
            return out
        return None
    out.extend(k(None))
    return out


def _inline_in_function(fn: ast.FunctionDef, cur_cls: Optional[str], helpers, counter, used: Set[Tuple[Optional[str], str]]) -> bool:
    changed = [False]
    caller_names = _assigned_names(fn)

    _RECV.clear()
    _RECV.update(_receiver_types(fn, helpers, cur_cls))

    def expand(call: ast.Call):
        h = _match_call(call, helpers, cur_cls)
        if h is None or not h.ok or h.node is fn:
            return None
        b = _bind(h, call, caller_names, counter)
        if b is None:
            return None
        f = call.func
        if isinstance(f, ast.Attribute) and isinstance(f.value, ast.Name) and f.value.id in _RECV and f.value.id not in ("self", "cls"):
            # a method of a record class called on a local record: `self` is that local
            pre, subst, rename = b
            if any(isinstance(x, ast.Name) and x.id == "self" and isinstance(x.ctx, ast.Store) for x in ast.walk(h.node)):
                return None
            subst = dict(subst)
            subst["self"] = ast.Name(id=f.value.id, ctx=ast.Load())
            b = (pre, subst, rename)
        return h, b

    def rewrite_block(stmts: List[ast.stmt]) -> List[ast.stmt]:
        out: List[ast.stmt] = []
        for st in stmts:
            # recurse into compound statements first
            for fld in ("body", "orelse", "finalbody"):
                sub = getattr(st, fld, None)
                if isinstance(sub, list) and sub and isinstance(sub[0], ast.stmt) and not isinstance(st, (ast.FunctionDef, ast.ClassDef)):
                    setattr(st, fld, rewrite_block(sub))
            if isinstance(st, ast.Try):
                for hd in st.handlers:
                    hd.body = rewrite_block(hd.body)
            call = None
            form = None
            if isinstance(st, ast.Assign) and isinstance(st.value, ast.Call):
                call, form = st.value, "assign"
            elif isinstance(st, ast.Return) and isinstance(st.value, ast.Call):
                call, form = st.value, "return"
            elif isinstance(st, ast.Expr) and isinstance(st.value, ast.Call):
                call, form = st.value, "expr"
            done = False
            if call is not None:
                ex = expand(call)
                if ex is not None:
                    h, (pre, subst, rename) = ex
                    body = [_Renamer(subst, rename).visit(_KwExpand(h.kwname, h.last_kwmap).visit(copy.deepcopy(s))) for s in h.body]
                    if form == "return":
                        out.extend(pre + body)
                        if not body or not isinstance(body[-1], ast.Return):
                            out.append(ast.Return(value=None))
                        done = True
                    elif form == "expr" and (h.no_value or h.final_return or h.single_expr):
                        if body and isinstance(body[-1], ast.Return):
                            last = body.pop()
                            if last.value is not None:
                                body.append(ast.Expr(value=last.value))
                        out.extend(pre + body)
                        done = True
                    elif form in ("assign", "expr") and not (h.final_return or h.single_expr or (form == "expr" and h.no_value)) and h.n_returns >= 1:
                        tgt_nodes = st.targets if form == "assign" else None

                        def k(e, tgt_nodes=tgt_nodes):
                            if tgt_nodes is None:
                                return [ast.Expr(value=e)] if e is not None and not isinstance(e, (ast.Constant, ast.Name)) else []
                            return [ast.Assign(targets=copy.deepcopy(tgt_nodes), value=e if e is not None else ast.Constant(value=None))]

                        tb = _tailify(body, k)
                        if tb is not None and not any(isinstance(x, ast.Return) for s2 in tb for x in _walk_own(s2)):
                            out.extend(pre + (tb or [ast.Pass()]))
                            body = tb
                            done = True
                    elif form == "assign" and (h.final_return or h.single_expr):
                        last = body.pop()
                        out.extend(pre + body)
                        tgt = st.targets[0] if len(st.targets) == 1 else None
                        val = last.value
                        if isinstance(tgt, ast.Tuple) and isinstance(val, ast.Tuple) and len(tgt.elts) == len(val.elts) and all(isinstance(t, ast.Name) for t in tgt.elts):
                            tnames = {t.id for t in tgt.elts}
                            vnames = {x.id for v in val.elts for x in ast.walk(v) if isinstance(x, ast.Name)}
                            if not (tnames & vnames):
                                for t, v in zip(tgt.elts, val.elts):
                                    if t.id == "_" and isinstance(v, (ast.Name, ast.Constant)):
                                        continue
                                    out.append(ast.Assign(targets=[t], value=v))
                                done = True
                        if not done:
                            out.append(ast.Assign(targets=st.targets, value=val))
                        done = True
                    if done:
                        used.add((h.cls, h.name))
                        changed[0] = True
                        caller_names.update(_assigned_names(ast.Module(body=out[-(len(pre) + len(body) + 1):], type_ignores=[])))
            if not done:
                out.append(st)
        return out

    fn.body = rewrite_block(fn.body)

    # expression-position calls of single-expression helpers
    class E(ast.NodeTransformer):
        def visit_FunctionDef(self, node):
            return node if node is not fn else self.generic_visit(node)

        def visit_Call(self, node: ast.Call):
            node = self.generic_visit(node)
            h = _match_call(node, helpers, cur_cls)
            if h is None or not h.ok or not h.single_expr or h.node is fn:
                return node
            params = h.params()
            b = _bind(h, node, caller_names, counter)
            if b is None:
                return node
            pre, subst, rename = b
            if pre:
                return node  # would need a binding statement
            f_ = node.func
            if isinstance(f_, ast.Attribute) and isinstance(f_.value, ast.Name) and f_.value.id in _RECV and f_.value.id not in ("self", "cls"):
                if any(isinstance(x, ast.Name) and x.id == "self" and isinstance(x.ctx, ast.Store) for x in ast.walk(h.node)):
                    return node
                subst = dict(subst)
                subst["self"] = ast.Name(id=f_.value.id, ctx=ast.Load())
            used.add((h.cls, h.name))
            changed[0] = True
            return _Renamer(subst, rename).visit(_KwExpand(h.kwname, h.last_kwmap).visit(copy.deepcopy(h.body[0].value)))

    E().visit(fn)
    return changed[0]


def _coalesce_aliases(fn: ast.FunctionDef) -> bool:
    """Copy propagation for the aliases that inlining leaves behind:

        a = <expr> ... b = a        (a, b plain local names)

    becomes `b = <expr> ...` with every `a` renamed to `b` when `a` and `b` each
    have exactly one binding in the function (the two shown), neither is a
    parameter, and `b` is not mentioned before the alias statement.  Pure
    renaming of a single-assignment local: behaviour preserving."""
    changed = False
    rejected: Set[Tuple[str, str]] = set()
    for _ in range(20):
        params = {a.arg for a in fn.args.args + fn.args.kwonlyargs + fn.args.posonlyargs}
        if fn.args.vararg:
            params.add(fn.args.vararg.arg)
        if fn.args.kwarg:
            params.add(fn.args.kwarg.arg)
        stores: Dict[str, int] = {}
        for x in ast.walk(fn):
            if isinstance(x, ast.Name) and isinstance(x.ctx, (ast.Store, ast.Del)):
                stores[x.id] = stores.get(x.id, 0) + 1
            elif isinstance(x, (ast.FunctionDef, ast.Lambda)) and x is not fn:
                stores["<nested>"] = 1
        if "<nested>" in stores:
            return changed
        cand = None

        def find(stmts):
            nonlocal cand
            for i, st in enumerate(stmts):
                if cand is not None:
                    return
                if isinstance(st, ast.Assign) and len(st.targets) == 1 and isinstance(st.targets[0], ast.Name) and isinstance(st.value, ast.Name):
                    b, a = st.targets[0].id, st.value.id
                    if a != b and a not in params and b not in params and stores.get(a, 0) >= 1 and stores.get(b) == 1 and (a, b) not in rejected:
                        # every binding of `a` lies textually before the alias statement, outside any loop that contains it
                        pos = (getattr(st, "lineno", 0), getattr(st, "col_offset", 0))
                        a_stores = [x for x in ast.walk(fn) if isinstance(x, ast.Name) and x.id == a and isinstance(x.ctx, (ast.Store, ast.Del))]
                        loops_of_alias = [lp for lp in ast.walk(fn) if isinstance(lp, (ast.For, ast.While)) and any(y is st for y in ast.walk(lp))]
                        # inside a loop the alias is still a pure renaming when every binding of `a` happens in the same
                        # loop(s), earlier in the iteration
                        in_loop = any(not all(any(y is x for y in ast.walk(lp)) for x in a_stores) for lp in loops_of_alias)
                        if all((getattr(x, "lineno", 10**9), getattr(x, "col_offset", 0)) < pos for x in a_stores) and not in_loop and (stores.get(a) == 1 or "__" in a):
                            cand = (stmts, i, a, b, st)
                            return
                        rejected.add((a, b))
                for fld in ("body", "orelse", "finalbody"):
                    sub = getattr(st, fld, None)
                    if isinstance(sub, list) and sub and isinstance(sub[0], ast.stmt):
                        find(sub)
                if isinstance(st, ast.Try):
                    for h in st.handlers:
                        find(h.body)

        find(fn.body)
        if cand is None:
            return changed
        stmts, i, a, b, st = cand
        # `b` must not be mentioned anywhere but in the alias statement's target ... before it (single store => only loads matter)
        order = [x for x in ast.walk(fn)]
        first_b_load = min((getattr(x, "lineno", 10**9), getattr(x, "col_offset", 0)) for x in order if isinstance(x, ast.Name) and x.id == b and isinstance(x.ctx, ast.Load)) \
            if any(isinstance(x, ast.Name) and x.id == b and isinstance(x.ctx, ast.Load) for x in order) else (10**9, 0)
        if first_b_load < (getattr(st, "lineno", 0), getattr(st, "col_offset", 0)):
            # b read before the alias statement (would now see a's value): leave it
            rejected.add((a, b))
            continue
        del stmts[i]
        if not stmts:
            stmts.append(ast.Pass())
        for x in ast.walk(fn):
            if isinstance(x, ast.Name) and x.id == a:
                x.id = b
        changed = True
    return changed


_RECORD_DEFAULTS: Dict[str, Dict[str, ast.expr]] = {}


def _namedtuple_table(tree: ast.Module) -> Dict[str, List[str]]:
    out: Dict[str, List[str]] = {}
    for st in tree.body:
        if isinstance(st, ast.Assign) and len(st.targets) == 1 and isinstance(st.targets[0], ast.Name) and isinstance(st.value, ast.Call):
            f = st.value.func
            nm = f.id if isinstance(f, ast.Name) else (f.attr if isinstance(f, ast.Attribute) else "")
            if nm == "namedtuple" and len(st.value.args) >= 2:
                a = st.value.args[1]
                if isinstance(a, (ast.List, ast.Tuple)) and all(isinstance(e, ast.Constant) and isinstance(e.value, str) for e in a.elts):
                    out[st.targets[0].id] = [e.value for e in a.elts]
                elif isinstance(a, ast.Constant) and isinstance(a.value, str):
                    out[st.targets[0].id] = a.value.replace(",", " ").split()
        elif isinstance(st, ast.ClassDef) and any((isinstance(b, ast.Name) and b.id == "NamedTuple") or (isinstance(b, ast.Attribute) and b.attr == "NamedTuple") for b in st.bases):
            # (methods of a record class are helpers of their own: a call that is left over blocks the scalar replacement)
            out[st.name] = [x.target.id for x in st.body if isinstance(x, ast.AnnAssign) and isinstance(x.target, ast.Name)]
        elif isinstance(st, ast.ClassDef) and not st.bases and not st.decorator_list:
            # a plain record class: __init__(self, a, b, c) that stores exactly its parameters (`self.a = a` ...), nothing else
            init = next((x for x in st.body if isinstance(x, ast.FunctionDef) and x.name == "__init__"), None)
            if init is None or init.args.vararg or init.args.kwarg or init.args.kwonlyargs or init.args.posonlyargs:
                continue
            params = [a.arg for a in init.args.args[1:]]
            body = [x for x in init.body if not (isinstance(x, ast.Expr) and isinstance(x.value, ast.Constant))]
            stored = []
            ok = True
            for x in body:
                if isinstance(x, ast.AnnAssign) and x.value is not None:
                    x = ast.Assign(targets=[x.target], value=x.value)
                if isinstance(x, ast.Assign) and len(x.targets) == 1 and isinstance(x.targets[0], ast.Attribute) and isinstance(x.targets[0].value, ast.Name) and x.targets[0].value.id == "self" \
                        and isinstance(x.value, ast.Name) and x.value.id == x.targets[0].attr and x.value.id in params:
                    stored.append(x.value.id)
                else:
                    ok = False
            dflt = list(init.args.defaults)
            if ok and params and sorted(stored) == sorted(params) and all(isinstance(d, ast.Constant) for d in dflt):
                out[st.name] = params
                _RECORD_DEFAULTS[st.name] = dict(zip(params[len(params) - len(dflt):], dflt)) if dflt else {}
    return out


_LIBRARY_METHOD_NAMES = (set(dir(dict)) | set(dir(list)) | set(dir(tuple)) | set(dir(str)) | set(dir(set)) | set(dir(float)) | {
    "all", "any", "argmax", "argmin", "argsort", "astype", "clip", "conj", "cumsum", "cumprod", "diagonal", "dot", "fill", "flatten", "item", "max", "mean", "min",
    "nonzero", "prod", "ravel", "repeat", "reshape", "resize", "round", "squeeze", "std", "sum", "swapaxes", "take", "tolist", "tobytes", "trace", "transpose", "var",
    "view", "close", "read", "write", "flush", "map", "apply", "run", "fit", "predict", "update_stats", "update_iter"})


def _record_classes_to_tuples(tree: ast.Module, modname: str, table: Set[str]) -> List[str]:
    """A new plain record class (`__init__` stores exactly its parameters; every other method is a parameterless
    one-expression view of the fields) whose instances are only ever built by direct constructor calls and used through
    those methods: instances become tuples of the fields (`R(a, b)` -> `(a, b)`, `x.m()` -> the method's expression
    over `x[i]`), so that records kept in containers read like the tuples they stand for."""
    done: List[str] = []
    nts = _namedtuple_table(tree)
    classes = {c.name: c for c in tree.body if isinstance(c, ast.ClassDef)}
    for R, cls in list(classes.items()):
        if R not in nts or cls.bases or cls.decorator_list or any(q.startswith(f"{modname}:{R}.") or q == f"{modname}:{R}" for q in table):
            continue
        fields = nts[R]
        defaults = _RECORD_DEFAULTS.get(R, {})
        methods: Dict[str, ast.expr] = {}
        ok = True
        for x in cls.body:
            if isinstance(x, ast.Expr) and isinstance(x.value, ast.Constant):
                continue
            if isinstance(x, ast.Assign) and len(x.targets) == 1 and isinstance(x.targets[0], ast.Name) and x.targets[0].id == "__slots__":
                continue
            if isinstance(x, ast.FunctionDef) and x.name == "__init__":
                continue
            if isinstance(x, ast.FunctionDef) and not x.name.startswith("__") and not x.decorator_list and [a.arg for a in x.args.args] == ["self"] \
                    and not (x.args.vararg or x.args.kwarg or x.args.kwonlyargs):
                body = [b for b in x.body if not (isinstance(b, ast.Expr) and isinstance(b.value, ast.Constant))]
                if len(body) == 1 and isinstance(body[0], ast.Return) and body[0].value is not None:
                    e = body[0].value
                    selfs = [n for n in ast.walk(e) if isinstance(n, ast.Name) and n.id == "self"]
                    attrs = [n for n in ast.walk(e) if isinstance(n, ast.Attribute) and isinstance(n.value, ast.Name) and n.value.id == "self"]
                    if len(selfs) == len(attrs) and all(a.attr in fields and isinstance(a.ctx, ast.Load) for a in attrs) and not any(isinstance(n, (ast.Lambda, ast.NamedExpr, ast.Yield, ast.Await)) for n in ast.walk(e)):
                        methods[x.name] = e
                        continue
            ok = False
            break
        if not ok or any(m in _LIBRARY_METHOD_NAMES or m in fields for m in methods):
            continue
        if any(m in {y.name for y in c2.body if isinstance(y, ast.FunctionDef)} for m in methods for c2 in classes.values() if c2 is not cls):
            continue
        inside = {id(n) for n in ast.walk(cls)}
        outside = [n for n in ast.walk(tree) if id(n) not in inside]
        parents: Dict[int, ast.AST] = {}
        for p_ in outside:
            for c_ in ast.iter_child_nodes(p_):
                parents[id(c_)] = p_
        ctor_calls = []
        for n in outside:
            if isinstance(n, ast.Name) and n.id == R:
                par = parents.get(id(n))
                if not (isinstance(par, ast.Call) and par.func is n):
                    ok = False
                    break
                if any(isinstance(a, ast.Starred) for a in par.args) or any(k.arg is None or k.arg not in fields for k in par.keywords) or len(par.args) > len(fields):
                    ok = False
                    break
                got = set(fields[:len(par.args)]) | {k.arg for k in par.keywords}
                if len(got) != len(par.args) + len(par.keywords) or any(f not in got and f not in defaults for f in fields):
                    ok = False
                    break
                ctor_calls.append(par)
            elif isinstance(n, ast.Constant) and n.value == R:
                ok = False
                break
        if not ok or not ctor_calls:
            continue
        method_calls = []
        for n in outside:
            if not isinstance(n, ast.Attribute):
                continue
            if n.attr in methods:
                par = parents.get(id(n))
                if not (isinstance(par, ast.Call) and par.func is n and not par.args and not par.keywords) or not _pure_place(n.value):
                    ok = False
                    break
                method_calls.append(par)
            elif n.attr in fields and not (isinstance(n.value, ast.Name) and n.value.id == "self"):
                ok = False  # a field read on something that may be a record: not decided here
                break
        if not ok:
            continue
        for c in ctor_calls:
            vals = {f: a for f, a in zip(fields, c.args)}
            vals.update({k.arg: k.value for k in c.keywords})
            # evaluation order: positional then keywords as written; only reorder when the keyword values are simple
            kw_order = [k.arg for k in c.keywords]
            if kw_order != [f for f in fields if f in kw_order] and not all(_simple(k.value) or isinstance(k.value, ast.Constant) for k in c.keywords):
                ok = False
                break
        if not ok:
            continue
        repl: Dict[int, ast.expr] = {}
        for c in ctor_calls:
            vals = {f: a for f, a in zip(fields, c.args)}
            vals.update({k.arg: k.value for k in c.keywords})
            repl[id(c)] = ast.Tuple(elts=[vals[f] if f in vals else copy.deepcopy(defaults[f]) for f in fields], ctx=ast.Load())
        for c in method_calls:
            recv = c.func.value

            class Sub(ast.NodeTransformer):
                def visit_Attribute(self, node):
                    if isinstance(node.value, ast.Name) and node.value.id == "self":
                        return ast.Subscript(value=copy.deepcopy(recv), slice=ast.Constant(value=fields.index(node.attr)), ctx=ast.Load())
                    return self.generic_visit(node)

            mexpr = methods[c.func.attr]
            if isinstance(mexpr, ast.Tuple) and [ast.unparse(x) for x in mexpr.elts] == [f"self.{f}" for f in fields]:
                repl[id(c)] = copy.deepcopy(recv)  # the whole record
            else:
                repl[id(c)] = Sub().visit(copy.deepcopy(mexpr))

        class Rw(ast.NodeTransformer):
            def visit_Call(self, node):
                self.generic_visit(node)
                r = repl.get(id(node))
                if r is not None:
                    if isinstance(r, ast.Tuple):
                        r.elts = [self.visit(e) if id(e) in repl else e for e in r.elts]
                    return ast.copy_location(r, node)
                return node

            def visit_ClassDef(self, node):
                return node if node is cls else self.generic_visit(node)

        Rw().visit(tree)
        tree.body = [x for x in tree.body if x is not cls]
        done.append(f"{modname}:{R} <record class written as tuples>")
    if done:
        ast.fix_missing_locations(tree)
    return done


def _pure_place(e: ast.expr) -> bool:
    """name / attribute / constant-or-name subscript chains: reading them twice gives the same object"""
    if isinstance(e, ast.Name):
        return True
    if isinstance(e, ast.Attribute):
        return _pure_place(e.value)
    if isinstance(e, ast.Subscript):
        return _pure_place(e.value) and (isinstance(e.slice, (ast.Constant, ast.Name)) or (isinstance(e.slice, ast.Tuple) and all(isinstance(x, (ast.Constant, ast.Name)) for x in e.slice.elts)))
    return False


def _inline_record_constants(tree: ast.Module, nts: Dict[str, List[str]]) -> bool:
    """`x = CONST` with `CONST = NT(<literals>)` a module-level record constant -> `x = NT(<literals>)` (records are immutable)."""
    consts: Dict[str, ast.Call] = {}
    count: Dict[str, int] = {}
    for st in tree.body:
        if isinstance(st, ast.Assign):
            for t in st.targets:
                if isinstance(t, ast.Name):
                    count[t.id] = count.get(t.id, 0) + 1
    for st in tree.body:
        if isinstance(st, ast.Assign) and len(st.targets) == 1 and isinstance(st.targets[0], ast.Name) and count.get(st.targets[0].id) == 1 and isinstance(st.value, ast.Call) \
                and isinstance(st.value.func, ast.Name) and st.value.func.id in nts:
            args = list(st.value.args) + [k.value for k in st.value.keywords]
            if all(isinstance(a, ast.Constant) or (isinstance(a, ast.UnaryOp) and isinstance(a.operand, (ast.Constant, ast.Attribute, ast.Name))) or (isinstance(a, ast.Attribute) and _simple(a)) for a in args):
                consts[st.targets[0].id] = st.value
    if not consts:
        return False
    changed = False
    for fn in ast.walk(tree):
        if not isinstance(fn, ast.FunctionDef):
            continue
        local = _assigned_names(fn)
        for x in ast.walk(fn):
            if isinstance(x, ast.Assign) and isinstance(x.value, ast.Name) and x.value.id in consts and x.value.id not in local:
                x.value = copy.deepcopy(consts[x.value.id])
                changed = True
    return changed


def _never_none(e: ast.expr) -> bool:
    """syntactically not None: a display, a comprehension, arithmetic, a formatted string, a non-None constant"""
    return isinstance(e, (ast.Tuple, ast.List, ast.Dict, ast.Set, ast.ListComp, ast.SetComp, ast.DictComp, ast.BinOp, ast.JoinedStr, ast.Compare)) \
        or (isinstance(e, ast.Constant) and e.value is not None)


def _none_witness_field(fn: ast.FunctionDef, r: str, nt: str, fields: List[str]) -> Optional[str]:
    """For a local that is None or a record: a field whose value is never None whenever the record exists (in every
    constructor call bound to r), so that `r is None` is `r__<field> is None`."""
    ctors = [x.value for x in ast.walk(fn) if isinstance(x, ast.Assign) and len(x.targets) == 1 and isinstance(x.targets[0], ast.Name) and x.targets[0].id == r
             and isinstance(x.value, ast.Call) and isinstance(x.value.func, ast.Name) and x.value.func.id == nt]
    if not ctors or any(any(isinstance(a, ast.Starred) for a in c.args) for c in ctors):
        return None
    for f in fields:
        good = True
        for c in ctors:
            vals = {g: a for g, a in zip(fields, c.args)}
            vals.update({k.arg: k.value for k in c.keywords if k.arg})
            if f not in vals or not _never_none(vals[f]):
                good = False
                break
        if good:
            return f
    return None


def _record_ok(fn: ast.FunctionDef, r: str, rec_vars: Dict[str, str], nts: Dict[str, List[str]]):
    """(every occurrence of the record variable r fits a replaceable pattern, list variables that collect r)"""
    nt = rec_vars[r]
    fields = nts[nt]
    # list variables that receive r via append
    lists = {x.func.value.id for x in ast.walk(fn) if isinstance(x, ast.Call) and isinstance(x.func, ast.Attribute) and x.func.attr == "append" and isinstance(x.func.value, ast.Name)
             and len(x.args) == 1 and isinstance(x.args[0], ast.Name) and x.args[0].id == r}
    ok = True
    # classify every occurrence of r
    parents = {}
    for p_ in ast.walk(fn):
        for c_ in ast.iter_child_nodes(p_):
            parents[c_] = p_
    for x in ast.walk(fn):
        if isinstance(x, ast.Name) and x.id == r:
            par = parents.get(x)
            if isinstance(par, ast.Attribute) and par.value is x and (par.attr in fields or par.attr == "_replace"):
                if par.attr == "_replace":
                    call = parents.get(par)
                    asg = parents.get(call)
                    if not (isinstance(call, ast.Call) and call.func is par and not call.args and all(k.arg in fields for k in call.keywords)
                            and isinstance(asg, ast.Assign) and len(asg.targets) == 1 and isinstance(asg.targets[0], ast.Name) and asg.targets[0].id == r):
                        ok = False
                continue
            if isinstance(par, ast.Assign) and par.value is x and len(par.targets) == 1 and isinstance(par.targets[0], ast.Name) and rec_vars.get(par.targets[0].id) == nt and par.targets[0].id != r:
                continue  # `q = r`: q is a record variable of the same group
            if isinstance(par, ast.Compare) and par.left is x and len(par.ops) == 1 and isinstance(par.ops[0], (ast.Is, ast.IsNot)) \
                    and isinstance(par.comparators[0], ast.Constant) and par.comparators[0].value is None:
                if _none_witness_field(fn, r, nt, fields) is None:
                    ok = False
                continue  # `r is None` / `r is not None`: read off the witness field
            if isinstance(par, ast.Assign) and x in par.targets:
                v = par.value
                if isinstance(v, ast.Constant) and v.value is None and len(par.targets) == 1:
                    if _none_witness_field(fn, r, nt, fields) is None:
                        ok = False
                    continue  # `r = None`: no record (every field None)
                if isinstance(v, ast.Name) and rec_vars.get(v.id) == nt and v.id != r and len(par.targets) == 1:
                    continue  # `r = q`
                if isinstance(v, ast.Call) and isinstance(v.func, ast.Name) and v.func.id == nt:
                    if len(v.args) == 1 and isinstance(v.args[0], ast.Starred) and not v.keywords:
                        continue
                    if not any(isinstance(a, ast.Starred) for a in v.args) and len(v.args) + len(v.keywords) == len(fields) and all(k.arg in fields for k in v.keywords):
                        # written out field by field: a later field must not read an earlier field of the old record
                        vals_ = {f: a for f, a in zip(fields, v.args)}
                        vals_.update({k.arg: k.value for k in v.keywords})
                        for i_, f_ in enumerate(fields):
                            for y in ast.walk(vals_[f_]):
                                if isinstance(y, ast.Attribute) and isinstance(y.value, ast.Name) and y.value.id == r and y.attr in fields[:i_]:
                                    ok = False
                        continue
                if isinstance(v, ast.Call) and isinstance(v.func, ast.Attribute) and v.func.attr == "_replace":
                    continue
                ok = False
                continue
            if isinstance(par, ast.Call) and isinstance(par.func, ast.Attribute) and par.func.attr == "append" and isinstance(par.func.value, ast.Name) and par.func.value.id in lists and isinstance(parents.get(par), ast.Expr):
                continue
            ok = False
    # classify every occurrence of the list variables
    for L in lists:
        for x in ast.walk(fn):
            if isinstance(x, ast.Name) and x.id == L:
                par = parents.get(x)
                if isinstance(par, ast.Assign) and x in par.targets and isinstance(par.value, ast.List) and not par.value.elts:
                    continue
                if isinstance(par, ast.Attribute) and par.attr == "append":
                    continue
                if isinstance(par, ast.comprehension) and par.iter is x and isinstance(par.target, ast.Name) and not par.ifs:
                    lc = parents.get(par)
                    if isinstance(lc, ast.ListComp) and len(lc.generators) == 1 and isinstance(lc.elt, ast.Attribute) and isinstance(lc.elt.value, ast.Name) and lc.elt.value.id == par.target.id and lc.elt.attr in fields:
                        continue
                ok = False
    return ok, lists


def _scalar_replace_records(fn: ast.FunctionDef, nts: Dict[str, List[str]]) -> bool:
    """Scalar replacement of a local named-tuple record (and of a local list of such
    records that is only appended to and projected field-wise):

        r = NT(*call)                 r__a, r__b = call
        r = NT(a=x, b=y) / NT(x, y)   r__a = x; r__b = y
        r = r._replace(b=v)           r__b = v
        r.a                           r__a
        rs = []                       rs__a = []; rs__b = []
        rs.append(r)                  rs__a.append(r__a); rs__b.append(r__b)
        [q.a for q in rs]             rs__a

    Applied only when every occurrence of the names fits one of these patterns
    (the record never escapes as a whole)."""
    if not nts:
        return False
    # candidate record variables: assigned from NT(...) somewhere
    rec_vars: Dict[str, str] = {}
    for x in ast.walk(fn):
        if isinstance(x, ast.Assign) and len(x.targets) == 1 and isinstance(x.targets[0], ast.Name) and isinstance(x.value, ast.Call) and isinstance(x.value.func, ast.Name) and x.value.func.id in nts:
            rec_vars[x.targets[0].id] = x.value.func.id
    if not rec_vars:
        return False
    # constructor calls that leave defaulted fields out are completed first
    for x in ast.walk(fn):
        if isinstance(x, ast.Call) and isinstance(x.func, ast.Name) and x.func.id in nts and _RECORD_DEFAULTS.get(x.func.id) and not any(isinstance(a, ast.Starred) for a in x.args):
            fields_ = nts[x.func.id]
            given = set(fields_[: len(x.args)]) | {k.arg for k in x.keywords if k.arg}
            for f_, d_ in _RECORD_DEFAULTS[x.func.id].items():
                if f_ not in given:
                    x.keywords.append(ast.keyword(arg=f_, value=copy.deepcopy(d_)))
    # names bound to another record variable are record variables too
    for _ in range(4):
        for x in ast.walk(fn):
            if isinstance(x, ast.Assign) and len(x.targets) == 1 and isinstance(x.targets[0], ast.Name) and isinstance(x.value, ast.Name) and x.value.id in rec_vars and x.targets[0].id not in rec_vars:
                rec_vars[x.targets[0].id] = rec_vars[x.value.id]
    changed = False
    # a record bound to another record (`r = q`) is replaced only together with it
    partners: Dict[str, Set[str]] = {r: set() for r in rec_vars}
    for x in ast.walk(fn):
        if isinstance(x, ast.Assign) and len(x.targets) == 1 and isinstance(x.targets[0], ast.Name) and isinstance(x.value, ast.Name) and x.targets[0].id in rec_vars and x.value.id in rec_vars \
                and rec_vars[x.targets[0].id] == rec_vars[x.value.id]:
            partners[x.targets[0].id].add(x.value.id)
            partners[x.value.id].add(x.targets[0].id)
    if any(partners.values()):
        # decide the whole alias group first (dry run of the classification below)
        verdict = {r: _record_ok(fn, r, rec_vars, nts)[0] for r in rec_vars}
        for _ in range(len(rec_vars) + 1):
            for r in rec_vars:
                if verdict[r] and any(not verdict[q] for q in partners[r]):
                    verdict[r] = False
        for r in list(rec_vars):
            if not verdict[r]:
                del rec_vars[r]
    for r, nt in list(rec_vars.items()):
        fields = nts[nt]
        ok, lists = _record_ok(fn, r, rec_vars, nts)
        if not ok:
            continue

        def nm(base, f):
            return f"{base}__{f}"

        class Rw(ast.NodeTransformer):
            def visit_FunctionDef(self, node):
                return self.generic_visit(node) if node is fn else node

            def visit_Attribute(self, node):
                node = self.generic_visit(node)
                if isinstance(node.value, ast.Name) and node.value.id == r and node.attr in fields:
                    return ast.Name(id=nm(r, node.attr), ctx=node.ctx)
                return node

            def visit_Compare(self, node):
                if isinstance(node.left, ast.Name) and node.left.id == r and len(node.ops) == 1 and isinstance(node.ops[0], (ast.Is, ast.IsNot)) \
                        and isinstance(node.comparators[0], ast.Constant) and node.comparators[0].value is None:
                    w = _none_witness_field(fn, r, nt, fields)
                    if w is not None:
                        return ast.copy_location(ast.Compare(left=ast.Name(id=nm(r, w), ctx=ast.Load()), ops=node.ops, comparators=node.comparators), node)
                return self.generic_visit(node)

            def visit_ListComp(self, node):
                g = node.generators[0] if len(node.generators) == 1 else None
                if g is not None and isinstance(g.iter, ast.Name) and g.iter.id in lists and isinstance(node.elt, ast.Attribute):
                    return ast.Name(id=nm(g.iter.id, node.elt.attr), ctx=ast.Load())
                return self.generic_visit(node)

        def rewrite(stmts):
            out = []
            for st in stmts:
                for fld in ("body", "orelse", "finalbody"):
                    sub = getattr(st, fld, None)
                    if isinstance(sub, list) and sub and isinstance(sub[0], ast.stmt) and not isinstance(st, (ast.FunctionDef, ast.ClassDef)):
                        setattr(st, fld, rewrite(sub))
                if isinstance(st, ast.Try):
                    for h in st.handlers:
                        h.body = rewrite(h.body)
                if isinstance(st, ast.Assign) and len(st.targets) == 1 and isinstance(st.targets[0], ast.Name):
                    t, v = st.targets[0].id, st.value
                    if t == r and isinstance(v, ast.Constant) and v.value is None:
                        for f in fields:
                            out.append(ast.copy_location(ast.Assign(targets=[ast.Name(id=nm(r, f), ctx=ast.Store())], value=ast.Constant(value=None)), st))
                        continue
                    if t == r and isinstance(v, ast.Call) and isinstance(v.func, ast.Name) and v.func.id == nt:
                        if len(v.args) == 1 and isinstance(v.args[0], ast.Starred):
                            out.append(ast.Assign(targets=[ast.Tuple(elts=[ast.Name(id=nm(r, f), ctx=ast.Store()) for f in fields], ctx=ast.Store())], value=Rw().visit(v.args[0].value)))
                        else:
                            vals = {f: a for f, a in zip(fields, v.args)}
                            vals.update({k.arg: k.value for k in v.keywords})
                            for f in fields:
                                out.append(ast.Assign(targets=[ast.Name(id=nm(r, f), ctx=ast.Store())], value=Rw().visit(vals[f])))
                        continue
                    if t == r and isinstance(v, ast.Name) and rec_vars.get(v.id) == nt:
                        for f in fields:
                            out.append(ast.Assign(targets=[ast.Name(id=nm(r, f), ctx=ast.Store())], value=ast.Attribute(value=ast.Name(id=v.id, ctx=ast.Load()), attr=f, ctx=ast.Load())))
                        continue
                    if t != r and rec_vars.get(t) == nt and isinstance(v, ast.Name) and v.id == r:
                        # `q = r` seen while r is being replaced: q is not yet replaced -> q = NT(r__a, r__b)
                        out.append(ast.Assign(targets=[ast.Name(id=t, ctx=ast.Store())], value=ast.Call(func=ast.Name(id=nt, ctx=ast.Load()), args=[ast.Name(id=nm(r, f), ctx=ast.Load()) for f in fields], keywords=[])))
                        continue
                    if t == r and isinstance(v, ast.Call) and isinstance(v.func, ast.Attribute) and v.func.attr == "_replace":
                        for k in v.keywords:
                            out.append(ast.Assign(targets=[ast.Name(id=nm(r, k.arg), ctx=ast.Store())], value=Rw().visit(k.value)))
                        continue
                    if t in lists and isinstance(v, ast.List) and not v.elts:
                        for f in fields:
                            out.append(ast.Assign(targets=[ast.Name(id=nm(t, f), ctx=ast.Store())], value=ast.List(elts=[], ctx=ast.Load())))
                        continue
                if isinstance(st, ast.Expr) and isinstance(st.value, ast.Call) and isinstance(st.value.func, ast.Attribute) and st.value.func.attr == "append" \
                        and isinstance(st.value.func.value, ast.Name) and st.value.func.value.id in lists and len(st.value.args) == 1 and isinstance(st.value.args[0], ast.Name) and st.value.args[0].id == r:
                    L = st.value.func.value.id
                    for f in fields:
                        out.append(ast.Expr(value=ast.Call(func=ast.Attribute(value=ast.Name(id=nm(L, f), ctx=ast.Load()), attr="append", ctx=ast.Load()),
                                                         args=[ast.Name(id=nm(r, f), ctx=ast.Load())], keywords=[])))
                    continue
                out.append(Rw().visit(st))
            return out

        fn.body = rewrite(fn.body)
        ast.fix_missing_locations(fn)
        changed = True
    return changed


def _inline_local_closures(fn: ast.FunctionDef) -> bool:
    """A zero-argument local closure with a single returned expression,

        def g(): return E
        ...  S[g()]  ...

    is replaced at its call sites by a hoisted binding `g_value = E; S[g_value]`
    when `g` is only ever called (never passed on), the call is the first
    evaluated call of its statement, and no free variable of E is re-bound after
    the definition of g.  (What remains after a helper that *takes* a callable has
    been inlined.)"""
    changed = False
    for i, st in enumerate(list(fn.body)):
        if not (isinstance(st, ast.FunctionDef) and not st.args.args and not st.args.vararg and not st.args.kwarg and not st.args.kwonlyargs and not st.decorator_list):
            continue
        body = [b for b in st.body if not (isinstance(b, ast.Expr) and isinstance(b.value, ast.Constant))]
        if len(body) != 1 or not isinstance(body[0], ast.Return) or body[0].value is None:
            continue
        g = st.name
        E = body[0].value
        refs = [x for x in ast.walk(fn) if isinstance(x, ast.Name) and x.id == g]
        calls = [x for x in ast.walk(fn) if isinstance(x, ast.Call) and isinstance(x.func, ast.Name) and x.func.id == g and not x.args and not x.keywords]
        if not calls or len(refs) != len(calls):
            continue
        free = {x.id for x in ast.walk(E) if isinstance(x, ast.Name)}
        def_pos = (st.lineno, st.col_offset) if hasattr(st, "lineno") else (0, 0)
        rebound = [x for x in ast.walk(fn) if isinstance(x, ast.Name) and isinstance(x.ctx, (ast.Store, ast.Del)) and x.id in free
                   and (getattr(x, "lineno", 0), getattr(x, "col_offset", 0)) > def_pos and not any(x is y for y in ast.walk(st))]
        if rebound:
            continue
        tmp = g + "_value"
        if any(isinstance(x, ast.Name) and x.id == tmp for x in ast.walk(fn)):
            continue
        ok = [True]

        def rewrite(stmts: List[ast.stmt]) -> List[ast.stmt]:
            out = []
            for s2 in stmts:
                if s2 is st:
                    continue  # drop the closure definition
                for fld in ("body", "orelse", "finalbody"):
                    sub = getattr(s2, fld, None)
                    if isinstance(sub, list) and sub and isinstance(sub[0], ast.stmt) and not isinstance(s2, (ast.FunctionDef, ast.ClassDef)):
                        setattr(s2, fld, rewrite(sub))
                if isinstance(s2, ast.Try):
                    for h in s2.handlers:
                        h.body = rewrite(h.body)
                # calls of g in the statement's own expressions (not in nested blocks)
                own = []
                for fld, val in ast.iter_fields(s2):
                    if fld in ("body", "orelse", "finalbody", "handlers"):
                        continue
                    vals = val if isinstance(val, list) else [val]
                    for v in vals:
                        if isinstance(v, ast.AST):
                            own += [x for x in ast.walk(v) if isinstance(x, ast.Call)]
                mine = [c for c in own if c in calls]
                if not mine:
                    out.append(s2)
                    continue
                if len(mine) != 1 or isinstance(s2, (ast.While, ast.For)):
                    ok[0] = False
                    out.append(s2)
                    continue
                # the closure call must be the first call evaluated in the statement
                first_call = own[0] if own else None
                order = sorted(own, key=lambda c: (getattr(c, "lineno", 0), getattr(c, "col_offset", 0)))
                inner_first = [c for c in order if not any((d is not c) and any(y is d for y in ast.walk(c)) for d in order if d is not c)]
                if not inner_first or inner_first[0] is not mine[0]:
                    ok[0] = False
                    out.append(s2)
                    continue

                class Sub(ast.NodeTransformer):
                    def visit_Call(self, node):
                        if node is mine[0]:
                            return ast.Name(id=tmp, ctx=ast.Load())
                        return self.generic_visit(node)

                out.append(ast.Assign(targets=[ast.Name(id=tmp, ctx=ast.Store())], value=copy.deepcopy(E)))
                out.append(Sub().visit(s2))
            return out

        backup = copy.deepcopy(fn.body)
        fn.body = rewrite(fn.body)
        if not ok[0]:
            fn.body = backup
            continue
        changed = True
        ast.fix_missing_locations(fn)
    return changed


def _beta_reduce_local_functions(fn: ast.FunctionDef) -> bool:
    """A local function that is a single expression of its parameters,

        def g(a, b): return E          g = lambda a, b: E

    and is only ever called directly with plain positional arguments is written out at its call sites (E with the
    arguments substituted), provided no free variable of E is re-bound after the definition."""
    changed = False
    for _ in range(6):
        cands = []
        for holder in ast.walk(fn):
            for fld in ("body", "orelse", "finalbody"):
                sub = getattr(holder, fld, None)
                if not (isinstance(sub, list) and sub and isinstance(sub[0], ast.stmt)):
                    continue
                if isinstance(holder, (ast.FunctionDef, ast.ClassDef)) and holder is not fn:
                    continue
                for st in sub:
                    if isinstance(st, ast.FunctionDef) and not st.decorator_list and not st.args.vararg and not st.args.kwarg and not st.args.kwonlyargs and not st.args.defaults:
                        body = [b for b in st.body if not (isinstance(b, ast.Expr) and isinstance(b.value, ast.Constant))]
                        if len(body) == 1 and isinstance(body[0], ast.Return) and body[0].value is not None:
                            cands.append((sub, st, st.name, [a.arg for a in st.args.args], body[0].value))
                    elif isinstance(st, ast.Assign) and len(st.targets) == 1 and isinstance(st.targets[0], ast.Name) and isinstance(st.value, ast.Lambda):
                        la = st.value.args
                        if not (la.vararg or la.kwarg or la.kwonlyargs or la.defaults):
                            cands.append((sub, st, st.targets[0].id, [a.arg for a in la.args], st.value.body))
        done_one = False
        for (block, st, g, params, E) in cands:
            if any(isinstance(x, (ast.Lambda, ast.ListComp, ast.SetComp, ast.DictComp, ast.GeneratorExp, ast.NamedExpr, ast.Yield, ast.Await)) for x in ast.walk(E)):
                continue
            stores = [x for x in ast.walk(fn) if (isinstance(x, ast.Name) and x.id == g and isinstance(x.ctx, ast.Store)) or (isinstance(x, ast.FunctionDef) and x.name == g and x is not fn)]
            if len(stores) != 1:
                continue
            refs = [x for x in ast.walk(fn) if isinstance(x, ast.Name) and x.id == g and isinstance(x.ctx, ast.Load)]
            calls = [x for x in ast.walk(fn) if isinstance(x, ast.Call) and isinstance(x.func, ast.Name) and x.func.id == g and not x.keywords and len(x.args) == len(params)
                     and not any(isinstance(a, ast.Starred) for a in x.args)]
            if not calls or len(refs) != len(calls) or any(y is c for c in calls for y in ast.walk(st)):
                continue
            uses = {p_: sum(1 for x in ast.walk(E) if isinstance(x, ast.Name) and x.id == p_) for p_ in params}
            if any(not _simple(a) and uses[p_] > 1 for c in calls for p_, a in zip(params, c.args)):
                continue
            free = {x.id for x in ast.walk(E) if isinstance(x, ast.Name)} - set(params)
            def_pos = (getattr(st, "lineno", 0), getattr(st, "col_offset", 0))
            rebound = [x for x in ast.walk(fn) if isinstance(x, ast.Name) and isinstance(x.ctx, (ast.Store, ast.Del)) and x.id in free
                       and (getattr(x, "lineno", 0), getattr(x, "col_offset", 0)) > def_pos and not any(x is y for y in ast.walk(st))]
            if rebound:
                continue
            # the call sites must see the caller's bindings of the free variables: not inside a nested scope that shadows them
            callset = {id(c) for c in calls}

            class Sub(ast.NodeTransformer):
                def visit_Call(self, node):
                    node = self.generic_visit(node)
                    if id(node) in callset:
                        return ast.copy_location(_Renamer(dict(zip(params, node.args)), {}).visit(copy.deepcopy(E)), node)
                    return node

            Sub().visit(fn)
            block.remove(st)
            if not block:
                block.append(ast.Pass())
            ast.fix_missing_locations(fn)
            changed = True
            done_one = True
            break
        if not done_one:
            break
    return changed


def _desugar_walrus_and_partial(fn: ast.FunctionDef) -> bool:
    """`if (m := E): ...` -> `m = E; if m: ...`;  `while T[(p := E)]: BODY` -> `while True: p = E; if not T[p]: break; BODY`
    (walrus expressions that are evaluated unconditionally, i.e. not under and/or/if-else/comprehension);
    `f = partial(g, a, k=v)` bound once and only called -> the calls `f(x)` become `g(a, x, k=v)`."""
    changed = [False]

    def unconditional_walruses(test: ast.expr):
        """NamedExpr nodes of `test` in evaluation order, or None if one of them is evaluated conditionally"""
        found = []
        ok = [True]

        def visit(e, cond):
            if isinstance(e, ast.NamedExpr):
                if cond:
                    ok[0] = False
                visit(e.value, cond)
                found.append(e)
                return
            if isinstance(e, ast.BoolOp):
                visit(e.values[0], cond)
                for v in e.values[1:]:
                    visit(v, True)
                return
            if isinstance(e, ast.IfExp):
                visit(e.test, cond)
                visit(e.body, True)
                visit(e.orelse, True)
                return
            if isinstance(e, (ast.ListComp, ast.SetComp, ast.DictComp, ast.GeneratorExp, ast.Lambda)):
                if any(isinstance(x, ast.NamedExpr) for x in ast.walk(e)):
                    ok[0] = False
                return
            for ch in ast.iter_child_nodes(e):
                if isinstance(ch, ast.expr):
                    visit(ch, cond)

        visit(test, False)
        return found if ok[0] else None

    class Strip(ast.NodeTransformer):
        def visit_NamedExpr(self, node):
            self.generic_visit(node)
            return ast.copy_location(ast.Name(id=node.target.id, ctx=ast.Load()), node)

    def rewrite(stmts):
        out = []
        for st in stmts:
            for fld in ("body", "orelse", "finalbody"):
                sub = getattr(st, fld, None)
                if isinstance(sub, list) and sub and isinstance(sub[0], ast.stmt) and not isinstance(st, (ast.FunctionDef, ast.ClassDef)):
                    setattr(st, fld, rewrite(sub))
            if isinstance(st, ast.Try):
                for hd in st.handlers:
                    hd.body = rewrite(hd.body)
            # `if a and (v := E) is not None and c: BODY` (no else): nested tests, the walrus under the conjuncts before it
            if isinstance(st, ast.If) and not st.orelse and isinstance(st.test, ast.BoolOp) and isinstance(st.test.op, ast.And) and any(isinstance(x, ast.NamedExpr) for x in ast.walk(st.test)) \
                    and unconditional_walruses(st.test) is None:
                vals = st.test.values
                i_ = next(i for i, v in enumerate(vals) if any(isinstance(x, ast.NamedExpr) for x in ast.walk(v)))
                if i_ > 0 and not any(isinstance(x, ast.NamedExpr) for v in vals[:i_] for x in ast.walk(v)):
                    outer_test = vals[0] if i_ == 1 else ast.BoolOp(op=ast.And(), values=vals[:i_])
                    rest = vals[i_] if len(vals) - i_ == 1 else ast.BoolOp(op=ast.And(), values=vals[i_:])
                    inner = ast.copy_location(ast.If(test=rest, body=st.body, orelse=[]), st)
                    st = ast.copy_location(ast.If(test=outer_test, body=rewrite([inner]), orelse=[]), st)
                    out.append(st)
                    changed[0] = True
                    continue
            if isinstance(st, (ast.If, ast.While)) and any(isinstance(x, ast.NamedExpr) for x in ast.walk(st.test)):
                ws = unconditional_walruses(st.test)
                # nested walruses: the inner one is assigned first (post-order), each exactly once
                if ws and not (isinstance(st, ast.While) and st.orelse):
                    assigns = [ast.copy_location(ast.Assign(targets=[ast.Name(id=w.target.id, ctx=ast.Store())], value=Strip().visit(copy.deepcopy(w.value))), st) for w in ws]
                    test = Strip().visit(st.test)
                    if isinstance(st, ast.If):
                        st.test = test
                        out.extend(assigns)
                        out.append(st)
                    else:
                        body = [b for b in st.body if not isinstance(b, ast.Pass)]
                        brk = ast.copy_location(ast.If(test=_negate(test), body=[ast.Break()], orelse=[]), st)
                        out.append(ast.copy_location(ast.While(test=ast.Constant(value=True), body=assigns + [brk] + body, orelse=[]), st))
                    changed[0] = True
                    continue
            out.append(st)
        return out

    fn.body = rewrite(fn.body)
    # partial objects that are only called
    for x in list(ast.walk(fn)):
        if not (isinstance(x, ast.Assign) and len(x.targets) == 1 and isinstance(x.targets[0], ast.Name) and isinstance(x.value, ast.Call)
                and ast.unparse(x.value.func).split(".")[-1] == "partial" and x.value.args and not any(isinstance(a, ast.Starred) for a in x.value.args) and all(k.arg for k in x.value.keywords)):
            continue
        f = x.targets[0].id
        stores = [y for y in ast.walk(fn) if isinstance(y, ast.Name) and y.id == f and isinstance(y.ctx, ast.Store)]
        loads = [y for y in ast.walk(fn) if isinstance(y, ast.Name) and y.id == f and isinstance(y.ctx, ast.Load)]
        calls = [y for y in ast.walk(fn) if isinstance(y, ast.Call) and isinstance(y.func, ast.Name) and y.func.id == f]
        pargs = x.value.args[1:]
        if len(stores) != 1 or len(loads) != len(calls) or not calls or not all(_simple(a) for a in pargs) or not all(_simple(k.value) for k in x.value.keywords):
            continue
        # the bound arguments are evaluated once at the partial() call: they must not be re-bound before the calls
        bound_names = {n.id for a in list(pargs) + [k.value for k in x.value.keywords] for n in ast.walk(a) if isinstance(n, ast.Name)} | {n.id for n in ast.walk(x.value.args[0]) if isinstance(n, ast.Name)}
        if any(isinstance(y, ast.Name) and y.id in bound_names and isinstance(y.ctx, (ast.Store, ast.Del)) and (getattr(y, "lineno", 0), getattr(y, "col_offset", 0)) > (x.lineno, x.col_offset) for y in ast.walk(fn)):
            continue
        for c in calls:
            if any(k.arg is None for k in c.keywords) or any(k.arg in {q.arg for q in x.value.keywords} for k in c.keywords):
                break
        else:
            for c in calls:
                c.func = copy.deepcopy(x.value.args[0])
                c.args = [copy.deepcopy(a) for a in pargs] + c.args
                c.keywords = [copy.deepcopy(k) for k in x.value.keywords] + c.keywords

            class Drop(ast.NodeTransformer):
                def visit_Assign(self, node):
                    return ast.Pass() if node is x else node

            Drop().visit(fn)
            changed[0] = True
    # a local alias of a bound method / function (`current = self.state.get_current`) that is only called
    for x in list(ast.walk(fn)):
        if not (isinstance(x, ast.Assign) and len(x.targets) == 1 and isinstance(x.targets[0], ast.Name) and isinstance(x.value, ast.Attribute) and _simple(x.value)):
            continue
        f = x.targets[0].id
        stores = [y for y in ast.walk(fn) if isinstance(y, ast.Name) and y.id == f and isinstance(y.ctx, ast.Store)]
        loads = [y for y in ast.walk(fn) if isinstance(y, ast.Name) and y.id == f and isinstance(y.ctx, ast.Load)]
        calls = [y for y in ast.walk(fn) if isinstance(y, ast.Call) and isinstance(y.func, ast.Name) and y.func.id == f]
        if len(stores) != 1 or not calls or len(loads) != len(calls) or f in {a.arg for a in fn.args.args}:
            continue
        base_names = {n.id for n in ast.walk(x.value) if isinstance(n, ast.Name)}
        # the object the method is looked up on must not be re-bound (nor the attribute path re-assigned) afterwards
        if any(isinstance(y, ast.Name) and y.id in base_names and isinstance(y.ctx, (ast.Store, ast.Del)) and (getattr(y, "lineno", 0), getattr(y, "col_offset", 0)) > (x.lineno, x.col_offset) for y in ast.walk(fn)):
            continue
        txt = ast.unparse(x.value)
        if any(isinstance(y, ast.Attribute) and isinstance(y.ctx, (ast.Store, ast.Del)) and txt.startswith(ast.unparse(y)) for y in ast.walk(fn)):
            continue
        for c in calls:
            c.func = copy.deepcopy(x.value)

        class DropA(ast.NodeTransformer):
            def visit_Assign(self, node):
                return ast.Pass() if node is x else node

        DropA().visit(fn)
        changed[0] = True
    if changed[0]:
        ast.fix_missing_locations(fn)
    return changed[0]


def _sink_call_into_branches(fn: ast.FunctionDef) -> bool:
    """`if c: f = A else: f = partial(B, k=v)` directly followed by the one use `r = f(args)`  ->  the call written
    into each branch (`r = A(args)` / `r = B(args, k=v)`): a callable chosen by a branch and called once."""
    changed = [False]

    def last_assign(block, f):
        if block and isinstance(block[-1], ast.Assign) and len(block[-1].targets) == 1 and isinstance(block[-1].targets[0], ast.Name) and block[-1].targets[0].id == f:
            return block[-1]
        if block and isinstance(block[-1], ast.If) and block[-1].orelse:
            a, b = last_assign(block[-1].body, f), last_assign(block[-1].orelse, f)
            if a is not None and b is not None:
                return (block[-1], a, b)
        return None

    def rewrite(stmts):
        for st in stmts:
            for fld in ("body", "orelse", "finalbody"):
                sub = getattr(st, fld, None)
                if isinstance(sub, list) and sub and isinstance(sub[0], ast.stmt) and not isinstance(st, (ast.FunctionDef, ast.ClassDef)):
                    setattr(st, fld, rewrite(sub))
            if isinstance(st, ast.Try):
                for hd in st.handlers:
                    hd.body = rewrite(hd.body)
        out = []
        i = 0
        while i < len(stmts):
            st = stmts[i]
            nxt = stmts[i + 1] if i + 1 < len(stmts) else None
            done = False
            if isinstance(st, ast.If) and st.orelse and nxt is not None and isinstance(nxt, (ast.Assign, ast.Return, ast.Expr)) and isinstance(nxt.value, ast.Call) and isinstance(nxt.value.func, ast.Name):
                f = nxt.value.func.id
                uses = [y for y in ast.walk(fn) if isinstance(y, ast.Name) and y.id == f]
                leaves = []

                def collect(block):
                    r = last_assign(block, f)
                    if r is None:
                        return False
                    if isinstance(r, tuple):
                        return collect(r[0].body) and collect(r[0].orelse)
                    leaves.append((block, r))
                    return True

                if collect(st.body) and collect(st.orelse) and len(uses) == len(leaves) + 1 and f not in {a.arg for a in fn.args.args} \
                        and not any(isinstance(y, ast.Name) and y.id == f for a in list(nxt.value.args) + [k.value for k in nxt.value.keywords] for y in ast.walk(a)):
                    ok = True
                    plans = []
                    for (block, asg) in leaves:
                        v = asg.value
                        call = copy.deepcopy(nxt.value)
                        if isinstance(v, ast.Call) and ast.unparse(v.func).split(".")[-1] == "partial" and v.args and all(k.arg for k in v.keywords) and not any(isinstance(a, ast.Starred) for a in v.args):
                            if {k.arg for k in v.keywords} & {k.arg for k in call.keywords}:
                                ok = False
                                break
                            call.func = v.args[0]
                            call.args = list(v.args[1:]) + call.args
                            call.keywords = call.keywords + list(v.keywords)
                        elif _simple(v):
                            call.func = v
                        else:
                            ok = False
                            break
                        new_st = copy.deepcopy(nxt)
                        new_st.value = call
                        plans.append((block, asg, new_st))
                    if ok:
                        for (block, asg, new_st) in plans:
                            block[-1] = ast.copy_location(new_st, asg)
                        out.append(st)
                        i += 2
                        changed[0] = True
                        done = True
            if not done:
                out.append(st)
                i += 1
        return out

    fn.body = rewrite(fn.body)
    if changed[0]:
        ast.fix_missing_locations(fn)
    return changed[0]


def _open_close_to_with(fn: ast.FunctionDef) -> bool:
    """`h = open(..)` directly followed by `try: BODY finally: h.close()`  ->  `with open(..) as h: BODY`."""
    changed = [False]

    def rewrite(stmts):
        for st in stmts:
            for fld in ("body", "orelse", "finalbody"):
                sub = getattr(st, fld, None)
                if isinstance(sub, list) and sub and isinstance(sub[0], ast.stmt) and not isinstance(st, (ast.FunctionDef, ast.ClassDef)):
                    setattr(st, fld, rewrite(sub))
            if isinstance(st, ast.Try):
                for hd in st.handlers:
                    hd.body = rewrite(hd.body)
        out = []
        i = 0
        while i < len(stmts):
            st = stmts[i]
            nxt = stmts[i + 1] if i + 1 < len(stmts) else None
            if isinstance(st, ast.Assign) and len(st.targets) == 1 and isinstance(st.targets[0], ast.Name) and isinstance(st.value, ast.Call) and ast.unparse(st.value.func) in ("open", "io.open") \
                    and isinstance(nxt, ast.Try) and not nxt.handlers and not nxt.orelse and len(nxt.finalbody) == 1 and isinstance(nxt.finalbody[0], ast.Expr) \
                    and ast.unparse(nxt.finalbody[0].value) == f"{st.targets[0].id}.close()":
                out.append(ast.copy_location(ast.With(items=[ast.withitem(context_expr=st.value, optional_vars=ast.Name(id=st.targets[0].id, ctx=ast.Store()))], body=nxt.body), st))
                changed[0] = True
                i += 2
                continue
            out.append(st)
            i += 1
        return out

    fn.body = rewrite(fn.body)
    return changed[0]


def _desugar_match(fn: ast.FunctionDef) -> bool:
    """`match subj:` over a plain name / attribute chain with simple patterns (None / True / False, literal values,
    `Class()` without sub-patterns, `_`, `... as name`, alternatives of these) -> the if / elif chain it abbreviates."""
    if not hasattr(ast, "Match"):
        return False
    changed = [False]

    def test_of(pat, subj):
        """(test expression or None for 'always', [names to bind to the subject])"""
        if isinstance(pat, ast.MatchSingleton):
            return ast.Compare(left=copy.deepcopy(subj), ops=[ast.Is()], comparators=[ast.Constant(value=pat.value)]), []
        if isinstance(pat, ast.MatchValue) and isinstance(pat.value, (ast.Constant, ast.Attribute, ast.UnaryOp)):
            return ast.Compare(left=copy.deepcopy(subj), ops=[ast.Eq()], comparators=[pat.value]), []
        if isinstance(pat, ast.MatchClass) and not pat.patterns and not pat.kwd_patterns:
            return ast.Call(func=ast.Name(id="isinstance", ctx=ast.Load()), args=[copy.deepcopy(subj), pat.cls], keywords=[]), []
        if isinstance(pat, ast.MatchAs):
            if pat.pattern is None:
                return None, ([pat.name] if pat.name else [])
            r = test_of(pat.pattern, subj)
            if r is None:
                return False
            t, names = r
            return t, names + ([pat.name] if pat.name else [])
        if isinstance(pat, ast.MatchOr):
            parts = [test_of(p_, subj) for p_ in pat.patterns]
            if any(r is False or r is None or r[0] is None or r[1] for r in parts):
                return False
            return ast.BoolOp(op=ast.Or(), values=[r[0] for r in parts]), []
        return False

    def rewrite(stmts):
        out = []
        for st in stmts:
            for fld in ("body", "orelse", "finalbody"):
                sub = getattr(st, fld, None)
                if isinstance(sub, list) and sub and isinstance(sub[0], ast.stmt) and not isinstance(st, (ast.FunctionDef, ast.ClassDef)):
                    setattr(st, fld, rewrite(sub))
            if isinstance(st, ast.Try):
                for hd in st.handlers:
                    hd.body = rewrite(hd.body)
            if isinstance(st, ast.Match):
                for c in st.cases:
                    c.body = rewrite(c.body)
                if _simple(st.subject) and all(c.guard is None for c in st.cases):
                    arms = []
                    ok = True
                    for c in st.cases:
                        r = test_of(c.pattern, st.subject)
                        if r is False:
                            ok = False
                            break
                        t, names = r
                        binds = [ast.copy_location(ast.Assign(targets=[ast.Name(id=n, ctx=ast.Store())], value=copy.deepcopy(st.subject)), st) for n in names]
                        arms.append((t, binds + c.body))
                    if ok and arms:
                        node = None
                        for (t, body) in reversed(arms):
                            if t is None:
                                node = body
                            else:
                                node = [ast.copy_location(ast.If(test=t, body=body, orelse=node or []), st)]
                        out.extend(node)
                        changed[0] = True
                        continue
            out.append(st)
        return out

    fn.body = rewrite(fn.body)
    if changed[0]:
        ast.fix_missing_locations(fn)
    return changed[0]


def _scalarise_local_objects(fn: ast.FunctionDef, classes: Dict[str, ast.ClassDef]) -> bool:
    """A local object of a small new class -- `r = C(args)` bound once, every other use a field access `r.x` (its
    methods already written out) -- is replaced by its fields as locals: the constructor's body with `self.x` -> `r__x`."""
    changed = False
    for st in list(ast.walk(fn)):
        if not (isinstance(st, ast.Assign) and len(st.targets) == 1 and isinstance(st.targets[0], ast.Name) and isinstance(st.value, ast.Call) and isinstance(st.value.func, ast.Name)
                and st.value.func.id in classes):
            continue
        r = st.targets[0].id
        cdef = classes[st.value.func.id]
        init = next((m for m in cdef.body if isinstance(m, ast.FunctionDef) and m.name == "__init__"), None)
        if init is None or cdef.bases or any(isinstance(x, ast.Return) and x.value is not None for x in ast.walk(init)):
            continue
        stores = [y for y in ast.walk(fn) if isinstance(y, ast.Name) and y.id == r and isinstance(y.ctx, ast.Store)]
        if len(stores) != 1 or r in {a.arg for a in fn.args.args}:
            continue
        parents = {}
        for p_ in ast.walk(fn):
            for c_ in ast.iter_child_nodes(p_):
                parents[id(c_)] = p_
        fields = set()
        ok = True
        for y in ast.walk(fn):
            if isinstance(y, ast.Name) and y.id == r and isinstance(y.ctx, ast.Load):
                par = parents.get(id(y))
                if isinstance(par, ast.Attribute) and par.value is y and not (isinstance(parents.get(id(par)), ast.Call) and parents[id(par)].func is par and par.attr in {m.name for m in cdef.body if isinstance(m, ast.FunctionDef)}):
                    fields.add(par.attr)
                else:
                    ok = False
        # the constructor: plain statements over self.<field> and its parameters
        for y in ast.walk(init):
            if isinstance(y, ast.Name) and y.id == "self":
                par_ok = any(isinstance(q, ast.Attribute) and q.value is y for q in ast.walk(init))
                if not par_ok:
                    ok = False
        if not ok:
            continue
        params = [a.arg for a in init.args.args[1:]]
        fake = ast.FunctionDef(name="__init__", args=init.args, body=init.body, decorator_list=[], returns=None)
        b = _bind_simple(fake, params, st.value, f"__{r}", _assigned_names(fn))
        if b is None:
            continue
        pre, ren = b

        class Fields(ast.NodeTransformer):
            def __init__(self, obj):
                self.obj = obj

            def visit_Attribute(self, node):
                node = self.generic_visit(node)
                if isinstance(node.value, ast.Name) and node.value.id == self.obj:
                    return ast.copy_location(ast.Name(id=f"{r}__{node.attr}", ctx=node.ctx), node)
                return node

        body = [x for x in init.body if not (isinstance(x, ast.Expr) and isinstance(x.value, ast.Constant))]
        new_init = pre + [Fields("self").visit(ren.visit(copy.deepcopy(x))) for x in body]
        for x in new_init:
            if isinstance(x, ast.AnnAssign) and x.value is not None:
                pass
        # annotated assignments `self.x: T = v` -> plain
        new_init = [ast.Assign(targets=[x.target], value=x.value) if isinstance(x, ast.AnnAssign) and x.value is not None else x for x in new_init]

        def rewrite(stmts):
            out = []
            for s_ in stmts:
                if s_ is st:
                    out.extend(new_init)
                    continue
                for fld in ("body", "orelse", "finalbody"):
                    sub = getattr(s_, fld, None)
                    if isinstance(sub, list) and sub and isinstance(sub[0], ast.stmt) and not isinstance(s_, (ast.FunctionDef, ast.ClassDef)):
                        setattr(s_, fld, rewrite(sub))
                if isinstance(s_, ast.Try):
                    for hd in s_.handlers:
                        hd.body = rewrite(hd.body)
                out.append(s_)
            return out

        fn.body = rewrite(fn.body)
        Fields(r).visit(fn)
        ast.fix_missing_locations(fn)
        changed = True
    return changed


def _sink_returns(fn: ast.FunctionDef) -> bool:
    """Single-exit spelling -> returns at the points of definition:

        if c: r = A          if c: return A
        else: r = B    ->    else: return B
        return r

    applied to the tail of every block that ends in `return <name>` when each
    path into that return ends with a plain assignment to the name (through
    if/else, with, try/finally).  The name must not be read in a `finally`."""
    changed = [False]

    def sink(stmts: List[ast.stmt], name: str) -> Optional[List[ast.stmt]]:
        """stmts with its trailing assignments to `name` turned into returns, or None."""
        if not stmts:
            return None
        last = stmts[-1]
        if isinstance(last, ast.Assign) and len(last.targets) == 1 and isinstance(last.targets[0], ast.Name) and last.targets[0].id == name:
            return stmts[:-1] + [ast.Return(value=last.value)]
        if isinstance(last, ast.If) and last.orelse:
            b, o = sink(last.body, name), sink(last.orelse, name)
            if b is None or o is None:
                return None
            return stmts[:-1] + [ast.If(test=last.test, body=b, orelse=o)]
        if isinstance(last, ast.With):
            b = sink(last.body, name)
            if b is None:
                return None
            return stmts[:-1] + [ast.With(items=last.items, body=b)]
        if isinstance(last, (ast.Return, ast.Raise)):
            return stmts
        return None

    def visit(stmts: List[ast.stmt]) -> List[ast.stmt]:
        for st in stmts:
            for fld in ("body", "orelse", "finalbody"):
                sub = getattr(st, fld, None)
                if isinstance(sub, list) and sub and isinstance(sub[0], ast.stmt) and not isinstance(st, (ast.FunctionDef, ast.ClassDef)):
                    setattr(st, fld, visit(sub))
            if isinstance(st, ast.Try):
                for h in st.handlers:
                    h.body = visit(h.body)
        if len(stmts) >= 2 and isinstance(stmts[-1], ast.Return) and isinstance(stmts[-1].value, ast.Name):
            name = stmts[-1].value.id
            new = sink(stmts[:-1], name)
            if new is not None:
                # the name must not be needed elsewhere: no other read of it after the sunk assignments (it was
                # only read by the return) -- reads inside the sunk region other than its own definitions are kept
                changed[0] = True
                return new
        return stmts

    fn.body = visit(fn.body)
    return changed[0]


def _canonical_loops(fn: ast.FunctionDef) -> bool:
    """`while True: if not C: break; BODY`  ->  `while C: BODY` (and the `if C: break`
    twin): the literal spelling of a guarded loop.  Only when the guard test is the
    first statement of the body, has no else branch and the loop has no else."""
    changed = False
    for x in ast.walk(fn):
        if isinstance(x, ast.While) and isinstance(x.test, ast.Constant) and x.test.value is True and not x.orelse and x.body:
            first = x.body[0]
            if isinstance(first, ast.If) and not first.orelse and len(first.body) == 1 and isinstance(first.body[0], ast.Break) and len(x.body) > 1:
                t = first.test
                if isinstance(t, ast.UnaryOp) and isinstance(t.op, ast.Not):
                    x.test = t.operand
                else:
                    x.test = ast.UnaryOp(op=ast.Not(), operand=t)
                x.body = x.body[1:]
                changed = True
    return changed


def _expand_vararg_maps(tree: ast.Module, modname: str, table: Set[str]) -> List[str]:
    """New helpers of the form `def f(p.., *xs): return tuple(E(p.., x) for x in xs)` (or a list): every call
    `f(a.., y1, y2, ...)` becomes the display `(E(a.., y1), E(a.., y2), ...)`."""
    helpers = {}
    for st in tree.body:
        cands = [(None, st)] if isinstance(st, ast.FunctionDef) else ([(st.name, x) for x in st.body if isinstance(x, ast.FunctionDef)] if isinstance(st, ast.ClassDef) else [])
        for (cls, fn) in cands:
            if _qual(modname, cls, fn.name) in table or fn.args.vararg is None or fn.args.kwarg or fn.args.kwonlyargs or fn.args.defaults:
                continue
            body = [x for x in fn.body if not (isinstance(x, ast.Expr) and isinstance(x.value, ast.Constant))]
            if len(body) != 1 or not isinstance(body[0], ast.Return):
                continue
            v = body[0].value
            comp, kind = None, None
            if isinstance(v, ast.Call) and isinstance(v.func, ast.Name) and v.func.id in ("tuple", "list") and len(v.args) == 1 and isinstance(v.args[0], (ast.GeneratorExp, ast.ListComp)):
                comp, kind = v.args[0], v.func.id
            elif isinstance(v, ast.ListComp):
                comp, kind = v, "list"
            if comp is None or len(comp.generators) != 1 or comp.generators[0].ifs or not isinstance(comp.generators[0].target, ast.Name):
                continue
            g = comp.generators[0]
            if not (isinstance(g.iter, ast.Name) and g.iter.id == fn.args.vararg.arg):
                continue
            fixed = [a.arg for a in fn.args.args]
            if cls is not None and fixed and fixed[0] in ("self", "cls") and not any(ast.unparse(d) == "staticmethod" for d in fn.decorator_list):
                fixed = fixed[1:]
            helpers[fn.name] = (fixed, g.target.id, comp.elt, kind)
    done = []
    if not helpers:
        return done

    class T(ast.NodeTransformer):
        def visit_Call(self, node: ast.Call):
            node = self.generic_visit(node)
            name = node.func.id if isinstance(node.func, ast.Name) else (node.func.attr if isinstance(node.func, ast.Attribute) and isinstance(node.func.value, ast.Name) else None)
            if name not in helpers or node.keywords or any(isinstance(a, ast.Starred) for a in node.args):
                return node
            fixed, var, elt, kind = helpers[name]
            if len(node.args) < len(fixed) or not all(_simple(a) for a in node.args):
                return node
            sub = {p: a for p, a in zip(fixed, node.args)}
            elts = []
            for a in node.args[len(fixed):]:
                m = dict(sub)
                m[var] = a
                elts.append(_Renamer(m, {}).visit(copy.deepcopy(elt)))
            done.append(_qual(modname, None, name))
            return ast.Tuple(elts=elts, ctx=ast.Load()) if kind == "tuple" else ast.List(elts=elts, ctx=ast.Load())

    T().visit(tree)
    return done


def _split_tuple_assigns(fn: ast.FunctionDef) -> bool:
    """`a, b = (ea, eb)` -> `a = ea; b = eb` when no target is read by a later element (same evaluation order)."""
    changed = [False]

    def rewrite(stmts):
        out = []
        for st in stmts:
            for fld in ("body", "orelse", "finalbody"):
                sub = getattr(st, fld, None)
                if isinstance(sub, list) and sub and isinstance(sub[0], ast.stmt) and not isinstance(st, (ast.FunctionDef, ast.ClassDef)):
                    setattr(st, fld, rewrite(sub))
            if isinstance(st, ast.Assign) and len(st.targets) == 1 and isinstance(st.targets[0], ast.Tuple) and isinstance(st.value, (ast.Tuple, ast.List)) \
                    and len(st.targets[0].elts) == len(st.value.elts) \
                    and all(isinstance(t, ast.Name) or (isinstance(t, ast.Attribute) and isinstance(t.value, ast.Name)) for t in st.targets[0].elts):
                tg = [t.id if isinstance(t, ast.Name) else ast.unparse(t) for t in st.targets[0].elts]
                ok = True
                for i, v in enumerate(st.value.elts):
                    used = {x.id for x in ast.walk(v) if isinstance(x, ast.Name)}
                    if used & set(tg[:i]):
                        ok = False
                    # an attribute target assigned earlier: the later element must not be able to observe the object
                    bases = {t.value.id for t in st.targets[0].elts[:i] if isinstance(t, ast.Attribute)}
                    if bases and not _simple(v) and (used & bases):
                        ok = False
                if ok and len(set(tg)) == len(tg):
                    for t, v in zip(st.targets[0].elts, st.value.elts):
                        out.append(ast.copy_location(ast.Assign(targets=[t], value=v), st))
                    changed[0] = True
                    continue
            out.append(st)
        return out

    fn.body = rewrite(fn.body)
    return changed[0]


def _none_guard_assigns(fn: ast.FunctionDef) -> bool:
    """`x = None if x is None else E`  /  `x = E if x is not None else None`  ->  `if x is not None: x = E`."""
    changed = [False]

    def rewrite(stmts):
        out = []
        for st in stmts:
            for fld in ("body", "orelse", "finalbody"):
                sub = getattr(st, fld, None)
                if isinstance(sub, list) and sub and isinstance(sub[0], ast.stmt) and not isinstance(st, (ast.FunctionDef, ast.ClassDef)):
                    setattr(st, fld, rewrite(sub))
            if isinstance(st, ast.Assign) and len(st.targets) == 1 and isinstance(st.targets[0], ast.Name) and isinstance(st.value, ast.IfExp):
                x = st.targets[0].id
                t, a, b = st.value.test, st.value.body, st.value.orelse
                is_none = isinstance(t, ast.Compare) and len(t.ops) == 1 and isinstance(t.left, ast.Name) and t.left.id == x and isinstance(t.comparators[0], ast.Constant) and t.comparators[0].value is None
                if is_none:
                    none_when_true = isinstance(t.ops[0], ast.Is)
                    none_branch, val_branch = (a, b) if none_when_true else (b, a)
                    if isinstance(none_branch, ast.Constant) and none_branch.value is None and isinstance(t.ops[0], (ast.Is, ast.IsNot)):
                        test = ast.Compare(left=ast.Name(id=x, ctx=ast.Load()), ops=[ast.IsNot()], comparators=[ast.Constant(value=None)])
                        out.append(ast.copy_location(ast.If(test=test, body=[ast.Assign(targets=[st.targets[0]], value=val_branch)], orelse=[]), st))
                        changed[0] = True
                        continue
            out.append(st)
        return out

    fn.body = rewrite(fn.body)
    return changed[0]


def _expand_ifexp_assigns(fn: ast.FunctionDef) -> bool:
    """`t = A if C else B`  ->  `if C: t = A` / `else: t = B` (a branch `t = t` is dropped)."""
    changed = [False]

    def rewrite(stmts):
        out = []
        for st in stmts:
            for fld in ("body", "orelse", "finalbody"):
                sub = getattr(st, fld, None)
                if isinstance(sub, list) and sub and isinstance(sub[0], ast.stmt) and not isinstance(st, (ast.FunctionDef, ast.ClassDef)):
                    setattr(st, fld, rewrite(sub))
            if isinstance(st, ast.Try):
                for hd in st.handlers:
                    hd.body = rewrite(hd.body)
            if isinstance(st, ast.Assign) and len(st.targets) == 1 and isinstance(st.targets[0], ast.Name) and isinstance(st.value, ast.IfExp):
                t = st.targets[0].id
                v = st.value

                def branch(e):
                    if isinstance(e, ast.Name) and e.id == t:
                        return []
                    return rewrite([ast.copy_location(ast.Assign(targets=[ast.Name(id=t, ctx=ast.Store())], value=e), st)])

                a, b = branch(v.body), branch(v.orelse)
                if not a and not b:
                    out.append(st)
                    continue
                out.append(ast.copy_location(ast.If(test=v.test, body=a or [ast.Pass()], orelse=b), st))
                changed[0] = True
                continue
            out.append(st)
        return out

    fn.body = rewrite(fn.body)
    return changed[0]


def _coalesce_phi(fn: ast.FunctionDef) -> bool:
    """`x = ...; if C: t = x` / `else: t = E` with `x` used nowhere else and `t` defined only here: `t` is `x` with one
    branch overwritten  ->  `if C: pass` / `else: x = E`, `t` renamed to `x`."""
    changed = False
    for _ in range(8):
        stores: Dict[str, int] = {}
        loads: Dict[str, List[ast.Name]] = {}
        for n in ast.walk(fn):
            if isinstance(n, ast.Name):
                if isinstance(n.ctx, ast.Store):
                    stores[n.id] = stores.get(n.id, 0) + 1
                elif isinstance(n.ctx, ast.Load):
                    loads.setdefault(n.id, []).append(n)
            elif isinstance(n, ast.arg):
                stores[n.arg] = stores.get(n.arg, 0) + 2
        hit = None

        def scan(stmts):
            nonlocal hit
            for i, st in enumerate(stmts):
                if hit:
                    return
                if isinstance(st, ast.If) and len(st.body) == 1 and len(st.orelse) == 1 and all(
                        isinstance(b, ast.Assign) and len(b.targets) == 1 and isinstance(b.targets[0], ast.Name) for b in (st.body[0], st.orelse[0])) \
                        and st.body[0].targets[0].id == st.orelse[0].targets[0].id:
                    t = st.body[0].targets[0].id
                    for keep, other in ((st.body[0], st.orelse[0]), (st.orelse[0], st.body[0])):
                        if isinstance(keep.value, ast.Name) and keep.value.id != t:
                            x = keep.value.id
                            if stores.get(t, 0) != 2 or stores.get(x, 0) != 1:
                                continue
                            allowed = {id(n) for n in ast.walk(st.test)} | {id(keep.value)} | {id(n) for n in ast.walk(other.value)}
                            # x's store is an earlier statement of this block, and nothing in between reads t
                            j = next((k for k in range(i - 1, -1, -1) if any(isinstance(n, ast.Name) and n.id == x and isinstance(n.ctx, ast.Store) for n in ast.walk(stmts[k]))), None)
                            if j is None or any(isinstance(n, ast.Name) and n.id == t for k in range(j, i) for n in ast.walk(stmts[k])):
                                continue
                            # reads of x between its store and the If see the value before the phi: they keep their meaning
                            allowed |= {id(n) for k in range(j, i) for n in ast.walk(stmts[k])}
                            if any(id(n) not in allowed for n in loads.get(x, [])):
                                continue
                            hit = (st, keep, other, t, x)
                            return
                for fld in ("body", "orelse", "finalbody"):
                    sub = getattr(st, fld, None)
                    if isinstance(sub, list) and sub and isinstance(sub[0], ast.stmt) and not isinstance(st, (ast.FunctionDef, ast.ClassDef)):
                        scan(sub)
                if isinstance(st, ast.Try):
                    for hd in st.handlers:
                        scan(hd.body)

        scan(fn.body)
        if not hit:
            break
        st, keep, other, t, x = hit
        other.targets[0].id = x
        if keep is st.body[0]:
            st.body = [ast.Pass()]
        else:
            st.orelse = []
        for n in ast.walk(fn):
            if isinstance(n, ast.Name) and n.id == t:
                n.id = x
        changed = True
    return changed


def _is_empty_literal(e: ast.expr) -> bool:
    return (isinstance(e, (ast.Tuple, ast.List, ast.Set)) and not e.elts) or (isinstance(e, ast.Call) and isinstance(e.func, ast.Name) and e.func.id in ("tuple", "list", "set", "frozenset") and not e.args and not e.keywords)


def _negate(t: ast.expr) -> ast.expr:
    if isinstance(t, ast.Compare) and len(t.ops) == 1:
        flip = {ast.Is: ast.IsNot, ast.IsNot: ast.Is, ast.Eq: ast.NotEq, ast.NotEq: ast.Eq, ast.In: ast.NotIn, ast.NotIn: ast.In}
        for a, b in flip.items():
            if isinstance(t.ops[0], a):
                return ast.Compare(left=t.left, ops=[b()], comparators=t.comparators)
    if isinstance(t, ast.UnaryOp) and isinstance(t.op, ast.Not):
        return t.operand
    return ast.UnaryOp(op=ast.Not(), operand=t)


def _guard_empty_iter_loops(fn: ast.FunctionDef) -> bool:
    """`for t in (() if C else X): BODY` -> `if not C: for t in X: BODY`;  `return A if C else B` -> `if C: return A` / `return B`;
    `s = {*a, *(() if C else b), c}` -> `s = set(); s.update(a); if not C: s.update(b); s.add(c)`."""
    changed = [False]

    def rewrite(stmts):
        out = []
        for st in stmts:
            for fld in ("body", "orelse", "finalbody"):
                sub = getattr(st, fld, None)
                if isinstance(sub, list) and sub and isinstance(sub[0], ast.stmt) and not isinstance(st, (ast.FunctionDef, ast.ClassDef)):
                    setattr(st, fld, rewrite(sub))
            if isinstance(st, ast.Try):
                for hd in st.handlers:
                    hd.body = rewrite(hd.body)
            if isinstance(st, ast.For) and not st.orelse and isinstance(st.iter, ast.IfExp) and (_is_empty_literal(st.iter.body) or _is_empty_literal(st.iter.orelse)):
                ie = st.iter
                if _is_empty_literal(ie.body):
                    test, it = _negate(ie.test), ie.orelse
                else:
                    test, it = ie.test, ie.body
                st.iter = it
                out.append(ast.copy_location(ast.If(test=test, body=[st], orelse=[]), st))
                changed[0] = True
                continue
            # return (A if C else B), z  ->  r = A if C else B; return r, z   (the other elements are plain names / constants)
            if (isinstance(st, ast.Return) or (isinstance(st, ast.Assign) and len(st.targets) == 1 and isinstance(st.targets[0], ast.Name))) and isinstance(st.value, ast.Tuple) \
                    and sum(isinstance(e, ast.IfExp) for e in st.value.elts) == 1 and all(isinstance(e, ast.IfExp) or _simple(e) for e in st.value.elts):
                i_ = next(i for i, e in enumerate(st.value.elts) if isinstance(e, ast.IfExp))
                tmp_ = f"_ret{getattr(st, 'lineno', 0)}_{i_}"
                out.append(ast.copy_location(ast.Assign(targets=[ast.Name(id=tmp_, ctx=ast.Store())], value=st.value.elts[i_]), st))
                st.value.elts[i_] = ast.Name(id=tmp_, ctx=ast.Load())
                out.append(st)
                changed[0] = True
                continue
            if isinstance(st, ast.Return) and isinstance(st.value, ast.IfExp):
                ie = st.value
                out.append(ast.copy_location(ast.If(test=ie.test, body=[ast.copy_location(ast.Return(value=ie.body), st)], orelse=[]), st))
                out.extend(rewrite([ast.copy_location(ast.Return(value=ie.orelse), st)]))
                changed[0] = True
                continue
            # frozenset(chain(a, b)) / set(chain(a, b)) / set().union(a, b): the union of its arguments (a set display of starred parts)
            if isinstance(st, ast.Assign) and len(st.targets) == 1 and isinstance(st.targets[0], ast.Name) and isinstance(st.value, ast.Call) and isinstance(st.value.func, ast.Name) \
                    and st.value.func.id in ("set", "frozenset") and len(st.value.args) == 1 and not st.value.keywords and isinstance(st.value.args[0], ast.Call) \
                    and ast.unparse(st.value.args[0].func).split(".")[-1] in ("chain",) and not st.value.args[0].keywords and not any(isinstance(a, ast.Starred) for a in st.value.args[0].args):
                st.value = ast.copy_location(ast.Set(elts=[ast.Starred(value=a, ctx=ast.Load()) for a in st.value.args[0].args]), st.value)
                changed[0] = True
            if isinstance(st, ast.Assign) and len(st.targets) == 1 and isinstance(st.targets[0], ast.Name) and isinstance(st.value, ast.Set) and any(isinstance(e, ast.Starred) for e in st.value.elts):
                t = st.targets[0].id
                if not any(isinstance(n, ast.Name) and n.id == t for n in ast.walk(st.value)):
                    out.append(ast.copy_location(ast.Assign(targets=[ast.Name(id=t, ctx=ast.Store())], value=ast.Call(func=ast.Name(id="set", ctx=ast.Load()), args=[], keywords=[])), st))
                    for e in st.value.elts:
                        def call(meth, arg):
                            return ast.copy_location(ast.Expr(value=ast.Call(func=ast.Attribute(value=ast.Name(id=t, ctx=ast.Load()), attr=meth, ctx=ast.Load()), args=[arg], keywords=[])), st)
                        if isinstance(e, ast.Starred):
                            v = e.value
                            if isinstance(v, ast.IfExp) and (_is_empty_literal(v.body) or _is_empty_literal(v.orelse)):
                                if _is_empty_literal(v.body):
                                    test, x = _negate(v.test), v.orelse
                                else:
                                    test, x = v.test, v.body
                                out.append(ast.copy_location(ast.If(test=test, body=[call("update", x)], orelse=[]), st))
                            else:
                                out.append(call("update", v))
                        else:
                            out.append(call("add", e))
                    changed[0] = True
                    continue
            out.append(st)
        return out

    fn.body = rewrite(fn.body)
    return changed[0]


# ---------------------------------------------------------------------------
# generators, context managers, hoisting of nested helper calls (pre-passes)
# ---------------------------------------------------------------------------

def _new_functions(tree: ast.Module, modname: str, table: Set[str]):
    """(class name or None, FunctionDef) for every top-level function / method that is not in the reference table"""
    out = []
    for st in tree.body:
        if isinstance(st, ast.FunctionDef) and _qual(modname, None, st.name) not in table:
            out.append((None, st))
        elif isinstance(st, ast.ClassDef):
            for x in st.body:
                if isinstance(x, ast.FunctionDef) and _qual(modname, st.name, x.name) not in table and not (x.name.startswith("__") and x.name.endswith("__")):
                    out.append((st.name, x))
    return out


def _own_yields(fn: ast.FunctionDef) -> List[ast.AST]:
    out = []

    def visit(n):
        for ch in ast.iter_child_nodes(n):
            if isinstance(ch, (ast.FunctionDef, ast.Lambda, ast.ClassDef)):
                continue
            if isinstance(ch, (ast.Yield, ast.YieldFrom)):
                out.append(ch)
            visit(ch)

    visit(fn)
    return out


def _simple_params(fn: ast.FunctionDef, is_method: bool) -> Optional[List[str]]:
    a = fn.args
    if a.vararg or a.kwarg or a.posonlyargs or a.kwonlyargs:
        return None
    ps = [x.arg for x in a.args]
    if is_method and ps and ps[0] in ("self", "cls") and not any(ast.unparse(d) == "staticmethod" for d in fn.decorator_list):
        ps = ps[1:]
    return ps


def _bind_simple(fn: ast.FunctionDef, params: List[str], call: ast.Call, tag: str, caller_names: Set[str]):
    """(pre statements, renamer) for inlining fn's body at `call`; None when the call shape is not supported"""
    if any(isinstance(a, ast.Starred) for a in call.args) or any(k.arg is None for k in call.keywords) or len(call.args) > len(params):
        return None
    defaults = [None] * (len(params) - len(fn.args.defaults)) + list(fn.args.defaults) if len(fn.args.defaults) <= len(params) else [None] * len(params)
    actual = dict(zip(params, call.args))
    for k in call.keywords:
        if k.arg not in params or k.arg in actual:
            return None
        actual[k.arg] = k.value
    for p_, d in zip(params, defaults):
        if p_ not in actual:
            if d is None or not _immutable_default(d):
                return None
            actual[p_] = d
    assigned = set()
    for st in fn.body:
        assigned |= _assigned_names(st)
    pre, subst, rename = [], {}, {}
    for p_ in params:
        a = actual[p_]
        if _simple(a) and p_ not in assigned:
            subst[p_] = a
        else:
            new = p_ + tag
            rename[p_] = new
            pre.append(ast.Assign(targets=[ast.Name(id=new, ctx=ast.Store())], value=copy.deepcopy(a)))
    for nm in assigned:
        if nm not in params and nm in caller_names:
            rename[nm] = nm + tag
    return pre, _Renamer(subst, rename)


def _call_name(call: ast.Call, cur_cls: Optional[str]):
    """(class or None, name) of a call `f(...)`, `self.f(...)`, `cls.f(...)`, `Class.f(...)`"""
    f = call.func
    if isinstance(f, ast.Name):
        return (None, f.id)
    if isinstance(f, ast.Attribute) and isinstance(f.value, ast.Name):
        if f.value.id in ("self", "cls"):
            return (cur_cls, f.attr)
        return (f.value.id, f.attr)
    return (None, None)


def _inline_generators(tree: ast.Module, modname: str, table: Set[str]) -> List[str]:
    """`for T in g(args): BODY` with g a new, simple generator: g's body is written out with every `yield E`
    replaced by `T = E; BODY` (BODY without break / continue of that loop)."""
    gens = {}
    for (cls, fn) in _new_functions(tree, modname, table):
        ys = _own_yields(fn)
        if not ys or any(isinstance(y, ast.YieldFrom) for y in ys):
            continue
        if any(d for d in fn.decorator_list if ast.unparse(d) not in ("staticmethod",)):
            continue
        # every yield is a statement of its own; no `return value`; no nested defs; not recursive
        stmts_ok = all(any(isinstance(x, ast.Expr) and x.value is y for x in ast.walk(fn)) for y in ys)
        if not stmts_ok or any(isinstance(x, ast.Return) for x in ast.walk(fn)) or any(isinstance(x, (ast.FunctionDef, ast.Lambda)) and x is not fn for x in ast.walk(fn)):
            continue
        ps = _simple_params(fn, cls is not None)
        if ps is None:
            continue
        gens[(cls, fn.name)] = (fn, ps)
    done: List[str] = []
    if not gens:
        return done
    counter = [0]

    def top_level_jump(body) -> bool:
        def visit(n, in_loop):
            for ch in ast.iter_child_nodes(n):
                if isinstance(ch, (ast.FunctionDef, ast.Lambda, ast.ClassDef)):
                    continue
                if isinstance(ch, (ast.Break, ast.Continue)) and not in_loop:
                    return True
                if visit(ch, in_loop or isinstance(ch, (ast.For, ast.While))):
                    return True
            return False
        return any(visit(ast.Module(body=[b], type_ignores=[]), False) for b in body)

    def process(fn_caller: ast.FunctionDef, cur_cls: Optional[str]):
        caller_names = _assigned_names(fn_caller)

        def rewrite(stmts):
            out = []
            for idx_, st in enumerate(stmts):
                for fld in ("body", "orelse", "finalbody"):
                    sub = getattr(st, fld, None)
                    if isinstance(sub, list) and sub and isinstance(sub[0], ast.stmt) and not isinstance(st, (ast.FunctionDef, ast.ClassDef)):
                        setattr(st, fld, rewrite(sub))
                if isinstance(st, ast.Try):
                    for hd in st.handlers:
                        hd.body = rewrite(hd.body)
                if isinstance(st, ast.Assign) and len(st.targets) == 1 and isinstance(st.targets[0], ast.Name) and isinstance(st.value, ast.Call) and isinstance(st.value.func, ast.Name) \
                        and st.value.func.id == "list" and len(st.value.args) == 1 and not st.value.keywords and isinstance(st.value.args[0], ast.Call):
                    # `t = list(g(args))`: t = []; g's body with `yield E` -> `t.append(E)`
                    it = st.value.args[0]
                    key = _call_name(it, cur_cls)
                    g = gens.get(key)
                    tname = st.targets[0].id
                    if g is not None and g[0] is not fn_caller and not any(isinstance(x, ast.Name) and x.id == tname for x in ast.walk(it)):
                        gfn, ps = g
                        counter[0] += 1
                        b = _bind_simple(gfn, ps, it, f"__g{counter[0]}", caller_names | {tname})
                        if b is not None:
                            pre, ren = b
                            body = [ren.visit(copy.deepcopy(x)) for x in gfn.body if not (isinstance(x, ast.Expr) and isinstance(x.value, ast.Constant))]

                            class YA(ast.NodeTransformer):
                                def visit_FunctionDef(self, node):
                                    return node

                                def visit_Expr(self, node):
                                    if isinstance(node.value, ast.Yield):
                                        val = node.value.value if node.value.value is not None else ast.Constant(value=None)
                                        return ast.Expr(value=ast.Call(func=ast.Attribute(value=ast.Name(id=tname, ctx=ast.Load()), attr="append", ctx=ast.Load()), args=[val], keywords=[]))
                                    return node

                            new_body = [YA().visit(x) for x in body]
                            out.append(ast.copy_location(ast.Assign(targets=[ast.Name(id=tname, ctx=ast.Store())], value=ast.List(elts=[], ctx=ast.Load())), st))
                            out.extend(pre + new_body)
                            done.append(_qual(modname, key[0], key[1]))
                            caller_names.update(_assigned_names(ast.Module(body=pre + new_body, type_ignores=[])))
                            continue
                if isinstance(st, ast.For) and not st.orelse:
                    it = st.iter
                    # through a local bound just before to the generator call
                    alias_stmt = None
                    if isinstance(it, ast.Name) and out and isinstance(out[-1], ast.Assign) and len(out[-1].targets) == 1 and isinstance(out[-1].targets[0], ast.Name) \
                            and out[-1].targets[0].id == it.id and isinstance(out[-1].value, ast.Call):
                        uses = sum(1 for x in ast.walk(fn_caller) if isinstance(x, ast.Name) and x.id == it.id and isinstance(x.ctx, ast.Load))
                        if uses == 1:
                            alias_stmt = out[-1]
                            it = alias_stmt.value
                    if isinstance(it, ast.Call):
                        key = _call_name(it, cur_cls)
                        g = gens.get(key)
                        if g is not None and g[0] is not fn_caller and not top_level_jump(st.body):
                            gfn, ps = g
                            counter[0] += 1
                            b = _bind_simple(gfn, ps, it, f"__g{counter[0]}", caller_names)
                            if b is not None:
                                pre, ren = b
                                body = [ren.visit(copy.deepcopy(x)) for x in gfn.body if not (isinstance(x, ast.Expr) and isinstance(x.value, ast.Constant))]

                                class Y(ast.NodeTransformer):
                                    def visit_FunctionDef(self, node):
                                        return node

                                    def visit_Expr(self, node):
                                        if isinstance(node.value, ast.Yield):
                                            val = node.value.value if node.value.value is not None else ast.Constant(value=None)
                                            return [ast.Assign(targets=[copy.deepcopy(st.target)], value=val)] + copy.deepcopy(st.body)
                                        return node

                                new_body = []
                                for x in body:
                                    r = Y().visit(x)
                                    new_body.extend(r if isinstance(r, list) else [r])
                                if alias_stmt is not None:
                                    out.pop()
                                out.extend(pre + new_body)
                                done.append(_qual(modname, key[0], key[1]))
                                caller_names.update(_assigned_names(ast.Module(body=pre + new_body, type_ignores=[])))
                                continue
                out.append(st)
            return out

        fn_caller.body = rewrite(fn_caller.body)

    for st in tree.body:
        if isinstance(st, ast.FunctionDef):
            process(st, None)
        elif isinstance(st, ast.ClassDef):
            for x in st.body:
                if isinstance(x, ast.FunctionDef):
                    process(x, st.name)
    return done


def _inline_context_managers(tree: ast.Module, modname: str, table: Set[str]) -> List[str]:
    """`with cm(args) as NAME: BODY` with cm a new @contextmanager generator with exactly one `yield`: the manager's
    body is written out around BODY (`yield V` -> `NAME = V; BODY`)."""
    cms = {}
    for (cls, fn) in _new_functions(tree, modname, table):
        decos = [ast.unparse(d) for d in fn.decorator_list]
        if not any(d.split(".")[-1] == "contextmanager" for d in decos) or any(d.split(".")[-1] not in ("contextmanager", "staticmethod") for d in decos):
            continue
        ys = _own_yields(fn)
        if len(ys) != 1 or isinstance(ys[0], ast.YieldFrom) or not any(isinstance(x, ast.Expr) and x.value is ys[0] for x in ast.walk(fn)):
            continue
        if any(isinstance(x, ast.Return) for x in ast.walk(fn)) or any(isinstance(x, (ast.FunctionDef, ast.Lambda)) and x is not fn for x in ast.walk(fn)):
            continue
        ps = _simple_params(fn, cls is not None)
        if ps is None:
            continue
        cms[(cls, fn.name)] = (fn, ps)
    done: List[str] = []
    if not cms:
        return done
    counter = [0]

    def process(fn_caller: ast.FunctionDef, cur_cls: Optional[str]):
        caller_names = _assigned_names(fn_caller)

        def rewrite(stmts):
            out = []
            for st in stmts:
                for fld in ("body", "orelse", "finalbody"):
                    sub = getattr(st, fld, None)
                    if isinstance(sub, list) and sub and isinstance(sub[0], ast.stmt) and not isinstance(st, (ast.FunctionDef, ast.ClassDef)):
                        setattr(st, fld, rewrite(sub))
                if isinstance(st, ast.Try):
                    for hd in st.handlers:
                        hd.body = rewrite(hd.body)
                if isinstance(st, ast.With) and len(st.items) == 1 and isinstance(st.items[0].context_expr, ast.Call):
                    call = st.items[0].context_expr
                    key = _call_name(call, cur_cls)
                    c = cms.get(key)
                    var = st.items[0].optional_vars
                    if c is not None and c[0] is not fn_caller and (var is None or isinstance(var, ast.Name)):
                        cfn, ps = c
                        counter[0] += 1
                        b = _bind_simple(cfn, ps, call, f"__cm{counter[0]}", caller_names)
                        if b is not None:
                            pre, ren = b
                            body = [ren.visit(copy.deepcopy(x)) for x in cfn.body if not (isinstance(x, ast.Expr) and isinstance(x.value, ast.Constant))]

                            class Y(ast.NodeTransformer):
                                def visit_Expr(self, node):
                                    if isinstance(node.value, ast.Yield):
                                        head = []
                                        if var is not None:
                                            val = node.value.value if node.value.value is not None else ast.Constant(value=None)
                                            head = [ast.Assign(targets=[ast.Name(id=var.id, ctx=ast.Store())], value=val)]
                                        return head + st.body
                                    return node

                            new_body = []
                            for x in body:
                                r = Y().visit(x)
                                new_body.extend(r if isinstance(r, list) else [r])
                            # `with open(p) as f: yield f` followed by `f` used as NAME: rename the manager's own handle to NAME
                            out.extend(pre + new_body)
                            done.append(_qual(modname, key[0], key[1]))
                            caller_names.update(_assigned_names(ast.Module(body=pre + new_body, type_ignores=[])))
                            continue
                out.append(st)
            return out

        fn_caller.body = rewrite(fn_caller.body)

    for st in tree.body:
        if isinstance(st, ast.FunctionDef):
            process(st, None)
        elif isinstance(st, ast.ClassDef):
            for x in st.body:
                if isinstance(x, ast.FunctionDef):
                    process(x, st.name)
    return done


def _inline_class_context_managers(tree: ast.Module, modname: str, table: Set[str]) -> List[str]:
    """`with C(args) [as v]: BODY` with C a new class that has only __init__/__enter__/__exit__ (the exit ignores the
    exception and does not suppress it): the object's fields become locals and the block becomes
    init; enter; try: BODY finally: exit."""
    base_classes = {q.split(":")[1].split(".")[0] for q in table if q.startswith(modname + ":") and "." in q.split(":")[1]}
    cms: Dict[str, Dict[str, ast.FunctionDef]] = {}
    for st in tree.body:
        if not isinstance(st, ast.ClassDef) or st.name in base_classes or st.bases or st.decorator_list:
            continue
        ms = {x.name: x for x in st.body if isinstance(x, ast.FunctionDef)}
        others = [x for x in st.body if not isinstance(x, ast.FunctionDef) and not (isinstance(x, ast.Expr) and isinstance(x.value, ast.Constant))]
        if others or set(ms) - {"__init__", "__enter__", "__exit__"} or not {"__enter__", "__exit__"} <= set(ms):
            continue
        ok = True
        for name, m in ms.items():
            if m.decorator_list or m.args.vararg or m.args.kwarg or m.args.kwonlyargs or not m.args.args or m.args.args[0].arg != "self":
                ok = False
                break
            if any(isinstance(x, (ast.FunctionDef, ast.Lambda, ast.Yield, ast.YieldFrom)) and x is not m for x in ast.walk(m)):
                ok = False
                break
            body = [x for x in m.body if not (isinstance(x, ast.Expr) and isinstance(x.value, ast.Constant))]
            rets = [x for x in ast.walk(m) if isinstance(x, ast.Return)]
            if name == "__init__" and rets:
                ok = False
            if name == "__enter__" and not (len(rets) <= 1 and (not rets or body[-1] is rets[0])):
                ok = False
            if name == "__exit__":
                if not (len(rets) <= 1 and (not rets or body[-1] is rets[0])) or any(not (r.value is None or (isinstance(r.value, ast.Constant) and r.value.value in (False, None))) for r in rets):
                    ok = False
                exc = {a.arg for a in m.args.args[1:]}
                if any(isinstance(x, ast.Name) and x.id in exc for x in ast.walk(m)):
                    ok = False
            # `self` only as the base of an attribute (or as the value returned by __enter__)
            for x in ast.walk(m):
                for ch in ast.iter_child_nodes(x):
                    if isinstance(ch, ast.Name) and ch.id == "self":
                        if isinstance(x, ast.Attribute) and x.value is ch:
                            continue
                        if name == "__enter__" and isinstance(x, ast.Return):
                            continue
                        ok = False
        if ok:
            cms[st.name] = ms
    done: List[str] = []
    if not cms:
        return done
    counter = [0]

    def process(fn_caller: ast.FunctionDef):
        caller_names = _assigned_names(fn_caller)

        def rewrite(stmts):
            out = []
            for st in stmts:
                for fld in ("body", "orelse", "finalbody"):
                    sub = getattr(st, fld, None)
                    if isinstance(sub, list) and sub and isinstance(sub[0], ast.stmt) and not isinstance(st, (ast.FunctionDef, ast.ClassDef)):
                        setattr(st, fld, rewrite(sub))
                if isinstance(st, ast.Try):
                    for hd in st.handlers:
                        hd.body = rewrite(hd.body)
                if isinstance(st, ast.With) and len(st.items) == 1 and isinstance(st.items[0].context_expr, ast.Call) and isinstance(st.items[0].context_expr.func, ast.Name) \
                        and st.items[0].context_expr.func.id in cms and (st.items[0].optional_vars is None or isinstance(st.items[0].optional_vars, ast.Name)):
                    call = st.items[0].context_expr
                    cname = call.func.id
                    ms = cms[cname]
                    var = st.items[0].optional_vars.id if st.items[0].optional_vars is not None else None
                    counter[0] += 1
                    tag = f"_cm{counter[0]}"
                    enter = ms["__enter__"]
                    ebody = [x for x in enter.body if not (isinstance(x, ast.Expr) and isinstance(x.value, ast.Constant))]
                    eret = ebody[-1].value if ebody and isinstance(ebody[-1], ast.Return) else None
                    returns_self = isinstance(eret, ast.Name) and eret.id == "self"
                    # the bound name: only `v.field` when the object itself is handed out; any use otherwise
                    if var is not None and returns_self:
                        bad = False
                        for x in ast.walk(ast.Module(body=st.body, type_ignores=[])):
                            for ch in ast.iter_child_nodes(x):
                                if isinstance(ch, ast.Name) and ch.id == var and not (isinstance(x, ast.Attribute) and x.value is ch):
                                    bad = True
                        if bad:
                            out.append(st)
                            continue

                    class Fields(ast.NodeTransformer):
                        def __init__(self, obj):
                            self.obj = obj

                        def visit_Attribute(self, node):
                            node = self.generic_visit(node)
                            if isinstance(node.value, ast.Name) and node.value.id == self.obj:
                                return ast.copy_location(ast.Name(id=f"{tag}__{node.attr}", ctx=node.ctx), node)
                            return node

                    def method_body(m, callnode):
                        body = [x for x in m.body if not (isinstance(x, ast.Expr) and isinstance(x.value, ast.Constant))]
                        if body and isinstance(body[-1], ast.Return):
                            body = body[:-1]
                        params = [a.arg for a in m.args.args[1:]]
                        fake = ast.FunctionDef(name=m.name, args=m.args, body=body or [ast.Pass()], decorator_list=[], returns=None)
                        if callnode is not None:
                            b = _bind_simple(fake, params, callnode, tag, caller_names)
                        else:
                            b = ([], _Renamer({}, {nm: nm + tag for nm in _assigned_names(ast.Module(body=body, type_ignores=[])) if nm in caller_names}))
                        if b is None:
                            return None
                        pre, ren = b
                        return pre + [Fields("self").visit(ren.visit(copy.deepcopy(x))) for x in body]

                    init_b = method_body(ms["__init__"], call) if "__init__" in ms else ([] if not call.args and not call.keywords else None)
                    enter_b = method_body(enter, None)
                    exit_b = method_body(ms["__exit__"], None)
                    if init_b is None or enter_b is None or exit_b is None:
                        out.append(st)
                        continue
                    block = list(st.body)
                    if var is not None:
                        if returns_self:
                            block = [Fields(var).visit(x) for x in block]
                        elif eret is not None:
                            enter_b.append(ast.Assign(targets=[ast.Name(id=var, ctx=ast.Store())], value=Fields("self").visit(copy.deepcopy(eret))))
                        else:
                            enter_b.append(ast.Assign(targets=[ast.Name(id=var, ctx=ast.Store())], value=ast.Constant(value=None)))
                    new = init_b + enter_b + [ast.Try(body=block, handlers=[], orelse=[], finalbody=exit_b or [ast.Pass()])]
                    for x in new:
                        ast.copy_location(x, st)
                    out.extend(new)
                    caller_names.update(_assigned_names(ast.Module(body=new, type_ignores=[])))
                    done.append(f"{modname}:{cname}")
                    continue
                out.append(st)
            return out

        fn_caller.body = rewrite(fn_caller.body)

    for st in tree.body:
        if isinstance(st, ast.FunctionDef):
            process(st)
        elif isinstance(st, ast.ClassDef) and st.name not in cms:
            for x in st.body:
                if isinstance(x, ast.FunctionDef):
                    process(x)
    # drop the classes that are no longer referenced
    for cname in sorted({d.split(":")[1] for d in done}):
        if not any(isinstance(n, ast.Name) and n.id == cname for n in ast.walk(tree)):
            tree.body = [s_ for s_ in tree.body if not (isinstance(s_, ast.ClassDef) and s_.name == cname)]
    return done


def _hoist_nested_helper_calls(tree: ast.Module, modname: str, table: Set[str]) -> bool:
    """`f(a, helper(x))` / `return g(helper(x))` with `helper` a new multi-statement function: the inner call is bound
    to a temporary first (it is the only non-trivial operand, so the evaluation order is unchanged) and can then be
    inlined in statement position."""
    new = {}
    for (cls, fn) in _new_functions(tree, modname, table):
        body = [x for x in fn.body if not (isinstance(x, ast.Expr) and isinstance(x.value, ast.Constant))]
        if len(body) == 1 and isinstance(body[0], ast.Return):
            continue  # single-expression helpers are inlined in place
        if _own_yields(fn):
            continue
        new[(cls, fn.name)] = fn
    if not new:
        return False
    changed = [False]
    counter = [0]

    def process(fn_caller: ast.FunctionDef, cur_cls: Optional[str]):
        def rewrite(stmts):
            out = []
            for st in stmts:
                for fld in ("body", "orelse", "finalbody"):
                    sub = getattr(st, fld, None)
                    if isinstance(sub, list) and sub and isinstance(sub[0], ast.stmt) and not isinstance(st, (ast.FunctionDef, ast.ClassDef)):
                        setattr(st, fld, rewrite(sub))
                if isinstance(st, ast.Try):
                    for hd in st.handlers:
                        hd.body = rewrite(hd.body)
                val = st.value if isinstance(st, (ast.Assign, ast.Return, ast.Expr)) else None
                if val is not None and not (isinstance(val, ast.Call) and _call_name(val, cur_cls) in new):
                    # general form: exactly one call of a new multi-statement helper somewhere in the expression, every
                    # other call of the expression encloses it (so it is evaluated later), no comprehension / lambda /
                    # short-circuit on the way
                    parents_ = {}
                    for p_ in ast.walk(val):
                        for c_ in ast.iter_child_nodes(p_):
                            parents_[id(c_)] = p_
                    inner_ = [x for x in ast.walk(val) if isinstance(x, ast.Call) and _call_name(x, cur_cls) in new and new[_call_name(x, cur_cls)] is not fn_caller]
                    if len(inner_) == 1 and not (isinstance(val, ast.Call) and inner_[0] in list(val.args) + [k.value for k in val.keywords]):
                        chain_ = []
                        q_ = parents_.get(id(inner_[0]))
                        ok_ = True
                        while q_ is not None:
                            chain_.append(q_)
                            if isinstance(q_, (ast.BoolOp, ast.IfExp, ast.Lambda, ast.ListComp, ast.SetComp, ast.DictComp, ast.GeneratorExp, ast.Starred)):
                                ok_ = False
                            q_ = parents_.get(id(q_))
                        others_ = [x for x in ast.walk(val) if isinstance(x, (ast.Call, ast.Yield, ast.Await, ast.NamedExpr)) and x is not inner_[0] and x not in chain_
                                   and not any(x is y for y in ast.walk(inner_[0]))]
                        # calls that are evaluated after it (to its right) keep their place when it is bound first
                        pos_ = (getattr(inner_[0], "end_lineno", None), getattr(inner_[0], "end_col_offset", None))
                        if pos_[0] is not None:
                            others_ = [x for x in others_ if not (getattr(x, "lineno", None) is not None and (x.lineno, x.col_offset) >= pos_)]
                        if ok_ and not others_:
                            counter[0] += 1
                            tmp = f"_hoisted{counter[0]}"
                            out.append(ast.copy_location(ast.Assign(targets=[ast.Name(id=tmp, ctx=ast.Store())], value=inner_[0]), st))
                            par_ = parents_.get(id(inner_[0]))
                            for fld_, v_ in ast.iter_fields(par_):
                                if v_ is inner_[0]:
                                    setattr(par_, fld_, ast.Name(id=tmp, ctx=ast.Load()))
                                elif isinstance(v_, list):
                                    for i_, e_ in enumerate(v_):
                                        if e_ is inner_[0]:
                                            v_[i_] = ast.Name(id=tmp, ctx=ast.Load())
                            changed[0] = True
                            out.append(st)
                            continue
                if isinstance(val, ast.Call) and _call_name(val, cur_cls) not in new:
                    parts = list(val.args) + [k.value for k in val.keywords]
                    inner = [a for a in parts if isinstance(a, ast.Call) and _call_name(a, cur_cls) in new and new[_call_name(a, cur_cls)] is not fn_caller]
                    others = [a for a in parts if a not in inner]
                    func_simple = _simple(val.func) or (isinstance(val.func, ast.Attribute) and _simple(val.func.value))
                    if len(inner) == 1 and func_simple and all(_simple(a) or isinstance(a, ast.Constant) for a in others):
                        counter[0] += 1
                        tmp = f"_hoisted{counter[0]}"
                        out.append(ast.copy_location(ast.Assign(targets=[ast.Name(id=tmp, ctx=ast.Store())], value=inner[0]), st))
                        for i_, a in enumerate(val.args):
                            if a is inner[0]:
                                val.args[i_] = ast.Name(id=tmp, ctx=ast.Load())
                        for k in val.keywords:
                            if k.value is inner[0]:
                                k.value = ast.Name(id=tmp, ctx=ast.Load())
                        changed[0] = True
                out.append(st)
            return out

        fn_caller.body = rewrite(fn_caller.body)

    for st in tree.body:
        if isinstance(st, ast.FunctionDef):
            process(st, None)
        elif isinstance(st, ast.ClassDef):
            for x in st.body:
                if isinstance(x, ast.FunctionDef):
                    process(x, st.name)
    return changed[0]


def _const_getattr(tree: ast.AST) -> bool:
    """getattr(obj, "name") with a literal name and no default is the attribute access obj.name."""
    changed = [False]
    mod_tuples: Dict[str, List[str]] = {}
    if isinstance(tree, ast.Module):
        cnt: Dict[str, int] = {}
        for x in ast.walk(tree):
            if isinstance(x, ast.Name) and isinstance(x.ctx, (ast.Store, ast.Del)):
                cnt[x.id] = cnt.get(x.id, 0) + 1
        for st in tree.body:
            if isinstance(st, ast.Assign) and len(st.targets) == 1 and isinstance(st.targets[0], ast.Name) and cnt.get(st.targets[0].id) == 1 \
                    and isinstance(st.value, (ast.Tuple, ast.List)) and st.value.elts and all(isinstance(e, ast.Constant) and isinstance(e.value, str) for e in st.value.elts) \
                    and (isinstance(st.value, ast.Tuple) or not any(isinstance(a, ast.Attribute) and isinstance(a.value, ast.Name) and a.value.id == st.targets[0].id for a in ast.walk(tree))):
                mod_tuples[st.targets[0].id] = [e.value for e in st.value.elts]
    counter = [0]

    class T(ast.NodeTransformer):
        def visit_Call(self, node):
            node = self.generic_visit(node)
            # dict(zip(KEYS, (a, b, c))) with literal string keys -> {"k1": a, "k2": b, "k3": c}
            if isinstance(node.func, ast.Name) and node.func.id == "dict" and len(node.args) == 1 and not node.keywords and isinstance(node.args[0], ast.Call) \
                    and isinstance(node.args[0].func, ast.Name) and node.args[0].func.id == "zip" and len(node.args[0].args) == 2 and not node.args[0].keywords:
                k_, v_ = node.args[0].args
                keys = None
                if isinstance(k_, (ast.Tuple, ast.List)) and all(isinstance(e, ast.Constant) and isinstance(e.value, str) for e in k_.elts):
                    keys = [e.value for e in k_.elts]
                elif isinstance(k_, ast.Name) and k_.id in mod_tuples:
                    keys = mod_tuples[k_.id]
                if keys and isinstance(v_, (ast.Tuple, ast.List)) and len(v_.elts) == len(keys) and len(set(keys)) == len(keys) and not any(isinstance(e, ast.Starred) for e in v_.elts):
                    changed[0] = True
                    return ast.copy_location(ast.Dict(keys=[ast.Constant(value=k) for k in keys], values=list(v_.elts)), node)
            # list(map(f, X)) -> [f(_m) for _m in X]
            if isinstance(node.func, ast.Name) and node.func.id == "list" and len(node.args) == 1 and not node.keywords and isinstance(node.args[0], ast.Call) \
                    and isinstance(node.args[0].func, ast.Name) and node.args[0].func.id == "map" and len(node.args[0].args) == 2 and not node.args[0].keywords \
                    and _simple(node.args[0].args[0]) and not isinstance(node.args[0].args[1], ast.Starred):
                counter[0] += 1
                v = f"_m{counter[0]}"
                changed[0] = True
                return ast.copy_location(ast.ListComp(elt=ast.Call(func=node.args[0].args[0], args=[ast.Name(id=v, ctx=ast.Load())], keywords=[]),
                                                      generators=[ast.comprehension(target=ast.Name(id=v, ctx=ast.Store()), iter=node.args[0].args[1], ifs=[], is_async=0)]), node)
            # dict(a=x, b=y) -> {"a": x, "b": y}
            if isinstance(node.func, ast.Name) and node.func.id == "dict" and not node.args and node.keywords and all(k.arg for k in node.keywords):
                changed[0] = True
                return ast.copy_location(ast.Dict(keys=[ast.Constant(value=k.arg) for k in node.keywords], values=[k.value for k in node.keywords]), node)
            # list(tuple(X)) / tuple(list(X)) / list(list(X)): one materialisation
            if isinstance(node.func, ast.Name) and node.func.id in ("list", "tuple") and len(node.args) == 1 and not node.keywords and isinstance(node.args[0], ast.Call) \
                    and isinstance(node.args[0].func, ast.Name) and node.args[0].func.id in ("list", "tuple") and len(node.args[0].args) == 1 and not node.args[0].keywords:
                node.args[0] = node.args[0].args[0]
                changed[0] = True
            if isinstance(node.func, ast.Name) and node.func.id == "getattr" and len(node.args) == 2 and not node.keywords and isinstance(node.args[1], ast.Constant) \
                    and isinstance(node.args[1].value, str) and node.args[1].value.isidentifier() and _simple(node.args[0]):
                changed[0] = True
                return ast.copy_location(ast.Attribute(value=node.args[0], attr=node.args[1].value, ctx=ast.Load()), node)
            return node

        def visit_Expr(self, node):
            self.generic_visit(node)
            c = node.value
            # setattr(o, "name", v) -> o.name = v   (o a plain name; object.__setattr__ is left alone)
            if isinstance(c, ast.Call) and isinstance(c.func, ast.Name) and c.func.id == "setattr" and len(c.args) == 3 and not c.keywords and isinstance(c.args[0], ast.Name) \
                    and isinstance(c.args[1], ast.Constant) and isinstance(c.args[1].value, str) and c.args[1].value.isidentifier():
                changed[0] = True
                return ast.copy_location(ast.Assign(targets=[ast.Attribute(value=c.args[0], attr=c.args[1].value, ctx=ast.Store())], value=c.args[2]), node)
            # d.update(k1=v1, k2=v2) / d.update({"k1": v1}) -> d["k1"] = v1; d["k2"] = v2   (d a plain local name)
            if isinstance(c, ast.Call) and isinstance(c.func, ast.Attribute) and c.func.attr == "update" and isinstance(c.func.value, ast.Name):
                items = None
                if c.keywords and not c.args and all(k.arg for k in c.keywords):
                    items = [(ast.Constant(value=k.arg), k.value) for k in c.keywords]
                elif len(c.args) == 1 and not c.keywords and isinstance(c.args[0], ast.Dict) and c.args[0].keys and all(isinstance(k, ast.Constant) and isinstance(k.value, str) for k in c.args[0].keys):
                    items = list(zip(c.args[0].keys, c.args[0].values))
                if items:
                    d = c.func.value.id
                    # the values must not read d (they are all evaluated before the first store)
                    if not any(isinstance(x, ast.Name) and x.id == d for (_, v) in items for x in ast.walk(v)):
                        changed[0] = True
                        return [ast.copy_location(ast.Assign(targets=[ast.Subscript(value=ast.Name(id=d, ctx=ast.Load()), slice=k, ctx=ast.Store())], value=v), node) for (k, v) in items]
            return node

    T().visit(tree)
    return changed[0]


def _unroll_literal_loops(fn: ast.FunctionDef, consts: Optional[Dict[str, ast.expr]] = None, nts: Optional[Dict[str, List[str]]] = None) -> bool:
    """`for a, b in ((x1, y1), (x2, y2)): BODY` over a literal display of at most 6 entries -> BODY[x1,y1]; BODY[x2,y2]
    (table-driven code written out; the loop variables must not be assigned in the body, no break/continue/else)."""
    changed = [False]

    consts = consts or {}
    nts = nts or {}
    local_stores = _assigned_names(fn) | {a.arg for a in fn.args.args + fn.args.kwonlyargs}

    def record(e) -> Optional[Dict[str, ast.expr]]:
        """field -> value of a literal `NT(a, b, c=...)` record"""
        if isinstance(e, ast.Call) and isinstance(e.func, ast.Name) and e.func.id in nts and not any(isinstance(a, ast.Starred) for a in e.args) and all(k.arg for k in e.keywords):
            fields = nts[e.func.id]
            if len(e.args) > len(fields):
                return None
            vals = dict(zip(fields, e.args))
            for k in e.keywords:
                if k.arg not in fields or k.arg in vals:
                    return None
                vals[k.arg] = k.value
            if len(vals) == len(fields) and all(literal(v) for v in vals.values()):
                return vals
        return None

    def literal(e) -> bool:
        return _simple(e) or (isinstance(e, (ast.Tuple, ast.List)) and all(literal(x) for x in e.elts)) or (isinstance(e, ast.UnaryOp) and isinstance(e.operand, ast.Constant)) \
            or record(e) is not None

    class _FieldSubst(ast.NodeTransformer):
        def __init__(self, var, vals):
            self.var, self.vals, self.bare = var, vals, False

        def visit_Attribute(self, node):
            if isinstance(node.value, ast.Name) and node.value.id == self.var and node.attr in self.vals:
                return copy.deepcopy(self.vals[node.attr])
            return self.generic_visit(node)

        def visit_Name(self, node):
            if node.id == self.var:
                self.bare = True
            return node

    # locals bound exactly once to a literal table whose entries are not re-bound anywhere in the function
    local_tables: Dict[str, ast.expr] = {}
    store_count: Dict[str, int] = {}
    for x in ast.walk(fn):
        if isinstance(x, ast.Name) and isinstance(x.ctx, (ast.Store, ast.Del)):
            store_count[x.id] = store_count.get(x.id, 0) + 1
    for x in ast.walk(fn):
        if isinstance(x, ast.Assign) and len(x.targets) == 1 and isinstance(x.targets[0], ast.Name) and store_count.get(x.targets[0].id) == 1 and isinstance(x.value, (ast.Tuple, ast.List)) \
                and 1 <= len(x.value.elts) <= 8 and all(literal(e) for e in x.value.elts):
            used = {n.id for n in ast.walk(x.value) if isinstance(n, ast.Name)}
            if not any(store_count.get(u, 0) > 0 and u not in {a.arg for a in fn.args.args} for u in used):
                local_tables[x.targets[0].id] = x.value

    def rewrite(stmts):
        out = []
        for st in stmts:
            for fld in ("body", "orelse", "finalbody"):
                sub = getattr(st, fld, None)
                if isinstance(sub, list) and sub and isinstance(sub[0], ast.stmt) and not isinstance(st, (ast.FunctionDef, ast.ClassDef)):
                    setattr(st, fld, rewrite(sub))
            it_ = st.iter if isinstance(st, ast.For) else None
            if isinstance(it_, ast.Name) and it_.id in consts and it_.id not in local_stores:
                it_ = consts[it_.id]  # a module-level constant table
            elif isinstance(it_, ast.Name) and it_.id in local_tables:
                it_ = local_tables[it_.id]  # a local bound once to a literal table
            if isinstance(st, ast.For) and not st.orelse and isinstance(it_, (ast.Tuple, ast.List)) and 1 <= len(it_.elts) <= 8 and all(literal(e) for e in it_.elts):
                tg = st.target
                # `if C: continue` guards at the top of the body -> the rest of the body under `not C`
                def deguard(body):
                    for i_, b_ in enumerate(body):
                        if isinstance(b_, ast.If) and not b_.orelse and len(b_.body) == 1 and isinstance(b_.body[0], ast.Continue):
                            rest = deguard(body[i_ + 1:])
                            return body[:i_] + ([ast.copy_location(ast.If(test=_negate(b_.test), body=rest, orelse=[]), b_)] if rest else [])
                    return body
                if any(isinstance(x, ast.Continue) for b in st.body for x in ast.walk(b)):
                    nb = deguard(list(st.body))
                    if not any(isinstance(x, ast.Continue) for b in nb for x in ast.walk(b)):
                        st.body = nb
                names = [tg.id] if isinstance(tg, ast.Name) else ([t.id for t in tg.elts] if isinstance(tg, ast.Tuple) and all(isinstance(t, ast.Name) for t in tg.elts) else None)
                body_nodes = [x for b in st.body for x in ast.walk(b)]
                # search loop `for .. in TABLE: if C: S; break`  ->  if C1: S1 / elif C2: S2 / ...
                if names and len(st.body) == 1 and isinstance(st.body[0], ast.If) and not st.body[0].orelse and st.body[0].body and isinstance(st.body[0].body[-1], ast.Break) \
                        and sum(isinstance(x, (ast.Break, ast.Continue)) for x in body_nodes) == 1 and not any(isinstance(x, (ast.FunctionDef, ast.Lambda)) for x in body_nodes) \
                        and not any(isinstance(x, ast.Name) and x.id in names and isinstance(x.ctx, (ast.Store, ast.Del)) for x in body_nodes) \
                        and all(record(e) is None and ((isinstance(tg, ast.Name)) or (isinstance(e, (ast.Tuple, ast.List)) and len(e.elts) == len(names))) for e in it_.elts):
                    chain_ = None
                    for e in reversed(it_.elts):
                        sub = {names[0]: e} if isinstance(tg, ast.Name) else dict(zip(names, e.elts))
                        arm = _Renamer(sub, {}).visit(copy.deepcopy(st.body[0]))
                        arm.body = arm.body[:-1] or [ast.Pass()]
                        arm.orelse = [chain_] if chain_ is not None else []
                        chain_ = arm
                    out.append(chain_)
                    changed[0] = True
                    continue
                if names and not any(isinstance(x, (ast.Break, ast.Continue, ast.FunctionDef, ast.Lambda)) for x in body_nodes) \
                        and not any(isinstance(x, ast.Name) and x.id in names and isinstance(x.ctx, (ast.Store, ast.Del)) for x in body_nodes):
                    ok = True
                    copies = []
                    for e in it_.elts:
                        rec = record(e)
                        if rec is not None and isinstance(tg, ast.Name):
                            body_c = []
                            for b in st.body:
                                fs = _FieldSubst(names[0], rec)
                                body_c.append(fs.visit(copy.deepcopy(b)))
                                if fs.bare:
                                    ok = False
                            if not ok:
                                break
                            copies.append(body_c)
                            continue
                        if rec is not None:
                            if len(rec) != len(names):
                                ok = False
                                break
                            sub = dict(zip(names, rec.values()))
                        elif isinstance(tg, ast.Name):
                            sub = {names[0]: e}
                        elif isinstance(e, (ast.Tuple, ast.List)) and len(e.elts) == len(names):
                            sub = dict(zip(names, e.elts))
                        else:
                            ok = False
                            break
                        copies.append([_Renamer(sub, {}).visit(copy.deepcopy(b)) for b in st.body])
                    if ok:
                        for c in copies:
                            out.extend(c)
                        changed[0] = True
                        continue
            out.append(st)
        return out

    fn.body = rewrite(fn.body)

    # `{k: E for k, f in TABLE}` / `[E for x in TABLE]` over a (module-level) literal table -> the display written out
    class Comp(ast.NodeTransformer):
        def visit_FunctionDef(self, node):
            return self.generic_visit(node) if node is fn else node

        def _table(self, node):
            if len(node.generators) != 1:
                return None
            g = node.generators[0]
            if g.ifs or g.is_async:
                return None
            it = g.iter
            if isinstance(it, ast.Name) and it.id in consts and it.id not in local_stores:
                it = consts[it.id]
            if not (isinstance(it, (ast.Tuple, ast.List)) and 1 <= len(it.elts) <= 8 and all(literal(e) and record(e) is None for e in it.elts)):
                return None
            tg = g.target
            names = [tg.id] if isinstance(tg, ast.Name) else ([t.id for t in tg.elts] if isinstance(tg, ast.Tuple) and all(isinstance(t, ast.Name) for t in tg.elts) else None)
            if not names:
                return None
            subs = []
            for e in it.elts:
                if isinstance(tg, ast.Name):
                    subs.append({names[0]: e})
                elif isinstance(e, (ast.Tuple, ast.List)) and len(e.elts) == len(names):
                    subs.append(dict(zip(names, e.elts)))
                else:
                    return None
            return subs

        def visit_DictComp(self, node):
            node = self.generic_visit(node)
            subs = self._table(node)
            if subs is None or any(isinstance(x, (ast.Lambda, ast.NamedExpr)) for x in ast.walk(node)):
                return node
            changed[0] = True
            return ast.copy_location(ast.Dict(keys=[_Renamer(sb, {}).visit(copy.deepcopy(node.key)) for sb in subs], values=[_Renamer(sb, {}).visit(copy.deepcopy(node.value)) for sb in subs]), node)

        def visit_ListComp(self, node):
            node = self.generic_visit(node)
            subs = self._table(node)
            if subs is None or any(isinstance(x, (ast.Lambda, ast.NamedExpr)) for x in ast.walk(node)):
                return node
            changed[0] = True
            return ast.copy_location(ast.List(elts=[_Renamer(sb, {}).visit(copy.deepcopy(node.elt)) for sb in subs], ctx=ast.Load()), node)

    Comp().visit(fn)
    return changed[0]


class _ReplaceName(ast.NodeTransformer):
    def __init__(self, name: str, expr: ast.expr):
        self.name, self.expr = name, expr

    def visit_Name(self, node):
        if node.id == self.name and isinstance(node.ctx, ast.Load):
            return ast.copy_location(copy.deepcopy(self.expr), node)
        return node


def _unroll_local_dict_tables(fn: ast.FunctionDef) -> bool:
    """A local dict used only as a table:

        D = {"a": x, "b": y}; if c: D["z"] = w
        for v in D.values(): BODY        for k, v in D.items(): BODY

    is written out entry by entry (conditional entries under their condition).  Applied only when every use of D is
    one of these forms, the conditions / values are plain names or attribute chains that are not re-bound in between,
    and the bodies neither re-bind the loop names nor break / continue."""
    changed = [False]

    def uses(node, name):
        return [x for x in ast.walk(node) if isinstance(x, ast.Name) and x.id == name]

    def try_block(stmts: List[ast.stmt]) -> Optional[List[ast.stmt]]:
        for i, st in enumerate(stmts):
            if not (isinstance(st, ast.Assign) and len(st.targets) == 1 and isinstance(st.targets[0], ast.Name) and isinstance(st.value, ast.Dict) and st.value.keys
                    and all(isinstance(k, ast.Constant) and isinstance(k.value, str) for k in st.value.keys)):
                continue
            D = st.targets[0].id
            prebind = []
            if not all(_simple(v) for v in st.value.values):
                # values that are not plain names are bound to locals first, in display order (evaluated once, as before)
                if not all(k.value.isidentifier() for k in st.value.keys) or any(isinstance(n, ast.Name) and n.id.startswith(D + "__") for n in ast.walk(fn)):
                    continue
                newvals = []
                for k, v in zip(st.value.keys, st.value.values):
                    if _simple(v):
                        newvals.append(v)
                    else:
                        nm_ = f"{D}__{k.value}"
                        prebind.append(ast.copy_location(ast.Assign(targets=[ast.Name(id=nm_, ctx=ast.Store())], value=v), st))
                        newvals.append(ast.Name(id=nm_, ctx=ast.Load()))
                st = ast.copy_location(ast.Assign(targets=st.targets, value=ast.Dict(keys=st.value.keys, values=newvals)), st)
            total_uses = len(uses(fn, D))
            entries = [(k, v, None) for k, v in zip(st.value.keys, st.value.values)]
            seen_uses = 1
            plan = {}  # index -> replacement statements
            ok = True
            loops = 0
            guard_names = {x.id for (_, v, _) in entries for x in ast.walk(v) if isinstance(x, ast.Name)}
            for j in range(i + 1, len(stmts)):
                s2 = stmts[j]
                n_here = len(uses(s2, D))
                if n_here == 0:
                    if _assigned_names(s2) & guard_names:
                        ok = False
                        break
                    continue
                seen_uses += n_here

                def item_store(x):
                    return isinstance(x, ast.Assign) and len(x.targets) == 1 and isinstance(x.targets[0], ast.Subscript) and isinstance(x.targets[0].value, ast.Name) and x.targets[0].value.id == D \
                        and isinstance(x.targets[0].slice, ast.Constant) and isinstance(x.targets[0].slice.value, str) and _simple(x.value) and n_here == 1

                if loops == 0 and item_store(s2):
                    entries.append((s2.targets[0].slice, s2.value, None))
                    guard_names |= {x.id for x in ast.walk(s2.value) if isinstance(x, ast.Name)}
                    plan[j] = []
                    continue
                if loops == 0 and isinstance(s2, ast.If) and not s2.orelse and len(s2.body) == 1 and item_store(s2.body[0]) and _simple(s2.test):
                    entries.append((s2.body[0].targets[0].slice, s2.body[0].value, s2.test))
                    guard_names |= {x.id for x in ast.walk(s2) if isinstance(x, ast.Name) and x.id != D}
                    plan[j] = []
                    continue
                if isinstance(s2, ast.For) and not s2.orelse and len(uses(s2.iter, D)) == 1 and n_here == 1:
                    it = s2.iter
                    mode = None
                    if isinstance(it, ast.Name):
                        mode = "keys"
                    elif isinstance(it, ast.Call) and isinstance(it.func, ast.Attribute) and isinstance(it.func.value, ast.Name) and it.func.value.id == D and not it.args and not it.keywords and it.func.attr in ("keys", "values", "items"):
                        mode = it.func.attr
                    tg = s2.target
                    names = [tg.id] if isinstance(tg, ast.Name) else ([t.id for t in tg.elts] if isinstance(tg, ast.Tuple) and all(isinstance(t, ast.Name) for t in tg.elts) else None)
                    body_nodes = [x for b in s2.body for x in ast.walk(b)]
                    if mode is None or names is None or (mode == "items") != (len(names) == 2) or (mode != "items" and len(names) != 1) or len(entries) > 8 \
                            or any(isinstance(x, (ast.Break, ast.Continue, ast.FunctionDef, ast.Lambda)) for x in body_nodes) \
                            or any(isinstance(x, ast.Name) and x.id in names and isinstance(x.ctx, (ast.Store, ast.Del)) for x in body_nodes) \
                            or (_assigned_names(ast.Module(body=s2.body, type_ignores=[])) & guard_names) \
                            or len({k.value for (k, _, _) in entries}) != len(entries):
                        ok = False
                        break
                    rep = []
                    for (k, v, c) in entries:
                        sub = {names[0]: k} if mode == "keys" else ({names[0]: v} if mode == "values" else {names[0]: k, names[1]: v})
                        body = [_Renamer(sub, {}).visit(copy.deepcopy(b)) for b in s2.body]
                        rep.extend(body if c is None else [ast.copy_location(ast.If(test=copy.deepcopy(c), body=body, orelse=[]), s2)])
                    plan[j] = rep
                    loops += 1
                    continue
                # the table handed on as a whole, once (an argument / a returned value): the display it stands for, per
                # combination of the entry conditions
                whole = [x for x in uses(s2, D)]
                conds_ = [c for (_, _, c) in entries if c is not None]
                if n_here == 1 and isinstance(whole[0].ctx, ast.Load) and isinstance(s2, (ast.Expr, ast.Assign, ast.Return)) and len({ast.unparse(c) for c in conds_}) <= 2 \
                        and seen_uses == total_uses and len({k.value for (k, _, _) in entries}) == len(entries) \
                        and not any(isinstance(p_, (ast.Lambda, ast.ListComp, ast.GeneratorExp, ast.DictComp, ast.SetComp)) for p_ in ast.walk(s2)):
                    uniq = []
                    for c in conds_:
                        if ast.unparse(c) not in [ast.unparse(u) for u in uniq]:
                            uniq.append(c)

                    def build(assign: Dict[str, bool], rest: List[ast.expr]):
                        if rest:
                            c = rest[0]
                            return [ast.copy_location(ast.If(test=copy.deepcopy(c), body=build({**assign, ast.unparse(c): True}, rest[1:]),
                                                             orelse=build({**assign, ast.unparse(c): False}, rest[1:])), s2)]
                        ks = [(k, v) for (k, v, c) in entries if c is None or assign[ast.unparse(c)]]
                        disp = ast.Dict(keys=[copy.deepcopy(k) for k, _ in ks], values=[copy.deepcopy(v) for _, v in ks])
                        return [_ReplaceName(D, disp).visit(copy.deepcopy(s2))]

                    plan[j] = build({}, uniq)
                    loops += 1
                    continue
                ok = False
                break
            if not ok or loops == 0 or seen_uses != total_uses:
                continue
            out = stmts[:i] + prebind
            for j in range(i + 1, len(stmts)):
                out.extend(plan[j] if j in plan else [stmts[j]])
            return out
        return None

    def rewrite(stmts):
        for st in stmts:
            for fld in ("body", "orelse", "finalbody"):
                sub = getattr(st, fld, None)
                if isinstance(sub, list) and sub and isinstance(sub[0], ast.stmt) and not isinstance(st, (ast.FunctionDef, ast.ClassDef)):
                    setattr(st, fld, rewrite(sub))
            if isinstance(st, ast.Try):
                for hd in st.handlers:
                    hd.body = rewrite(hd.body)
        for _ in range(4):
            r = try_block(stmts)
            if r is None:
                break
            stmts = r
            changed[0] = True
        return stmts

    fn.body = rewrite(fn.body)
    return changed[0]


def _merge_dict_builds(fn: ast.FunctionDef) -> bool:
    """`d = {..}; d["k"] = v; ...; return d`  ->  `return {.., "k": v}` (item stores that directly follow the display and
    do not read d are part of the display; a dict returned right after being built needs no name)."""
    changed = [False]

    def rewrite(stmts):
        for st in stmts:
            for fld in ("body", "orelse", "finalbody"):
                sub = getattr(st, fld, None)
                if isinstance(sub, list) and sub and isinstance(sub[0], ast.stmt) and not isinstance(st, (ast.FunctionDef, ast.ClassDef)):
                    setattr(st, fld, rewrite(sub))
            if isinstance(st, ast.Try):
                for hd in st.handlers:
                    hd.body = rewrite(hd.body)
        out = []
        i = 0
        while i < len(stmts):
            st = stmts[i]
            if isinstance(st, ast.Assign) and len(st.targets) == 1 and isinstance(st.targets[0], ast.Name) and isinstance(st.value, ast.Dict) and all(k is not None for k in st.value.keys):
                d = st.targets[0].id
                j = i + 1
                while j < len(stmts):
                    s2 = stmts[j]
                    if isinstance(s2, ast.Assign) and len(s2.targets) == 1 and isinstance(s2.targets[0], ast.Subscript) and isinstance(s2.targets[0].value, ast.Name) and s2.targets[0].value.id == d \
                            and isinstance(s2.targets[0].slice, ast.Constant) and not any(isinstance(x, ast.Name) and x.id == d for x in ast.walk(s2.value)) \
                            and not any(isinstance(k, ast.Constant) and k.value == s2.targets[0].slice.value for k in st.value.keys):
                        st.value.keys.append(s2.targets[0].slice)
                        st.value.values.append(s2.value)
                        changed[0] = True
                        j += 1
                        continue
                    break
                if j < len(stmts) and isinstance(stmts[j], ast.Return) and isinstance(stmts[j].value, ast.Name) and stmts[j].value.id == d:
                    out.append(ast.copy_location(ast.Return(value=st.value), stmts[j]))
                    changed[0] = True
                    i = j + 1
                    continue
                out.append(st)
                i = j
                continue
            out.append(st)
            i += 1
        return out

    fn.body = rewrite(fn.body)
    return changed[0]


def _search_loop_to_all_any(fn: ast.FunctionDef) -> bool:
    """A predicate written as a scan --
           for t in X:                       for t in X:
               if not P(t): return False         if P(t): return True
           return True                       return False
    -- is `return all(P(t) for t in X)` / `return any(P(t) for t in X)` (same short-circuit order)."""
    body = [b for b in fn.body if not (isinstance(b, ast.Expr) and isinstance(b.value, ast.Constant))]
    if len(body) != 2 or not isinstance(body[0], ast.For) or body[0].orelse or not isinstance(body[1], ast.Return):
        return False
    loop, last = body
    if len(loop.body) != 1 or not isinstance(loop.body[0], ast.If) or loop.body[0].orelse:
        return False
    iff = loop.body[0]
    if len(iff.body) != 1 or not isinstance(iff.body[0], ast.Return):
        return False
    a, b = iff.body[0].value, last.value
    if not (isinstance(a, ast.Constant) and isinstance(b, ast.Constant) and isinstance(a.value, bool) and isinstance(b.value, bool) and a.value != b.value):
        return False
    if any(isinstance(x, (ast.NamedExpr, ast.Yield, ast.Await)) for x in ast.walk(iff.test)):
        return False
    elt = iff.test if a.value else _negate(iff.test)
    gen = ast.GeneratorExp(elt=elt, generators=[ast.comprehension(target=loop.target, iter=loop.iter, ifs=[], is_async=0)])
    new_ret = ast.copy_location(ast.Return(value=ast.Call(func=ast.Name(id="any" if a.value else "all", ctx=ast.Load()), args=[gen], keywords=[])), loop)
    fn.body = [x for x in fn.body if x is not loop and x is not last] + [new_ret]
    ast.fix_missing_locations(fn)
    return True


def _expand_kwargs_splat(fn: ast.FunctionDef) -> bool:
    """`kw = dict(a=X, b=Y)` (or the display form) assigned once at the top level of the function body and used only as
    `**kw` in later calls: the values are bound once to locals `kw__a`, `kw__b` (same evaluation order and count), and each
    `**kw` becomes the explicit keywords `a=kw__a, b=kw__b`."""
    changed = False
    for i, st in enumerate(list(fn.body)):
        if not (isinstance(st, ast.Assign) and len(st.targets) == 1 and isinstance(st.targets[0], ast.Name)):
            continue
        v = st.value
        items = None
        if isinstance(v, ast.Dict) and v.keys and all(isinstance(k, ast.Constant) and isinstance(k.value, str) and k.value.isidentifier() for k in v.keys):
            items = [(k.value, x) for k, x in zip(v.keys, v.values)]
        elif isinstance(v, ast.Call) and isinstance(v.func, ast.Name) and v.func.id == "dict" and not v.args and v.keywords and all(k.arg for k in v.keywords):
            items = [(k.arg, k.value) for k in v.keywords]
        if not items or len({k for k, _ in items}) != len(items):
            continue
        D = st.targets[0].id
        uses = [x for x in _walk_own(fn, True) if isinstance(x, ast.Name) and x.id == D]
        if any(isinstance(x, ast.Name) and x.id == D for x in ast.walk(fn) if x not in uses):
            continue  # also referenced from a nested function
        if sum(isinstance(x.ctx, ast.Store) for x in uses) != 1:
            continue
        splats = [k for c in _walk_own(fn, True) if isinstance(c, ast.Call) for k in c.keywords if k.arg is None and isinstance(k.value, ast.Name) and k.value.id == D]
        if not splats or len(splats) != len(uses) - 1:
            continue
        later = set()
        for s2 in fn.body[i + 1:]:
            later |= {id(x) for x in ast.walk(s2)}
        if any(id(k.value) not in later for k in splats):
            continue
        if any(isinstance(n, ast.Name) and n.id.startswith(D + "__") for n in ast.walk(fn)):
            continue
        ok = True
        for c in _walk_own(fn, True):
            if isinstance(c, ast.Call) and any(k in splats for k in c.keywords):
                explicit = {k.arg for k in c.keywords if k.arg}
                if explicit & {k for k, _ in items} or sum(1 for k in c.keywords if k.arg is None) > 1:
                    ok = False
        if not ok:
            continue
        binds = [ast.copy_location(ast.Assign(targets=[ast.Name(id=f"{D}__{k}", ctx=ast.Store())], value=x), st) for k, x in items]
        for c in _walk_own(fn, True):
            if isinstance(c, ast.Call) and any(k in splats for k in c.keywords):
                kws = []
                for k in c.keywords:
                    if k in splats:
                        kws.extend(ast.keyword(arg=kk, value=ast.Name(id=f"{D}__{kk}", ctx=ast.Load())) for kk, _ in items)
                    else:
                        kws.append(k)
                c.keywords = kws
        idx = fn.body.index(st)
        fn.body[idx:idx + 1] = binds
        changed = True
    if changed:
        ast.fix_missing_locations(fn)
    return changed


def _scalarise_local_dicts(fn: ast.FunctionDef) -> bool:
    """A local dict with literal string keys that is built by item stores (top-level, or the same keys in both branches of
    an if/else), read back only as `d["k"]`, and then used exactly once as a whole (an argument, a return value):
    the items become locals `d__k` and the one whole use becomes the display `{"k": d__k, ...}` (insertion order)."""
    changed = [False]

    def key_of(t):
        if isinstance(t, ast.Subscript) and isinstance(t.value, ast.Name) and isinstance(t.slice, ast.Constant) and isinstance(t.slice.value, str) and t.slice.value.isidentifier():
            return t.value.id, t.slice.value
        return None, None

    def try_block(stmts):
        for i, st in enumerate(stmts):
            if not (isinstance(st, ast.Assign) and len(st.targets) == 1 and isinstance(st.targets[0], ast.Name) and isinstance(st.value, ast.Dict)
                    and all(isinstance(k, ast.Constant) and isinstance(k.value, str) and k.value.isidentifier() for k in st.value.keys)):
                continue
            D = st.targets[0].id
            all_uses = [x for x in ast.walk(fn) if isinstance(x, ast.Name) and x.id == D]
            if sum(isinstance(x.ctx, ast.Store) for x in all_uses) != 1 or any(isinstance(n, ast.Name) and n.id.startswith(D + "__") for n in ast.walk(fn)):
                continue
            keys = [k.value for k in st.value.keys]
            seen = 1
            escape_j = None
            ok = True
            for j in range(i + 1, len(stmts)):
                s2 = stmts[j]
                uses_here = [x for x in ast.walk(s2) if isinstance(x, ast.Name) and x.id == D]
                if not uses_here:
                    continue
                seen += len(uses_here)
                parents = {}
                for p_ in ast.walk(s2):
                    for c_ in ast.iter_child_nodes(p_):
                        parents[id(c_)] = p_
                bare = [x for x in uses_here if not (isinstance(parents.get(id(x)), ast.Subscript) and parents[id(x)].value is x and key_of(parents[id(x)])[1] is not None)]
                if bare:
                    if len(bare) == 1 and isinstance(s2, (ast.Expr, ast.Return, ast.Assign)) and isinstance(bare[0].ctx, ast.Load):
                        escape_j = j
                        break
                    ok = False
                    break
                # item stores: top-level, or matching key sets in both branches of an if/else made of item stores only
                if isinstance(s2, ast.Assign) and len(s2.targets) == 1 and key_of(s2.targets[0])[0] == D:
                    k = key_of(s2.targets[0])[1]
                    if k not in keys:
                        keys.append(k)
                elif isinstance(s2, ast.If) and s2.orelse:
                    def stored(block):
                        ks = []
                        for b in block:
                            if isinstance(b, ast.Assign) and len(b.targets) == 1 and key_of(b.targets[0])[0] == D:
                                ks.append(key_of(b.targets[0])[1])
                            elif any(isinstance(x, ast.Subscript) and key_of(x)[0] == D and isinstance(x.ctx, ast.Store) for x in ast.walk(b)):
                                return None
                        return ks
                    a, b = stored(s2.body), stored(s2.orelse)
                    if a is None or b is None or set(a) != set(b):
                        ok = False
                        break
                    for k in a:
                        if k not in keys:
                            keys.append(k)
                elif any(isinstance(x, ast.Subscript) and key_of(x)[0] == D and isinstance(x.ctx, (ast.Store, ast.Del)) for x in ast.walk(s2)):
                    ok = False
                    break
            if not ok or escape_j is None or seen != len(all_uses):
                continue
            # every read d["k"] must be of a key stored before it (in statement order)
            class Rw(ast.NodeTransformer):
                def visit_Subscript(self, node):
                    d, k = key_of(node)
                    if d == D:
                        return ast.copy_location(ast.Name(id=f"{D}__{k}", ctx=node.ctx), node)
                    return self.generic_visit(node)

                def visit_Name(self, node):
                    if node.id == D and isinstance(node.ctx, ast.Load):
                        return ast.copy_location(ast.Dict(keys=[ast.Constant(value=k) for k in keys], values=[ast.Name(id=f"{D}__{k}", ctx=ast.Load()) for k in keys]), node)
                    return node

            init = [ast.copy_location(ast.Assign(targets=[ast.Name(id=f"{D}__{k.value}", ctx=ast.Store())], value=v), st) for k, v in zip(st.value.keys, st.value.values)]
            new = stmts[:i] + init + [Rw().visit(s2) for s2 in stmts[i + 1:escape_j + 1]] + stmts[escape_j + 1:]
            return new
        return None

    def rewrite(stmts):
        for st in stmts:
            for fld in ("body", "orelse", "finalbody"):
                sub = getattr(st, fld, None)
                if isinstance(sub, list) and sub and isinstance(sub[0], ast.stmt) and not isinstance(st, (ast.FunctionDef, ast.ClassDef)):
                    setattr(st, fld, rewrite(sub))
            if isinstance(st, ast.Try):
                for hd in st.handlers:
                    hd.body = rewrite(hd.body)
        for _ in range(4):
            r = try_block(stmts)
            if r is None:
                break
            stmts = r
            changed[0] = True
        return stmts

    fn.body = rewrite(fn.body)
    if changed[0]:
        ast.fix_missing_locations(fn)
    return changed[0]


def _inline_none_flags(fn: ast.FunctionDef) -> bool:
    """`flag = X is [not] None` with X an attribute chain over a name the function never re-binds (and an attribute it
    never stores), flag bound once: every later read of `flag` becomes the test itself (`not flag` the flipped test)."""
    import copy
    changed = False
    own = list(_walk_own(fn, True))
    stores = {}
    for x in own:
        if isinstance(x, ast.Name) and isinstance(x.ctx, (ast.Store, ast.Del)):
            stores[x.id] = stores.get(x.id, 0) + 1
    attr_stores = {ast.unparse(x) for x in own if isinstance(x, ast.Attribute) and isinstance(x.ctx, (ast.Store, ast.Del))}
    nested_names = {n.id for d in own if d is not fn and isinstance(d, (ast.FunctionDef, ast.Lambda, ast.ClassDef)) for n in ast.walk(d) if isinstance(n, ast.Name)}

    def chain_root(e):
        while isinstance(e, ast.Attribute):
            e = e.value
        return e if isinstance(e, ast.Name) else None

    def blocks(stmts):
        yield stmts
        for st in stmts:
            if isinstance(st, (ast.FunctionDef, ast.ClassDef)):
                continue
            for fld in ("body", "orelse", "finalbody"):
                sub = getattr(st, fld, None)
                if isinstance(sub, list) and sub and isinstance(sub[0], ast.stmt):
                    yield from blocks(sub)
            if isinstance(st, ast.Try):
                for hd in st.handlers:
                    yield from blocks(hd.body)

    for blk in list(blocks(fn.body)):
        for st in list(blk):
            if not (isinstance(st, ast.Assign) and len(st.targets) == 1 and isinstance(st.targets[0], ast.Name)):
                continue
            F = st.targets[0].id
            v = st.value
            if not (isinstance(v, ast.Compare) and len(v.ops) == 1 and isinstance(v.ops[0], (ast.Is, ast.IsNot))
                    and isinstance(v.comparators[0], ast.Constant) and v.comparators[0].value is None):
                continue
            root = chain_root(v.left)
            if root is None or stores.get(F, 0) != 1 or F in nested_names or stores.get(root.id, 0) != 0:
                continue
            if any(ast.unparse(v.left) == a or ast.unparse(v.left).startswith(a + ".") for a in attr_stores):
                continue
            loads = [x for x in own if isinstance(x, ast.Name) and x.id == F and isinstance(x.ctx, ast.Load)]
            if not loads or any((x.lineno, x.col_offset) <= (st.lineno, st.col_offset) for x in loads):
                continue

            class Rw(ast.NodeTransformer):
                def visit_UnaryOp(self, node):
                    if isinstance(node.op, ast.Not) and isinstance(node.operand, ast.Name) and node.operand.id == F:
                        return ast.copy_location(_negate(copy.deepcopy(v)), node)
                    return self.generic_visit(node)

                def visit_Name(self, node):
                    if node.id == F and isinstance(node.ctx, ast.Load):
                        return ast.copy_location(copy.deepcopy(v), node)
                    return node

                def visit_FunctionDef(self, node):
                    return node

            blk.remove(st)
            for k, s2 in enumerate(fn.body):
                fn.body[k] = Rw().visit(s2)
            if not blk:
                blk.append(ast.Pass())
            changed = True
            own = list(_walk_own(fn, True))
    if changed:
        ast.fix_missing_locations(fn)
    return changed


def _thread_none_flags(fn: ast.FunctionDef) -> bool:
    """An if-chain every leaf of which ends by setting the same local to None or to a value, followed directly by
    `if <local> is not None: BODY`: BODY moves into the leaves that set a value (jump threading on the flag)."""
    changed = [False]

    def leaves(ifst: ast.If) -> Optional[List[List[ast.stmt]]]:
        out = []
        for br in (ifst.body, ifst.orelse):
            if not br:
                return None
            if len(br) == 1 and isinstance(br[0], ast.If):
                sub = leaves(br[0])
                if sub is None:
                    return None
                out += sub
            else:
                out.append(br)
        return out

    def flag_of(br: List[ast.stmt]) -> Optional[str]:
        last = br[-1]
        if isinstance(last, ast.Assign) and len(last.targets) == 1 and isinstance(last.targets[0], ast.Name):
            return last.targets[0].id
        return None

    def definitely_value(e: ast.expr) -> bool:
        return isinstance(e, ast.JoinedStr) or (isinstance(e, ast.Constant) and e.value is not None)

    def rewrite(stmts):
        out = []
        i = 0
        while i < len(stmts):
            st = stmts[i]
            for fld in ("body", "orelse", "finalbody"):
                sub = getattr(st, fld, None)
                if isinstance(sub, list) and sub and isinstance(sub[0], ast.stmt) and not isinstance(st, (ast.FunctionDef, ast.ClassDef)):
                    setattr(st, fld, rewrite(sub))
            nxt = stmts[i + 1] if i + 1 < len(stmts) else None
            if isinstance(st, ast.If) and isinstance(nxt, ast.If) and not nxt.orelse and isinstance(nxt.test, ast.Compare) and len(nxt.test.ops) == 1 and isinstance(nxt.test.ops[0], ast.IsNot) \
                    and isinstance(nxt.test.left, ast.Name) and isinstance(nxt.test.comparators[0], ast.Constant) and nxt.test.comparators[0].value is None:
                m = nxt.test.left.id
                lv = leaves(st)
                if lv and all(flag_of(b) == m for b in lv):
                    used_elsewhere = any(isinstance(x, ast.Name) and x.id == m and isinstance(x.ctx, ast.Load) for b in lv for s_ in b[:-1] for x in ast.walk(s_)) or \
                        any(isinstance(x, ast.Name) and x.id == m for x in ast.walk(st.test))
                    if not used_elsewhere:
                        for b in lv:
                            v = b[-1].value
                            if isinstance(v, ast.Constant) and v.value is None:
                                continue
                            b.extend(copy.deepcopy(nxt.body) if definitely_value(v) else [copy.deepcopy(nxt)])
                        out.append(st)
                        changed[0] = True
                        i += 2
                        continue
            out.append(st)
            i += 1
        return out

    fn.body = rewrite(fn.body)
    return changed[0]


def _import_new_helpers(tree: ast.Module, modname: str, all_trees: Dict[str, ast.Module], table: Set[str]) -> List[str]:
    """New module-level helpers (functions, context-manager classes) of a sibling module that this module imports by
    name are copied in, so that they can be written out at their call sites like local helpers.  A helper is copied only
    when every global it uses is a builtin, is bound identically in this module (import numpy as np), or is a simple
    constant of its own module (copied along)."""
    import builtins

    def mod_rel(target: str) -> Optional[str]:
        for cand in (target.replace(".", os.sep) + ".py", os.path.join(target.replace(".", os.sep), "__init__.py")):
            if cand in all_trees:
                return cand
        return None

    def import_bindings(t: ast.Module) -> Dict[str, str]:
        out = {}
        for st in t.body:
            if isinstance(st, ast.Import):
                for a in st.names:
                    out[a.asname or a.name.split(".")[0]] = "import " + a.name + (" as " + a.asname if a.asname else "")
            elif isinstance(st, ast.ImportFrom):
                for a in st.names:
                    out[a.asname or a.name] = f"from {'.' * st.level}{st.module or ''} import {a.name}"
        return out

    here = import_bindings(tree)
    top_defs = {st.name for st in tree.body if isinstance(st, (ast.FunctionDef, ast.ClassDef))}
    top_assigned = {t.id for st in tree.body if isinstance(st, ast.Assign) for t in st.targets if isinstance(t, ast.Name)}
    pkg = modname.split(".")[:-1]
    copied: List[str] = []
    add_defs: List[ast.stmt] = []
    add_consts: List[ast.stmt] = []
    add_imports: List[str] = []
    for node in ast.walk(tree):
        if not isinstance(node, ast.ImportFrom):
            continue
        if node.level:
            base = pkg[: len(pkg) - (node.level - 1)] if node.level - 1 <= len(pkg) else None
            if base is None:
                continue
            target = ".".join(base + ([node.module] if node.module else []))
        else:
            target = node.module or ""
        rel = mod_rel(target)
        if rel is None or target == modname:
            continue
        src_tree = all_trees[rel]
        there = import_bindings(src_tree)
        src_consts = {}
        cnt = {}
        for st in src_tree.body:
            if isinstance(st, ast.Assign):
                for t in st.targets:
                    if isinstance(t, ast.Name):
                        cnt[t.id] = cnt.get(t.id, 0) + 1
        for st in src_tree.body:
            if isinstance(st, ast.Assign) and len(st.targets) == 1 and isinstance(st.targets[0], ast.Name) and cnt.get(st.targets[0].id) == 1:
                src_consts[st.targets[0].id] = st
        base_classes = {q.split(":")[1].split(".")[0] for q in table if q.startswith(target + ":") and "." in q.split(":")[1]}
        for a in node.names:
            local = a.asname or a.name
            if local in top_defs or local in top_assigned or local in {d.name for d in add_defs}:
                continue
            d = next((st for st in src_tree.body if isinstance(st, (ast.FunctionDef, ast.ClassDef)) and st.name == a.name), None)
            if d is None:
                continue
            if isinstance(d, ast.FunctionDef) and _qual(target, None, d.name) in table:
                continue
            if isinstance(d, ast.ClassDef) and (d.name in base_classes or d.bases or set(x.name for x in d.body if isinstance(x, ast.FunctionDef)) - {"__init__", "__enter__", "__exit__"}):
                continue
            # globals used by the helper
            local_names = set()
            for x in ast.walk(d):
                if isinstance(x, ast.Name) and isinstance(x.ctx, (ast.Store, ast.Del)):
                    local_names.add(x.id)
                elif isinstance(x, ast.arg):
                    local_names.add(x.arg)
                elif isinstance(x, (ast.Import, ast.ImportFrom)):
                    for al in x.names:
                        local_names.add(al.asname or al.name.split(".")[0])
            used = {x.id for x in ast.walk(d) if isinstance(x, ast.Name) and isinstance(x.ctx, ast.Load)} - local_names
            ok = True
            consts_needed = []
            imports_needed = []

            def available(i: str) -> bool:
                if hasattr(builtins, i):
                    return True
                if i in there and here.get(i) == there[i]:
                    return True
                if i in there and i not in here and i not in top_defs and i not in top_assigned and not there[i].startswith("from ."):
                    imports_needed.append(there[i])  # an absolute import of the helper's module that this module lacks
                    return True
                return False

            for g in sorted(used):
                if available(g):
                    continue
                if g in src_consts and g not in top_assigned and g not in top_defs and g not in here:
                    cst = src_consts[g]
                    inner = {x.id for x in ast.walk(cst.value) if isinstance(x, ast.Name)}
                    if all(available(i) for i in inner) and not any(isinstance(x, (ast.Lambda, ast.Yield, ast.Await)) for x in ast.walk(cst.value)):
                        consts_needed.append(cst)
                        continue
                if g == d.name:
                    continue
                ok = False
                break
            if not ok:
                continue
            dd = copy.deepcopy(d)
            dd.name = local
            add_defs.append(dd)
            for imp in imports_needed:
                if imp not in add_imports:
                    add_imports.append(imp)
            for cst in consts_needed:
                if cst.targets[0].id not in {c.targets[0].id for c in add_consts}:
                    add_consts.append(copy.deepcopy(cst))
            copied.append(f"{target}:{a.name}")
    if add_defs:
        # after the leading imports / docstring
        i = 0
        while i < len(tree.body) and (isinstance(tree.body[i], (ast.Import, ast.ImportFrom)) or (isinstance(tree.body[i], ast.Expr) and isinstance(tree.body[i].value, ast.Constant))):
            i += 1
        tree.body[i:i] = [x for imp in add_imports for x in ast.parse(imp).body] + add_consts + add_defs
        # the function-level `from .mod import helper` statements would re-bind the name to the original: drop those aliases
        names = {d.name for d in add_defs}

        class DropImports(ast.NodeTransformer):
            def visit_ImportFrom(self, node):
                keep = [al for al in node.names if (al.asname or al.name) not in names]
                if len(keep) == len(node.names):
                    return node
                if not keep:
                    return ast.Pass()
                node.names = keep
                return node

        for st in tree.body:
            if isinstance(st, (ast.FunctionDef, ast.ClassDef)):
                DropImports().visit(st)
        ast.fix_missing_locations(tree)
    return copied


def normalize_sources(sources: Dict[str, str], table: Optional[Set[str]] = None) -> Tuple[Dict[str, str], List[str]]:
    table = table if table is not None else baseline_table()
    out = dict(sources)
    inlined: List[str] = []
    all_trees: Dict[str, ast.Module] = {}
    for rel, src in sources.items():
        try:
            all_trees[rel] = ast.parse(src)
        except SyntaxError:
            pass
    for rel, src in sources.items():
        modname = rel[:-3].replace(os.sep, ".")
        if modname.endswith(".__init__"):
            modname = modname[: -len(".__init__")]
        tree = ast.parse(src)
        changed_any = False
        # syntactic sugar first, in every function (helpers included): match statements, walrus tests, partial objects
        # that are only called, open/close pairs
        sugar = False
        for fn_ in [x for x in ast.walk(tree) if isinstance(x, ast.FunctionDef)]:
            sugar |= _desugar_match(fn_)
            sugar |= _desugar_walrus_and_partial(fn_)
            sugar |= _open_close_to_with(fn_)
            sugar |= _expand_kwargs_splat(fn_)
            sugar |= _search_loop_to_all_any(fn_)
        if sugar:
            changed_any = True
            ast.fix_missing_locations(tree)
            tree = ast.parse(ast.unparse(tree))
            inlined.append(f"{modname}:<match / walrus / partial / open-close / **kwargs / scan predicates written out>")
        rec_done = _record_classes_to_tuples(tree, modname, table)
        if rec_done:
            changed_any = True
            tree = ast.parse(ast.unparse(tree))
            inlined.extend(rec_done)
        imported = _import_new_helpers(tree, modname, all_trees, table)
        if imported:
            changed_any = True
            inlined.extend(f"{x} (copied into {modname})" for x in imported)
        _BASES.clear()
        _METHODS.clear()
        for st in tree.body:
            if isinstance(st, ast.ClassDef):
                _BASES[st.name] = [b.id for b in st.bases if isinstance(b, ast.Name)]
                _METHODS[st.name] = {x.name for x in st.body if isinstance(x, ast.FunctionDef)}
        gen_done = _inline_generators(tree, modname, table) + _inline_context_managers(tree, modname, table)
        cls_done = _inline_class_context_managers(tree, modname, table)
        if cls_done:
            changed_any = True
            ast.fix_missing_locations(tree)
            inlined.extend(sorted(set(cls_done)))
        if gen_done:
            changed_any = True
            ast.fix_missing_locations(tree)
            for nm_ in sorted(set(gen_done)):
                short = nm_.split(":")[-1].split(".")[-1]
                refs = sum(1 for n in ast.walk(tree) if (isinstance(n, ast.Name) and n.id == short) or (isinstance(n, ast.Attribute) and n.attr == short))
                if refs == 0:
                    tree.body = [s_ for s_ in tree.body if not (isinstance(s_, ast.FunctionDef) and s_.name == short)]
                    for c_ in tree.body:
                        if isinstance(c_, ast.ClassDef):
                            c_.body = [s_ for s_ in c_.body if not (isinstance(s_, ast.FunctionDef) and s_.name == short)] or [ast.Pass()]
                inlined.append(nm_)
        if _hoist_nested_helper_calls(tree, modname, table):
            changed_any = True
            ast.fix_missing_locations(tree)
        unrolled = False
        mod_consts: Dict[str, ast.expr] = {}
        _seen_c: Dict[str, int] = {}
        for st in tree.body:
            for n_ in ast.walk(st) if not isinstance(st, (ast.FunctionDef, ast.ClassDef)) else []:
                if isinstance(n_, ast.Name) and isinstance(n_.ctx, ast.Store):
                    _seen_c[n_.id] = _seen_c.get(n_.id, 0) + 1
        for st in tree.body:
            if isinstance(st, ast.Assign) and len(st.targets) == 1 and isinstance(st.targets[0], ast.Name) and _seen_c.get(st.targets[0].id) == 1 and isinstance(st.value, (ast.Tuple, ast.List)):
                mod_consts[st.targets[0].id] = st.value
        for st in tree.body:
            for fn_ in ([st] if isinstance(st, ast.FunctionDef) else ([x for x in st.body if isinstance(x, ast.FunctionDef)] if isinstance(st, ast.ClassDef) else [])):
                unrolled |= _unroll_literal_loops(fn_, mod_consts, _namedtuple_table(tree))
        if unrolled:
            changed_any = True
            ast.fix_missing_locations(tree)
            inlined.append(f"{modname}:<literal-table loops written out>")
        vm = _expand_vararg_maps(tree, modname, table)
        if vm:
            changed_any = True
            ast.fix_missing_locations(tree)
            for nm_ in sorted(set(vm)):
                short = nm_.split(":")[-1]
                if not any((isinstance(n, ast.Name) and n.id == short) or (isinstance(n, ast.Attribute) and n.attr == short) for n in ast.walk(tree)):
                    tree.body = [s_ for s_ in tree.body if not (isinstance(s_, ast.FunctionDef) and s_.name == short)]
                inlined.append(nm_)
            for st in tree.body:
                for fn_ in ([st] if isinstance(st, ast.FunctionDef) else ([x for x in st.body if isinstance(x, ast.FunctionDef)] if isinstance(st, ast.ClassDef) else [])):
                    _split_tuple_assigns(fn_)
                    _none_guard_assigns(fn_)
            ast.fix_missing_locations(tree)
        for _round in range(3):
            helpers: Dict[Tuple[Optional[str], str], _Helper] = {}
            for st in tree.body:
                if isinstance(st, ast.FunctionDef) and _qual(modname, None, st.name) not in table:
                    helpers[(None, st.name)] = _Helper(modname, None, st)
                elif isinstance(st, ast.ClassDef):
                    for s in st.body:
                        if isinstance(s, ast.FunctionDef) and _qual(modname, st.name, s.name) not in table and not (s.name.startswith("__") and s.name.endswith("__")):
                            helpers[(st.name, s.name)] = _Helper(modname, st.name, s)
            helpers = {k: h for k, h in helpers.items() if h.ok}
            if not helpers:
                break
            used: Set[Tuple[Optional[str], str]] = set()
            counter = [0]
            changed = False
            for st in tree.body:
                if isinstance(st, ast.FunctionDef):
                    changed |= _inline_in_function(st, None, helpers, counter, used)
                elif isinstance(st, ast.ClassDef):
                    for s in st.body:
                        if isinstance(s, ast.FunctionDef):
                            changed |= _inline_in_function(s, st.name, helpers, counter, used)
            if not changed:
                break
            changed_any = True
            # drop helper definitions that no longer have a call site
            ast.fix_missing_locations(tree)
            for (cls, name) in used:
                still = 0
                for n in ast.walk(tree):
                    if isinstance(n, ast.Call):
                        f = n.func
                        if (isinstance(f, ast.Name) and f.id == name) or (isinstance(f, ast.Attribute) and f.attr == name):
                            still += 1
                    elif isinstance(n, ast.Attribute) and n.attr == name and not isinstance(getattr(n, "ctx", None), ast.Store):
                        pass
                refs = sum(1 for n in ast.walk(tree) if (isinstance(n, ast.Name) and n.id == name) or (isinstance(n, ast.Attribute) and n.attr == name))
                if refs == 0:
                    if cls is None:
                        tree.body = [s for s in tree.body if not (isinstance(s, ast.FunctionDef) and s.name == name)]
                    else:
                        for c in tree.body:
                            if isinstance(c, ast.ClassDef) and c.name == cls:
                                c.body = [s for s in c.body if not (isinstance(s, ast.FunctionDef) and s.name == name)] or [ast.Pass()]
                    inlined.append(_qual(modname, cls, name))
        # generators handed to an (now inlined) consumer helper
        gen_done2 = _inline_generators(tree, modname, table)
        if gen_done2:
            changed_any = True
            ast.fix_missing_locations(tree)
            for nm_ in sorted(set(gen_done2)):
                short = nm_.split(":")[-1].split(".")[-1]
                cls_ = nm_.split(":")[-1].split(".")[0] if "." in nm_.split(":")[-1] else None
                refs = sum(1 for n in ast.walk(tree) if (isinstance(n, ast.Name) and n.id == short) or (isinstance(n, ast.Attribute) and n.attr == short))
                if refs == 0:
                    tree.body = [s_ for s_ in tree.body if not (isinstance(s_, ast.FunctionDef) and s_.name == short)]
                    for c_ in tree.body:
                        if isinstance(c_, ast.ClassDef):
                            c_.body = [s_ for s_ in c_.body if not (isinstance(s_, ast.FunctionDef) and s_.name == short)] or [ast.Pass()]
                inlined.append(nm_)
        # source-level canonical forms that do not depend on new helpers
        canon = False
        nts = {k: v for k, v in _namedtuple_table(tree).items() if _qual(modname, None, k) not in table}
        for st in tree.body:
            if isinstance(st, ast.FunctionDef):
                canon |= _canonical_loops(st)
                canon |= _sink_returns(st)
                canon |= _scalar_replace_records(st, nts)
            elif isinstance(st, ast.ClassDef):
                for s2 in st.body:
                    if isinstance(s2, ast.FunctionDef):
                        canon |= _canonical_loops(s2)
                        canon |= _sink_returns(s2)
                        canon |= _scalar_replace_records(s2, nts)
        if canon:
            changed_any = True
            inlined.append(f"{modname}:<guard-loop / single-exit canonicalisation>")
        if changed_any:
            ast.fix_missing_locations(tree)
            # re-parse so that positions are those of the normal form, then tidy the aliases left by inlining
            tree = ast.parse(ast.unparse(tree))
            nts2 = {k: v for k, v in _namedtuple_table(tree).items() if _qual(modname, None, k) not in table}
            _const_getattr(tree)
            _inline_record_constants(tree, nts2)
            base_classes_ = {q.split(":")[1].split(".")[0] for q in table if q.startswith(modname + ":") and "." in q.split(":")[1]}
            new_classes = {c_.name: c_ for c_ in tree.body if isinstance(c_, ast.ClassDef) and c_.name not in base_classes_ and not c_.bases and not c_.decorator_list}
            for st in tree.body:
                if isinstance(st, ast.FunctionDef):
                    _guard_empty_iter_loops(st)
                    _split_tuple_assigns(st)
                    _unroll_local_dict_tables(st)
                    _scalarise_local_dicts(st)
                    _merge_dict_builds(st)
                    _desugar_match(st)
                    _desugar_walrus_and_partial(st)
                    _open_close_to_with(st)
                    _sink_call_into_branches(st)
                    _scalarise_local_objects(st, new_classes)
                    _inline_local_closures(st)
                    _beta_reduce_local_functions(st)
                    _coalesce_aliases(st)
                    _canonical_loops(st)
                    _scalar_replace_records(st, nts2)
                    _inline_none_flags(st)
                    if _expand_ifexp_assigns(st):
                        _coalesce_aliases(st)
                        _coalesce_phi(st)
                    _thread_none_flags(st)
                elif isinstance(st, ast.ClassDef):
                    for s2 in st.body:
                        if isinstance(s2, ast.FunctionDef):
                            _guard_empty_iter_loops(s2)
                            _split_tuple_assigns(s2)
                            _unroll_local_dict_tables(s2)
                            _scalarise_local_dicts(s2)
                            _merge_dict_builds(s2)
                            _desugar_match(s2)
                            _desugar_walrus_and_partial(s2)
                            _open_close_to_with(s2)
                            _sink_call_into_branches(s2)
                            _scalarise_local_objects(s2, new_classes)
                            _inline_local_closures(s2)
                            _beta_reduce_local_functions(s2)
                            _coalesce_aliases(s2)
                            _canonical_loops(s2)
                            _scalar_replace_records(s2, nts2)
                            _inline_none_flags(s2)
                            if _expand_ifexp_assigns(s2):
                                _coalesce_aliases(s2)
                                _coalesce_phi(s2)
                            _thread_none_flags(s2)
            ast.fix_missing_locations(tree)
            out[rel] = ast.unparse(tree) + "\n"
    # a new helper that was copied into every module that imports it and written out there is dead in its home module:
    # drop the definition (and the now unused import aliases), so that rules scanning "every function" do not read a
    # function nobody calls any more
    copied = {}
    for x in inlined:
        if " (copied into " in x:
            src, name = x.split(" (copied into ")[0].split(":")
            copied.setdefault((src, name), set()).add(x.split(" (copied into ")[1].rstrip(")"))
    if copied:
        trees = {}
        for rel, src in out.items():
            try:
                trees[rel] = ast.parse(src)
            except SyntaxError:
                continue
        for (srcmod, name), _users in copied.items():
            used = False
            for rel, t in trees.items():
                for n in ast.walk(t):
                    if isinstance(n, ast.Name) and n.id == name and isinstance(n.ctx, ast.Load):
                        used = True
                    elif isinstance(n, ast.Attribute) and n.attr == name:
                        used = True
            if used:
                continue
            for rel, t in trees.items():
                modname = rel[:-3].replace(os.sep, ".")
                changed_t = False

                class Drop(ast.NodeTransformer):
                    def visit_ImportFrom(self, node):
                        keep = [al for al in node.names if al.name != name]
                        if len(keep) == len(node.names):
                            return node
                        nonlocal changed_t
                        changed_t = True
                        if not keep:
                            return ast.Pass()
                        node.names = keep
                        return node

                Drop().visit(t)
                if modname == srcmod or modname.endswith("." + srcmod.split(".")[-1]):
                    nb = [s_ for s_ in t.body if not (isinstance(s_, (ast.FunctionDef, ast.ClassDef)) and s_.name == name)]
                    if len(nb) != len(t.body):
                        t.body = nb
                        changed_t = True
                if changed_t:
                    ast.fix_missing_locations(t)
                    out[rel] = ast.unparse(t) + "\n"
    return out, inlined
