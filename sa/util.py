"""Small helpers shared by the rules."""
from __future__ import annotations

import ast
from typing import Callable, Dict, Iterable, List, Optional, Set, Tuple

from .cfg import CFG, Node, cfg_of
from .dataflow import FunctionFlow, flow_of
from .model import ClassInfo, FuncInfo, Program, dotted, walk_no_nested
from .resolve import CallGraph, Resolver


def call_arg(call: ast.Call, idx: Optional[int], name: Optional[str]) -> Optional[ast.expr]:
    if idx is not None and len(call.args) > idx and not any(isinstance(a, ast.Starred) for a in call.args[: idx + 1]):
        return call.args[idx]
    if name is not None:
        for k in call.keywords:
            if k.arg == name:
                return k.value
    # calls of the package's own functions carry the callee's parameter names (engine.canonical_internal_calls): an
    # argument is found by name when it was passed by position, and by position when it was passed by keyword
    params = getattr(call, "_sa_params", None)
    if params and not any(isinstance(a, ast.Starred) for a in call.args):
        if name is not None and name in params and params.index(name) < len(call.args):
            return call.args[params.index(name)]
        if idx is not None and idx < len(params):
            for k in call.keywords:
                if k.arg == params[idx]:
                    return k.value
    return None


def bound_arguments(call: ast.Call) -> List[Tuple[Optional[str], ast.expr]]:
    """(parameter name, value) for every argument of the call, however it was passed: positional arguments of a call of the
    package's own functions are named through the callee's parameter list (engine.canonical_internal_calls); the name is
    None where it is not known (external callees, *args)."""
    params = getattr(call, "_sa_params", None) or []
    out: List[Tuple[Optional[str], ast.expr]] = []
    starred = False
    for i, a in enumerate(call.args):
        if isinstance(a, ast.Starred):
            starred = True
        out.append((params[i] if (not starred and i < len(params)) else None, a))
    for k in call.keywords:
        out.append((k.arg, k.value))
    return out


def calls_in(node: ast.AST) -> List[ast.Call]:
    return [n for n in walk_no_nested(node) if isinstance(n, ast.Call)]


def calls_in_node(n: Node) -> List[ast.Call]:
    """Calls evaluated at a CFG node (header expression only for compound
    statements)."""
    roots: List[ast.AST] = []
    s = n.stmt
    if n.kind == "test":
        roots = [n.ast]
    elif n.kind == "for":
        roots = [s.iter]
    elif n.kind == "with":
        roots = [i.context_expr for i in s.items]
    elif n.kind == "stmt":
        if isinstance(s, (ast.FunctionDef, ast.AsyncFunctionDef, ast.ClassDef)):
            roots = []
        else:
            roots = [s]
    out = []
    for r in roots:
        out += [x for x in walk_no_nested(r) if isinstance(x, ast.Call)]
    return out


def external_calls(res: Resolver, fi: FuncInfo, pred: Callable[[str], bool]) -> List[Tuple[ast.Call, str]]:
    out = []
    for c in calls_in(fi.node):
        nm = res.external_name(fi, c)
        if nm and pred(nm):
            out.append((c, nm))
    return out


def node_of_call(fi: FuncInfo, call: ast.AST) -> Optional[Node]:
    return flow_of(fi.node).node_containing(call)


def nodes_calling(cg: CallGraph, fi: FuncInfo, target_pred: Callable[[FuncInfo], bool], transitive: bool = True) -> List[Tuple[Node, ast.Call, FuncInfo]]:
    """CFG nodes of fi containing a call that (transitively) reaches a function
    satisfying target_pred."""
    out = []
    flow = flow_of(fi.node)
    for (call, targets) in cg.sites.get(fi.qualname, []):
        for t in targets:
            tf = None
            if isinstance(t, FuncInfo):
                tf = t
            elif isinstance(t, ClassInfo):
                tf = cg.prog.mro_lookup(t, "__init__")
            if tf is None:
                continue
            hit = None
            if target_pred(tf):
                hit = tf
            elif transitive:
                for g in cg.reachable([tf]):
                    if target_pred(g):
                        hit = g
                        break
            if hit is not None:
                n = flow.node_containing(call)
                if n is not None:
                    out.append((n, call, hit))
                break
    return out


def is_none_test(test: ast.expr) -> Optional[Tuple[ast.expr, bool]]:
    """`X is None` -> (X, True); `X is not None` -> (X, False)."""
    if isinstance(test, ast.Compare) and len(test.ops) == 1 and isinstance(test.comparators[0], ast.Constant) and test.comparators[0].value is None:
        if isinstance(test.ops[0], ast.Is):
            return (test.left, True)
        if isinstance(test.ops[0], ast.IsNot):
            return (test.left, False)
    return None


def const_value(e: Optional[ast.expr]):
    if isinstance(e, ast.Constant):
        return e.value
    if isinstance(e, ast.UnaryOp) and isinstance(e.op, ast.USub) and isinstance(e.operand, ast.Constant) and isinstance(e.operand.value, (int, float)):
        return -e.operand.value
    return _NOCONST


class _NoConst:
    def __repr__(self):
        return "<non-constant>"


_NOCONST = _NoConst()


def is_const(e: Optional[ast.expr]) -> bool:
    return const_value(e) is not _NOCONST


def strip_wrappers(e: ast.expr, names: Iterable[str] = ("Path", "str", "pathlib.Path", "os.fspath")) -> ast.expr:
    names = set(names)
    while isinstance(e, ast.Call) and dotted(e.func) in names and len(e.args) == 1 and not e.keywords:
        e = e.args[0]
    return e


def names_in(e: ast.AST) -> Set[str]:
    return {n.id for n in ast.walk(e) if isinstance(n, ast.Name)}


def split_cond(test: ast.expr, pol: bool) -> List[Tuple[ast.expr, bool]]:
    """Facts implied by `test` evaluating to `pol`: pushes `not` inward, splits a
    true conjunction / false disjunction into its operands (sound: only implied
    atoms are returned)."""
    if isinstance(test, ast.UnaryOp) and isinstance(test.op, ast.Not):
        return split_cond(test.operand, not pol)
    if isinstance(test, ast.BoolOp):
        if (isinstance(test.op, ast.And) and pol) or (isinstance(test.op, ast.Or) and not pol):
            out = []
            for v in test.values:
                out += split_cond(v, pol)
            return out
        return [(test, pol)]
    return [(test, pol)]


def conds_holding_at(cfg: CFG, node: Node) -> List[Tuple[ast.expr, bool]]:
    """Atomic branch facts that hold on every path from entry to node."""
    out = []
    for (t, pol) in cfg.conditions_on_all_paths(node.id):
        out += split_cond(t, pol)
    return out


def unparse(n: Optional[ast.AST]) -> str:
    return ast.unparse(n) if n is not None else "<none>"


# ---------------------------------------------------------------------------
# Propositional reasoning over branch atoms (finite truth table; no solver)
# ---------------------------------------------------------------------------

def _is_bool_cast(e) -> bool:
    """bool(<comparison / boolean expression>): the truth value itself"""
    return (isinstance(e, ast.Call) and len(e.args) == 1 and not e.keywords and not isinstance(e.args[0], ast.Starred)
            and ((isinstance(e.func, ast.Name) and e.func.id == "bool") or (isinstance(e.func, ast.Attribute) and e.func.attr == "bool_"))
            and isinstance(e.args[0], (ast.Compare, ast.BoolOp, ast.UnaryOp)))


def bool_skeleton(e: ast.expr, atoms: List[ast.expr]):
    """Compile a boolean expression into a function valuation -> bool over the
    list `atoms` (extended in place; atoms are identified by normalised text)."""
    if isinstance(e, ast.BoolOp):
        subs = [bool_skeleton(v, atoms) for v in e.values]
        if isinstance(e.op, ast.Or):
            return lambda val, subs=subs: any(s(val) for s in subs)
        return lambda val, subs=subs: all(s(val) for s in subs)
    if isinstance(e, ast.UnaryOp) and isinstance(e.op, ast.Not):
        s = bool_skeleton(e.operand, atoms)
        return lambda val, s=s: not s(val)
    if _is_bool_cast(e):
        return bool_skeleton(e.args[0], atoms)
    if isinstance(e, ast.Constant) and isinstance(e.value, bool):
        return lambda val, c=e.value: c
    if isinstance(e, ast.IfExp):
        c_, a_, b_ = bool_skeleton(e.test, atoms), bool_skeleton(e.body, atoms), bool_skeleton(e.orelse, atoms)
        return lambda val, c_=c_, a_=a_, b_=b_: a_(val) if c_(val) else b_(val)
    # equality / inequality of two truth values: (a < b) == (m is None)
    def _boolish(x):
        if _is_bool_cast(x):
            return True
        return isinstance(x, (ast.Compare, ast.BoolOp)) or (isinstance(x, ast.UnaryOp) and isinstance(x.op, ast.Not)) or (isinstance(x, ast.Constant) and isinstance(x.value, bool)) \
            or (isinstance(x, ast.IfExp) and _boolish(x.body) and _boolish(x.orelse))

    if isinstance(e, ast.Compare) and len(e.ops) == 1 and isinstance(e.ops[0], (ast.Eq, ast.NotEq, ast.Is, ast.IsNot)) and _boolish(e.left) and _boolish(e.comparators[0]):
        l_, r_ = bool_skeleton(e.left, atoms), bool_skeleton(e.comparators[0], atoms)
        same = isinstance(e.ops[0], (ast.Eq, ast.Is))
        return lambda val, l_=l_, r_=r_, same=same: (l_(val) == r_(val)) == same
    key = "".join(ast.unparse(e).split())
    for i, a in enumerate(atoms):
        if "".join(ast.unparse(a).split()) == key:
            return lambda val, i=i: val[i]
    atoms.append(e)
    i = len(atoms) - 1
    return lambda val, i=i: val[i]


def forced_atoms(conds: List[Tuple[ast.expr, bool]], max_atoms: int = 12):
    """Given branch facts (expr, polarity) that all hold, return
    (atoms, forced) where forced[i] is True/False when every satisfying
    valuation gives atom i that value, else None.  `unsat` (no satisfying
    valuation) is reported as forced = 'unsat'."""
    import itertools

    atoms: List[ast.expr] = []
    fns = [(bool_skeleton(e, atoms), pol) for (e, pol) in conds]
    if len(atoms) > max_atoms:
        return atoms, None
    sat = []
    for val in itertools.product([False, True], repeat=len(atoms)):
        if all(fn(val) == pol for (fn, pol) in fns):
            sat.append(val)
    if not sat:
        return atoms, "unsat"
    forced = []
    for i in range(len(atoms)):
        vs = {v[i] for v in sat}
        forced.append(vs.pop() if len(vs) == 1 else None)
    return atoms, forced


def path_facts(fi_node: ast.FunctionDef, node: Node, inline_bools: bool = True) -> List[Tuple[ast.expr, bool]]:
    """Branch conditions holding on every path to `node`, with local names that
    are uniquely defined as boolean expressions inlined."""
    from .dataflow import Resolver as _R

    cfg = cfg_of(fi_node)
    out = []
    for (t, pol) in cfg.conditions_on_all_paths(node.id):
        if inline_bools:
            tn = flow_of(fi_node).node_containing(t)
            t = _inline_bool_names(fi_node, t, tn)
        out.append((t, pol))
    return out


def path_facts_avoiding(fi_node: ast.FunctionDef, node: Node, blocked_ids, inline_bools: bool = True, limit: int = 3000) -> Optional[List[Tuple[ast.expr, bool]]]:
    """Branch conditions holding on every acyclic path from the entry to `node`
    that avoids the nodes in `blocked_ids` (e.g. the paths on which an object was
    *not* (re)initialised).  None when there is no such path."""
    cfg = cfg_of(fi_node)
    blocked = set(blocked_ids)
    try:
        paths = [p for p in cfg.acyclic_paths(cfg.entry.id, node.id, limit=limit) if not any(nid in blocked for (nid, lab) in p[:-1])]
    except OverflowError:
        return []
    if not paths:
        return None
    common = None
    for p in paths:
        fs = {}
        for (nid, lab) in p:
            if lab and lab[0] == "cond":
                fs[(id(lab[1]), lab[2])] = (lab[1], lab[2])
        common = fs if common is None else {k: v for k, v in common.items() if k in fs}
    out = []
    for (t, pol) in (common or {}).values():
        if inline_bools:
            tn = flow_of(fi_node).node_containing(t)
            t = _inline_bool_names(fi_node, t, tn)
        out.append((t, pol))
    return out


def _inline_bool_names(fn: ast.FunctionDef, e: ast.expr, at: Optional[Node], depth: int = 0) -> ast.expr:
    """Replace Names that appear in boolean positions and are uniquely defined
    by a boolean expression (BoolOp / Compare / Not / call) with that expression."""
    import copy as _copy

    flow = flow_of(fn)
    if depth > 4 or at is None:
        return e

    def inline(x):
        if isinstance(x, ast.BoolOp):
            return ast.BoolOp(op=x.op, values=[inline(v) for v in x.values])
        if isinstance(x, ast.UnaryOp) and isinstance(x.op, ast.Not):
            return ast.UnaryOp(op=ast.Not(), operand=inline(x.operand))
        if isinstance(x, ast.IfExp):
            return ast.IfExp(test=inline(x.test), body=inline(x.body), orelse=inline(x.orelse))
        if _is_bool_cast(x):
            return inline(x.args[0])
        if isinstance(x, ast.Compare) and len(x.ops) == 1 and isinstance(x.ops[0], (ast.Eq, ast.NotEq, ast.Is, ast.IsNot)) and all(isinstance(y, ast.Name) or _is_bool_cast(y) or isinstance(y, (ast.BoolOp, ast.Compare)) or (isinstance(y, ast.UnaryOp) and isinstance(y.op, ast.Not)) for y in (x.left, x.comparators[0])) \
                and not (isinstance(x.comparators[0], ast.Constant)):
            # equality of two truth values (local names / comparisons)
            l_, r_ = inline(x.left), inline(x.comparators[0])
            if not isinstance(l_, ast.Name) and not isinstance(r_, ast.Name):
                return ast.Compare(left=l_, ops=x.ops, comparators=[r_])
            return x
        if isinstance(x, ast.Name):
            ds = flow.reaching(at, x.id)
            if len(ds) == 1 and ds[0].kind == "assign" and not ds[0].path and (isinstance(ds[0].value, (ast.BoolOp, ast.Compare, ast.UnaryOp, ast.IfExp)) or _is_bool_cast(ds[0].value)):
                return _inline_bool_names(fn, _copy.deepcopy(ds[0].value), ds[0].node, depth + 1)
        return x

    return inline(e)


def errstate_underflow_sites(fn_node: ast.AST):
    """np.errstate(...) / np.seterr(...) calls that turn floating-point *underflow* into an exception
    (all="raise" or under="raise").  Underflow to zero / subnormals is benign and depends on the absolute
    scale of the data; raising on it makes the outcome depend on that scale and on which other rows share
    the batch."""
    out = []
    for c in ast.walk(fn_node):
        if isinstance(c, ast.Call) and dotted_name(c.func).split(".")[-1] in ("errstate", "seterr"):
            kws = {k.arg: k.value for k in c.keywords if k.arg}
            for name in ("all", "under"):
                v = kws.get(name)
                if isinstance(v, ast.Constant) and v.value == "raise" and not (name == "all" and isinstance(kws.get("under"), ast.Constant) and kws["under"].value != "raise"):
                    out.append(c)
                    break
    return out


def dotted_name(e: ast.AST) -> str:
    parts = []
    while isinstance(e, ast.Attribute):
        parts.append(e.attr)
        e = e.value
    if isinstance(e, ast.Name):
        parts.append(e.id)
        return ".".join(reversed(parts))
    return ""


INPLACE_CONTAINER_METHODS = {"update", "difference_update", "intersection_update", "symmetric_difference_update", "add", "discard", "remove", "pop", "clear", "append", "extend",
                             "insert", "sort", "reverse", "fill", "put", "resize", "setdefault", "popitem", "itemset"}


def cached_result_mutations(ctx, fi):
    """In function fi: in-place mutations (augmented assignment, subscript store, mutating method, out=) of a
    value that is the result of an internal function decorated with functools.lru_cache / cache.  The cached
    object is shared by every later caller with the same arguments, so the mutation persists across calls."""
    from .dataflow import flow_of as _flow

    cached = {}
    for f in ctx.prog.functions.values():
        for d in f.node.decorator_list:
            if dotted_name(d.func if isinstance(d, ast.Call) else d).split(".")[-1] in ("lru_cache", "cache", "cached_property"):
                cached[f.qualname] = f
    if not cached:
        return []
    flow = _flow(fi.node)
    names = {}
    for nid, ds in flow.defs_at.items():
        for d in ds:
            if d.kind == "assign" and isinstance(d.value, ast.Call) and not d.path:
                for t in ctx.res.call_targets(fi, d.value):
                    if getattr(t, "qualname", None) in cached:
                        names.setdefault(d.name, []).append((d, t))
    out = []
    if not names:
        return out
    for x in ast.walk(fi.node):
        nm = None
        if isinstance(x, ast.AugAssign):
            b = x.target
            while isinstance(b, ast.Subscript):
                b = b.value
            nm = b.id if isinstance(b, ast.Name) else None
        elif isinstance(x, ast.Assign):
            for t in x.targets:
                if isinstance(t, ast.Subscript):
                    b = t
                    while isinstance(b, ast.Subscript):
                        b = b.value
                    nm = b.id if isinstance(b, ast.Name) else nm
        elif isinstance(x, ast.Call) and isinstance(x.func, ast.Attribute) and isinstance(x.func.value, ast.Name) and x.func.attr in INPLACE_CONTAINER_METHODS:
            nm = x.func.value.id
        elif isinstance(x, ast.Call):
            for k in x.keywords:
                if k.arg == "out" and isinstance(k.value, ast.Name):
                    nm = k.value.id
        if nm in names:
            at = flow.node_containing(x)
            if at is not None and any(d is dd for dd in flow.reaching(at, nm) for (d, _) in names[nm]):
                out.append((x, names[nm][0][1]))
    return out


def mutable_default_mutations(fn_node: ast.FunctionDef):
    """[(parameter, default expression, mutating statement)] for parameters whose default is a mutable object built
    once at definition time (set(), [], {}, dict(), list(), ...) and which the body modifies in place (method call
    update/add/append/..., item store, augmented assignment) without re-binding the name first: the object is shared
    by all calls, so whatever one call puts into it is still there in the next."""
    a = fn_node.args
    pos = list(a.posonlyargs) + list(a.args)
    pairs = list(zip(pos[len(pos) - len(a.defaults):], a.defaults)) + [(p, d) for p, d in zip(a.kwonlyargs, a.kw_defaults) if d is not None]
    out = []
    for (p, d) in pairs:
        mutable = isinstance(d, (ast.List, ast.Dict, ast.Set, ast.ListComp, ast.DictComp, ast.SetComp)) or (
            isinstance(d, ast.Call) and dotted_name(d.func).split(".")[-1] in ("set", "list", "dict", "defaultdict", "OrderedDict", "deque", "zeros", "empty", "ones", "array", "bytearray"))
        if not mutable:
            continue
        name = p.arg
        rebound_first = False
        for st in fn_node.body:
            # a leading `if x is None` idiom does not apply (the default is not None); a plain re-binding before any use does
            if isinstance(st, ast.Assign) and any(isinstance(t, ast.Name) and t.id == name for t in st.targets) and not any(isinstance(x, ast.Name) and x.id == name for x in ast.walk(st.value)):
                rebound_first = True
            break_ = any(isinstance(x, ast.Name) and x.id == name for x in ast.walk(st))
            if break_:
                break
        if rebound_first:
            continue
        for x in ast.walk(fn_node):
            hit = None
            if isinstance(x, ast.Call) and isinstance(x.func, ast.Attribute) and isinstance(x.func.value, ast.Name) and x.func.value.id == name and x.func.attr in INPLACE_CONTAINER_METHODS:
                hit = x
            elif isinstance(x, (ast.Assign, ast.AugAssign)):
                tgs = x.targets if isinstance(x, ast.Assign) else [x.target]
                for t in tgs:
                    b = t
                    while isinstance(b, ast.Subscript):
                        b = b.value
                    if isinstance(b, ast.Name) and b.id == name and (isinstance(t, ast.Subscript) or isinstance(x, ast.AugAssign)):
                        hit = x
            if hit is not None:
                out.append((name, d, hit))
                break
    return out


def retained_state_copies(cls_node: ast.ClassDef, state_attr: str = "state"):
    """Stores, outside the constructor, into attributes of an object that works on a separate state object
    (`self.<state_attr>`) of values derived from that state: [(method node, statement, attribute)].

    A step object that keeps such a copy answers later calls from it; nothing the state object does (commit, import of
    a checkpoint, replacement of its history) can invalidate it.  Derivation is a flow-insensitive taint over the
    method's assignments, seeded by every call on `self.<state_attr>`; only attributes that some method reads back
    (outside the storing statement) are reported."""
    out = []
    reads: Dict[str, int] = {}
    for m in cls_node.body:
        if not isinstance(m, ast.FunctionDef):
            continue
        for x in ast.walk(m):
            if isinstance(x, ast.Attribute) and isinstance(x.value, ast.Name) and x.value.id == "self" and isinstance(x.ctx, ast.Load):
                reads[x.attr] = reads.get(x.attr, 0) + 1
            elif isinstance(x, ast.Call) and isinstance(x.func, ast.Name) and x.func.id == "getattr" and len(x.args) >= 2 and isinstance(x.args[0], ast.Name) and x.args[0].id == "self" \
                    and isinstance(x.args[1], ast.Constant) and isinstance(x.args[1].value, str):
                reads[x.args[1].value] = reads.get(x.args[1].value, 0) + 1

    def is_state_call(x):
        if not isinstance(x, ast.Call):
            return False
        f = x.func
        while isinstance(f, ast.Attribute):
            f = f.value
            if isinstance(f, ast.Attribute) and isinstance(f.value, ast.Name) and f.value.id == "self" and f.attr == state_attr:
                return True
        return False

    for m in cls_node.body:
        if not isinstance(m, ast.FunctionDef) or m.name in ("__init__", "__post_init__", "__setstate__", "__getstate__"):
            continue
        tainted: Set[str] = set()
        assigns = [x for x in ast.walk(m) if isinstance(x, (ast.Assign, ast.AugAssign, ast.AnnAssign, ast.For, ast.comprehension, ast.withitem))]

        def dirty(e) -> bool:
            return e is not None and any(is_state_call(y) or (isinstance(y, ast.Name) and y.id in tainted) for y in ast.walk(e))

        for _ in range(6):
            before = len(tainted)
            for a in assigns:
                if isinstance(a, ast.Assign):
                    tg, v = a.targets, a.value
                elif isinstance(a, (ast.AugAssign, ast.AnnAssign)):
                    tg, v = [a.target], a.value
                elif isinstance(a, (ast.For, ast.comprehension)):
                    tg, v = [a.target], a.iter
                else:
                    tg, v = ([a.optional_vars] if a.optional_vars is not None else []), a.context_expr
                if dirty(v):
                    for t in tg:
                        for y in ast.walk(t):
                            if isinstance(y, ast.Name) and isinstance(y.ctx, ast.Store):
                                tainted.add(y.id)
            if len(tainted) == before:
                break
        for x in ast.walk(m):
            attr = None
            val = None
            if isinstance(x, (ast.Assign, ast.AugAssign, ast.AnnAssign)):
                tgs = x.targets if isinstance(x, ast.Assign) else [x.target]
                for t in tgs:
                    for tt in (t.elts if isinstance(t, (ast.Tuple, ast.List)) else [t]):
                        b = tt
                        while isinstance(b, ast.Subscript):
                            b = b.value
                        if isinstance(b, ast.Attribute) and isinstance(b.value, ast.Name) and b.value.id == "self":
                            attr, val = b.attr, x.value
            elif isinstance(x, ast.Expr) and isinstance(x.value, ast.Call) and isinstance(x.value.func, ast.Attribute) and x.value.func.attr in INPLACE_CONTAINER_METHODS:
                b = x.value.func.value
                while isinstance(b, ast.Subscript):
                    b = b.value
                if isinstance(b, ast.Attribute) and isinstance(b.value, ast.Name) and b.value.id == "self":
                    attr = b.attr
                    val = ast.Tuple(elts=list(x.value.args) + [k.value for k in x.value.keywords], ctx=ast.Load())
            if attr is None or attr == state_attr:
                continue
            own_reads = sum(1 for y in ast.walk(x) if isinstance(y, ast.Attribute) and isinstance(y.value, ast.Name) and y.value.id == "self" and y.attr == attr and isinstance(y.ctx, ast.Load))
            if dirty(val) and reads.get(attr, 0) - own_reads > 0 and not _reset_per_call(cls_node, attr):
                out.append((m, x, attr))
    return out


def _reset_per_call(cls_node: ast.ClassDef, attr: str) -> bool:
    """Is `self.<attr>` scratch storage of one call?  True when every public method that (through calls of the object's
    own methods) reads the attribute re-binds it to an empty container / None, unconditionally (a top-level statement
    of its body), before the first statement that can read it."""
    methods = {m.name: m for m in cls_node.body if isinstance(m, ast.FunctionDef)}

    def loads(node) -> bool:
        for y in ast.walk(node):
            if isinstance(y, ast.Attribute) and isinstance(y.value, ast.Name) and y.value.id == "self" and y.attr == attr and isinstance(y.ctx, ast.Load):
                return True
            if isinstance(y, ast.Call) and isinstance(y.func, ast.Name) and y.func.id in ("getattr", "hasattr") and len(y.args) >= 2 and isinstance(y.args[1], ast.Constant) and y.args[1].value == attr:
                return True
        return False

    reading = {n for n, m in methods.items() if loads(m)}
    for _ in range(len(methods)):
        more = {n for n, m in methods.items() if n not in reading and any(
            isinstance(y, ast.Call) and isinstance(y.func, ast.Attribute) and isinstance(y.func.value, ast.Name) and y.func.value.id == "self" and y.func.attr in reading for y in ast.walk(m))}
        if not more:
            break
        reading |= more

    def reads_stmt(st) -> bool:
        if loads(st):
            return True
        return any(isinstance(y, ast.Call) and isinstance(y.func, ast.Attribute) and isinstance(y.func.value, ast.Name) and y.func.value.id == "self" and y.func.attr in reading for y in ast.walk(st))

    def is_reset(st) -> bool:
        if not (isinstance(st, ast.Assign) and len(st.targets) == 1 and isinstance(st.targets[0], ast.Attribute) and isinstance(st.targets[0].value, ast.Name)
                and st.targets[0].value.id == "self" and st.targets[0].attr == attr):
            return False
        v = st.value
        return (isinstance(v, (ast.Dict, ast.List, ast.Set, ast.Tuple)) and not (v.keys if isinstance(v, ast.Dict) else v.elts)) or (isinstance(v, ast.Constant) and v.value is None) \
            or (isinstance(v, ast.Call) and not v.args and not v.keywords and dotted_name(v.func).split(".")[-1] in ("dict", "list", "set", "OrderedDict", "defaultdict"))

    public = [m for n, m in methods.items() if not n.startswith("_") and n in reading]
    if not public:
        return False
    for m in public:
        ok = False
        for st in m.body:
            if is_reset(st):
                ok = True
                break
            if reads_stmt(st):
                break
        if not ok:
            return False
    return True


def stateless_steps_rule(ctx, R, rule: str, class_names, what: str):
    """`rule`: the step objects named in `class_names` keep no copy of state-derived data between calls."""
    n = 0
    for c in ctx.prog.classes.values():
        if c.name not in class_names:
            continue
        n += 1
        hits = retained_state_copies(c.node)
        fi = next(iter(c.methods.values()))
        for (m, x, attr) in hits:
            mfi = c.methods.get(m.name, fi)
            R.check(rule, f"{c.name} keeps no copy of state-derived data between calls", False, mfi, x,
                    msg=f"{c.name}.{m.name}: `{ast.unparse(x)[:70]}` stores data derived from the state object in `self.{attr}` and a later call reads it back: the copy outlives "
                        f"the call, and nothing the state object does (commit, load of a checkpoint) refreshes it -- {what}", key=f"retained-state-copy:{c.name}.{attr}")
        if not hits:
            R.check(rule, f"{c.name} keeps no copy of state-derived data between calls", True, fi, c.node, key=f"retained-state-copy:{c.name}")
    R.floor(rule, "step classes scanned for retained state copies", n, len(class_names))


_INJECTIVE_WRAPPERS = {"tuple", "frozenset", "int", "float", "str", "bytes", "repr", "hash", "sorted", "list", "tobytes", "tolist", "asarray", "array", "ravel", "flatten", "map", "id"}


def process_lifetime_memos(fi_node: ast.FunctionDef, module_names: Set[str], cls_name: Optional[str] = None):
    """[(statement, container text, key expression, value expression)] for item stores into storage that lives as long as the
    process: a module-level container, a `global`, a class attribute."""
    out = []
    globals_ = {g for x in ast.walk(fi_node) if isinstance(x, ast.Global) for g in x.names}
    local = {x.id for x in ast.walk(fi_node) if isinstance(x, ast.Name) and isinstance(x.ctx, ast.Store)} | {a.arg for a in fi_node.args.args + fi_node.args.kwonlyargs}
    for st in ast.walk(fi_node):
        if isinstance(st, ast.Assign) and len(st.targets) == 1 and isinstance(st.targets[0], ast.Subscript):
            t = st.targets[0]
            b = t.value
            if isinstance(b, ast.Name) and ((b.id in module_names and b.id not in local) or b.id in globals_):
                out.append((st, b.id, t.slice, st.value))
            elif isinstance(b, ast.Attribute) and isinstance(b.value, ast.Name) and (b.value.id == "cls" or (cls_name and b.value.id == cls_name)):
                out.append((st, ast.unparse(b), t.slice, st.value))
        elif isinstance(st, ast.Expr) and isinstance(st.value, ast.Call) and isinstance(st.value.func, ast.Attribute) and st.value.func.attr == "setdefault" and len(st.value.args) == 2:
            b = st.value.func.value
            if isinstance(b, ast.Name) and ((b.id in module_names and b.id not in local) or b.id in globals_):
                out.append((st, b.id, st.value.args[0], st.value.args[1]))
    return out


def memo_key_gaps(fi_node: ast.FunctionDef, key: ast.expr, value: ast.expr) -> List[str]:
    """Parameters of the function that the memoised `value` depends on but that the `key` does not determine (they
    occur in the key only under a non-injective function -- len(), sum(), .shape, ... -- or not at all).
    Dependencies and the key are followed through the function's local assignments (flow-insensitive)."""
    params = [a.arg for a in fi_node.args.posonlyargs + fi_node.args.args + fi_node.args.kwonlyargs if a.arg not in ("self", "cls")]
    defs: Dict[str, List[ast.expr]] = {}
    for x in ast.walk(fi_node):
        if isinstance(x, ast.Assign):
            for t in x.targets:
                for y in ast.walk(t):
                    if isinstance(y, ast.Name) and isinstance(y.ctx, ast.Store):
                        defs.setdefault(y.id, []).append(x.value)
        elif isinstance(x, (ast.AugAssign, ast.AnnAssign)) and isinstance(x.target, ast.Name) and x.value is not None:
            defs.setdefault(x.target.id, []).append(x.value)
        elif isinstance(x, (ast.For, ast.comprehension)):
            for y in ast.walk(x.target):
                if isinstance(y, ast.Name):
                    defs.setdefault(y.id, []).append(x.iter)
    # (0) names (parameters or locals) that occur injectively in the key
    key_names: Set[str] = set()

    def knames(e: ast.expr, injective: bool, depth: int = 0):
        if depth > 8 or e is None:
            return
        if isinstance(e, ast.Name):
            if injective:
                key_names.add(e.id)
            if e.id not in params or e.id in defs:
                for d in defs.get(e.id, []):
                    knames(d, injective, depth + 1)
            return
        if isinstance(e, (ast.Tuple, ast.List)):
            for x in e.elts:
                knames(x, injective, depth)
        elif isinstance(e, ast.IfExp):
            knames(e.body, injective, depth)
            knames(e.orelse, injective, depth)
        elif isinstance(e, ast.Call):
            inj = injective and dotted_name(e.func).split(".")[-1] in _INJECTIVE_WRAPPERS
            for a in e.args:
                knames(a, inj, depth)
            if isinstance(e.func, ast.Attribute):
                knames(e.func.value, inj, depth)
        elif isinstance(e, (ast.GeneratorExp, ast.ListComp)):
            for g in e.generators:
                knames(g.iter, injective, depth)

    knames(key, True)
    # (1) parameters the value depends on (not looking behind a name that the key already determines)
    dep: Set[str] = set()
    seen: Set[str] = set()
    todo = [y.id for y in ast.walk(value) if isinstance(y, ast.Name)]
    # statements that mutate a local the value is built from (s.update(p)) make it depend on their arguments too
    while todo:
        nm = todo.pop()
        if nm in seen:
            continue
        seen.add(nm)
        if nm in key_names:
            continue
        if nm in params and nm not in defs:
            dep.add(nm)
            continue
        if nm in params:
            dep.add(nm)
        for e in defs.get(nm, []):
            todo += [y.id for y in ast.walk(e) if isinstance(y, ast.Name)]
        for x in ast.walk(fi_node):
            if isinstance(x, ast.Call) and isinstance(x.func, ast.Attribute) and isinstance(x.func.value, ast.Name) and x.func.value.id == nm and x.func.attr in INPLACE_CONTAINER_METHODS:
                for a in list(x.args) + [k.value for k in x.keywords]:
                    todo += [y.id for y in ast.walk(a) if isinstance(y, ast.Name)]
    # conditions guarding definitions (if p is not None: s.update(p)) are covered through the arguments themselves

    # (2) parameters the key determines
    determined: Set[str] = set()

    def visit(e: ast.expr, injective: bool, depth: int = 0):
        if depth > 8:
            return
        if isinstance(e, ast.Name):
            if e.id in params and e.id not in defs:
                if injective:
                    determined.add(e.id)
                return
            if e.id in params and injective:
                determined.add(e.id)
            for d in defs.get(e.id, []):
                visit(d, injective, depth + 1)
            return
        if isinstance(e, (ast.Tuple, ast.List)):
            for x in e.elts:
                visit(x, injective, depth)
            return
        if isinstance(e, ast.IfExp):
            visit(e.body, injective, depth)
            visit(e.orelse, injective, depth)
            return
        if isinstance(e, ast.Call):
            nm = dotted_name(e.func).split(".")[-1]
            inj = injective and nm in _INJECTIVE_WRAPPERS
            for a in e.args:
                visit(a, inj, depth)
            if isinstance(e.func, ast.Attribute):
                visit(e.func.value, inj, depth)
            return
        if isinstance(e, ast.GeneratorExp) or isinstance(e, ast.ListComp):
            # tuple(int(i) for i in p)
            for g in e.generators:
                visit(g.iter, injective, depth)
            return
        if isinstance(e, ast.Attribute):
            visit(e.value, False, depth)  # p.shape, p.size: not injective
            return
        if isinstance(e, ast.Subscript):
            visit(e.value, False, depth)
            return
        if isinstance(e, (ast.BinOp, ast.UnaryOp, ast.Compare, ast.BoolOp)):
            for x in ast.iter_child_nodes(e):
                if isinstance(x, ast.expr):
                    visit(x, False, depth)
            return

    visit(key, True)
    return sorted(dep - determined)


def lost_fancy_stores(fn_node: ast.FunctionDef):
    """numpy contract: `a[i][j] = v` stores into the temporary copy `a[i]` when `i` is an index array or a boolean mask
    (advanced indexing returns a copy), so `a` is left unchanged.  Returns [(statement, inner index text, why)] for
    assignments / augmented assignments whose target is a subscript of a subscript with an inner index that is an
    array by construction (flatnonzero / where / nonzero / argsort / arange / a comparison / ~mask / a subscript of
    such).  Inner indices that are scalars, slices or of unknown kind are not reported."""
    from .dataflow import Resolver as _Res, flow_of as _flow

    ARRAY_MAKERS = {"flatnonzero", "where", "nonzero", "argsort", "argwhere", "arange", "unique", "array", "asarray", "choice", "permutation", "searchsorted", "isin", "isfinite", "isinf", "isnan",
                    "logical_and", "logical_or", "logical_not", "zeros", "ones", "full"}
    out = []
    rs = None
    flow = None
    for st in ast.walk(fn_node):
        tgs = []
        if isinstance(st, ast.Assign):
            tgs = [x for t in st.targets for x in (t.elts if isinstance(t, (ast.Tuple, ast.List)) else [t])]
        elif isinstance(st, ast.AugAssign):
            tgs = [st.target]
        for t in tgs:
            if not (isinstance(t, ast.Subscript) and isinstance(t.value, ast.Subscript)):
                continue
            inner = t.value.slice
            if rs is None:
                rs = _Res(fn_node)
                flow = _flow(fn_node)
            at = flow.node_containing(st)

            def arrayish(e, depth=0) -> Optional[str]:
                if depth > 6 or e is None:
                    return None
                if isinstance(e, (ast.Compare, ast.BoolOp)):
                    return "a comparison (boolean mask)"
                if isinstance(e, ast.UnaryOp) and isinstance(e.op, (ast.Invert, ast.Not)):
                    return "a negated mask"
                if isinstance(e, ast.Call) and dotted_name(e.func).split(".")[-1] in ARRAY_MAKERS:
                    return f"the result of {dotted_name(e.func)}()"
                if isinstance(e, ast.Subscript):
                    return arrayish(e.slice, depth + 1) or (arrayish(e.value, depth + 1) if isinstance(e.slice, (ast.Name, ast.UnaryOp, ast.Compare)) and arrayish(e.slice, depth + 1) else None)
                if isinstance(e, ast.Tuple):
                    for x in e.elts:
                        r = arrayish(x, depth + 1)
                        if r:
                            return r
                if isinstance(e, ast.Name) and at is not None:
                    ds = flow.reaching(at, e.id)
                    whys = [arrayish(d.value, depth + 1) if (d.kind == "assign" and d.value is not None and not d.path) else None for d in ds]
                    if ds and all(whys):
                        return whys[0]
                return None

            why = arrayish(inner)
            if why:
                out.append((st, ast.unparse(inner), why))
    return out


def eigh_reconstruction_errors(fn_node: ast.FunctionDef):
    """numpy contract: `w, V = np.linalg.eigh(A)` returns the eigenvectors as the *columns* of V (A = V diag(w) V^T,
    batched: A[k] = einsum('ij,j,lj->il', V[k], w[k], V[k])).  Returns [(call / expression node, why)] for
    reconstructions that contract the eigenvalues with the *row* index of V instead (V^T diag(w) V): still symmetric,
    still positive definite when w > 0, but rotated -- a different matrix.
      * np.einsum with a literal subscript string whose operands are a value derived from w and values derived from V:
        the letter of w's last axis must be the last letter of every V operand;
      * `X @ np.diag(w') @ Y` / `(X * w') @ Y`: X must be V (not transposed) and Y its transpose.
    Names are 'derived' through subscripts (V[mask]), np.maximum / clip / where / abs / sqrt of w, copies."""
    vals: Set[str] = set()
    vecs: Set[str] = set()
    for x in ast.walk(fn_node):
        if isinstance(x, ast.Assign) and isinstance(x.value, ast.Call) and dotted_name(x.value.func).split(".")[-1] in ("eigh", "eig") and len(x.targets) == 1 \
                and isinstance(x.targets[0], ast.Tuple) and len(x.targets[0].elts) == 2 and all(isinstance(e, ast.Name) for e in x.targets[0].elts):
            vals.add(x.targets[0].elts[0].id)
            vecs.add(x.targets[0].elts[1].id)
    if not vecs:
        return []

    def base_kind(e, depth=0) -> Optional[str]:
        """'w' / 'V' / 'Vt' for expressions that are the eigenvalues / eigenvectors (possibly selected / floored) / transposed eigenvectors"""
        if depth > 6:
            return None
        if isinstance(e, ast.Name):
            return "w" if e.id in vals else ("V" if e.id in vecs else None)
        if isinstance(e, ast.Subscript):
            k = base_kind(e.value, depth + 1)
            if k in ("V", "Vt") and isinstance(e.slice, ast.Tuple) and any(isinstance(z, ast.Slice) or (isinstance(z, ast.Constant) and z.value is None) for z in e.slice.elts):
                return None  # reshaped / re-axed: not followed
            return k
        if isinstance(e, ast.Attribute) and e.attr == "T":
            k = base_kind(e.value, depth + 1)
            return {"V": "Vt", "Vt": "V"}.get(k)
        if isinstance(e, ast.Call):
            nm = dotted_name(e.func).split(".")[-1]
            if nm in ("maximum", "clip", "where", "abs", "sqrt", "fmax", "copy", "asarray", "array") and e.args:
                ks = [base_kind(a, depth + 1) for a in e.args] + ([base_kind(e.func.value, depth + 1)] if isinstance(e.func, ast.Attribute) else [])
                if "w" in ks:
                    return "w"
                if nm in ("copy", "asarray", "array") and "V" in ks:
                    return "V"
            if nm in ("swapaxes", "transpose") and (e.args or isinstance(e.func, ast.Attribute)):
                inner = e.func.value if isinstance(e.func, ast.Attribute) and base_kind(e.func.value, depth + 1) else (e.args[0] if e.args else None)
                k = base_kind(inner, depth + 1) if inner is not None else None
                return {"V": "Vt", "Vt": "V"}.get(k)
        return None

    # local names bound to derived values
    for _ in range(3):
        for x in ast.walk(fn_node):
            if isinstance(x, ast.Assign) and len(x.targets) == 1 and isinstance(x.targets[0], ast.Name):
                k = base_kind(x.value)
                if k == "w":
                    vals.add(x.targets[0].id)
                elif k == "V":
                    vecs.add(x.targets[0].id)
    out = []
    for c in ast.walk(fn_node):
        if isinstance(c, ast.Call) and dotted_name(c.func).split(".")[-1] == "einsum" and c.args and isinstance(c.args[0], ast.Constant) and isinstance(c.args[0].value, str) and "->" in c.args[0].value:
            spec = c.args[0].value.replace(" ", "")
            ins = spec.split("->")[0].split(",")
            ops = c.args[1:]
            if len(ins) != len(ops):
                continue
            kinds = [base_kind(o) for o in ops]
            if "w" not in kinds or not any(k in ("V", "Vt") for k in kinds):
                continue
            wl = ins[kinds.index("w")].replace("...", "")
            if not wl:
                continue
            j = wl[-1]
            for sub, k, o in zip(ins, kinds, ops):
                sub = sub.replace("...", "")
                if k in ("V", "Vt") and j in sub:
                    pos_last = sub[-1] == j
                    if (k == "V" and not pos_last) or (k == "Vt" and pos_last):
                        out.append((c, f"einsum('{spec}') contracts the eigenvalue index '{j}' with the row index of the eigenvector matrix `{ast.unparse(o)[:30]}` (eigh returns eigenvectors as columns)"))
                        break
        elif isinstance(c, ast.BinOp) and isinstance(c.op, ast.MatMult):
            # flatten a @ b @ c
            chain_ = []

            def flat(e):
                if isinstance(e, ast.BinOp) and isinstance(e.op, ast.MatMult):
                    flat(e.left)
                    flat(e.right)
                else:
                    chain_.append(e)

            flat(c)
            ks = []
            for e in chain_:
                k = base_kind(e)
                if k is None and isinstance(e, ast.Call) and dotted_name(e.func).split(".")[-1] == "diag" and e.args and base_kind(e.args[0]) == "w":
                    k = "D"
                if k is None and isinstance(e, ast.BinOp) and isinstance(e.op, ast.Mult):
                    a, b = base_kind(e.left), base_kind(e.right)
                    if {a, b} == {"V", "w"}:
                        k = "VD"  # V * w scales the columns: V diag(w)
                    elif {a, b} == {"Vt", "w"}:
                        k = "VtD"
                ks.append(k)
            sig = [k for k in ks if k]
            if sig in (["Vt", "D", "V"], ["VtD", "V"]):
                out.append((c, "`V.T @ diag(w) @ V` rebuilds the matrix with the eigenvectors taken as rows (eigh returns them as columns: V @ diag(w) @ V.T)"))
    # keep the outermost matmul only
    uniq = []
    for (n, why) in out:
        if not any(n is not m and any(n is y for y in ast.walk(m)) for (m, _) in out):
            uniq.append((n, why))
    return uniq


_NARROW = ("float32", "float16", "half", "single", "bfloat16", "'f4'", "'f2'", "'float32'", "'float16'", "'<f4'", "'e'")


def precision_downgrades(fn_node: ast.AST):
    """Casts to / allocations in a floating type narrower than double inside a numerical routine:
    `x.astype(np.float32)`, `dtype=np.float32`, `np.float32(x)`, a name bound to such a type and used as a dtype.
    Returns [(node, text of the narrow type)]."""
    out = []
    narrow_names = set()
    for x in ast.walk(fn_node):
        if isinstance(x, ast.Assign) and len(x.targets) == 1 and isinstance(x.targets[0], ast.Name):
            txt = ast.unparse(x.value)
            if any(t in txt for t in _NARROW):
                narrow_names.add(x.targets[0].id)

    def narrow(e) -> Optional[str]:
        txt = ast.unparse(e)
        for t in _NARROW:
            if t in txt:
                return t
        if isinstance(e, ast.Name) and e.id in narrow_names:
            return e.id + " (bound to a narrow type)"
        return None

    for c in ast.walk(fn_node):
        if not isinstance(c, ast.Call):
            continue
        nm = dotted_name(c.func).split(".")[-1]
        if nm == "astype" and c.args:
            t = narrow(c.args[0])
            if t:
                out.append((c, t))
        for k in c.keywords:
            if k.arg == "dtype":
                t = narrow(k.value)
                if t:
                    out.append((c, t))
        if nm in ("float32", "float16", "half", "single") and c.args:
            out.append((c, nm))
    return out


def repeating_index_accumulations(fn_node: ast.FunctionDef):
    """`a[idx] += v` / `a[idx] -= v` where idx is an index array that repeats by construction (inverse of np.unique,
    labels from predict / argmin / argmax, draws with replacement, searchsorted / digitize bins): numpy applies each
    distinct index once.  [(statement, why)]"""
    from .dataflow import flow_of as _flow

    REPEATING = ("unique", "searchsorted", "digitize", "choice", "randint", "argmin", "argmax", "predict")
    out = []
    flow = None
    for st in ast.walk(fn_node):
        if not (isinstance(st, ast.AugAssign) and isinstance(st.target, ast.Subscript)):
            continue
        idx = st.target.slice
        if isinstance(idx, (ast.Slice, ast.Constant)):
            continue
        flow = flow or _flow(fn_node)
        at = flow.node_containing(st)
        why = None
        for c in ast.walk(idx):
            if isinstance(c, ast.Call) and dotted_name(c.func).split(".")[-1] in REPEATING:
                why = dotted_name(c.func)
        for x in ast.walk(idx):
            if isinstance(x, ast.Name) and at is not None:
                for d in flow.reaching(at, x.id):
                    v = d.value
                    if v is not None and isinstance(v, ast.Call) and dotted_name(v.func).split(".")[-1] in REPEATING:
                        last = dotted_name(v.func).split(".")[-1]
                        if last == "unique" and not any(k.arg == "return_inverse" for k in v.keywords):
                            continue
                        if last == "unique" and not d.path:
                            continue
                        if last == "unique" and d.path and d.path[0] == 0:
                            continue
                        if last == "choice" and any(k.arg == "replace" and isinstance(k.value, ast.Constant) and k.value.value is False for k in v.keywords):
                            continue
                        why = dotted_name(v.func)
        if why:
            out.append((st, why))
    return out


_MUTATORS = ("append", "extend", "insert", "pop", "remove", "clear", "update", "setdefault", "popitem", "add", "discard", "sort", "reverse")


def class_level_container_mutations(fi):
    """(node, attribute, definition) for every in-place modification, through `self`, of a mutable container that is
    created in the class body (`cache = {}`) and never re-bound on the instance by any method of the class."""
    cls = getattr(fi, "cls", None)
    if cls is None:
        return []
    shared = {}
    for st in cls.node.body:
        tgt = val = None
        if isinstance(st, ast.Assign) and len(st.targets) == 1 and isinstance(st.targets[0], ast.Name):
            tgt, val = st.targets[0].id, st.value
        elif isinstance(st, ast.AnnAssign) and isinstance(st.target, ast.Name) and st.value is not None:
            tgt, val = st.target.id, st.value
        if tgt is None:
            continue
        mutable = isinstance(val, (ast.Dict, ast.List, ast.Set, ast.ListComp, ast.DictComp, ast.SetComp)) or \
            (isinstance(val, ast.Call) and isinstance(val.func, ast.Name) and val.func.id in ("dict", "list", "set", "defaultdict", "OrderedDict", "deque", "bytearray"))
        if mutable:
            shared[tgt] = val
    if not shared:
        return []
    for m in cls.methods.values():
        for x in ast.walk(m.node):
            if isinstance(x, ast.Attribute) and isinstance(x.ctx, ast.Store) and isinstance(x.value, ast.Name) and x.value.id == "self":
                shared.pop(x.attr, None)
    out = []
    for x in ast.walk(fi.node):
        a = None
        if isinstance(x, ast.Subscript) and isinstance(x.ctx, (ast.Store, ast.Del)) and isinstance(x.value, ast.Attribute):
            a = x.value
        elif isinstance(x, ast.Call) and isinstance(x.func, ast.Attribute) and x.func.attr in _MUTATORS and isinstance(x.func.value, ast.Attribute):
            a = x.func.value
        if a is not None and isinstance(a.value, ast.Name) and a.value.id == "self" and a.attr in shared:
            out.append((x, a.attr, shared[a.attr]))
    return out


def numpy_contract_pack(ctx, R, rule: str, funcs, what: str):
    """Construct-level numpy / Python contracts checked in the functions a property lives in: a violation of one of them
    is a defect wherever it stands; it is reported under the property whose code contains it.
      lost store through chained advanced indexing, accumulation through a repeating index array, a mutated mutable
      default argument, a matrix rebuilt from `eigh` with the eigenvectors as rows, a class-level container modified through
      an instance."""
    n = 0
    seen = set()
    for fi in funcs:
        if fi.qualname in seen:
            continue
        seen.add(fi.qualname)
        n += 1
        for (st, idx, why) in lost_fancy_stores(fi.node):
            R.check(rule, "no store goes through chained advanced indexing", False, fi, st,
                    msg=f"{fi.short}: `{ast.unparse(st)[:70]}` assigns through `[{idx}]`, which is {why}: advanced indexing returns a copy, so the store is lost -- {what}",
                    key=f"contract:lost-store:{fi.short}")
        for (st, why) in repeating_index_accumulations(fi.node):
            R.check(rule, "no in-place accumulation through an index array that repeats by construction", False, fi, st,
                    msg=f"{fi.short}: `{ast.unparse(st)[:70]}` accumulates through an index array from `{why}`, which repeats indices: numpy applies each distinct index once, all "
                        f"other contributions are dropped (np.add.at / np.bincount accumulate) -- {what}", key=f"contract:fancy-accumulate:{fi.short}")
        for (param, d, node) in mutable_default_mutations(fi.node):
            R.check(rule, "no mutable default argument is modified", False, fi, node,
                    msg=f"{fi.short}: `{ast.unparse(node)[:60]}` modifies the default `{param}={ast.unparse(d)}`, one object shared by every call: what one call leaves in it is still there "
                        f"in the next -- {what}", key=f"contract:mutable-default:{fi.short}:{param}")
        for (node, why) in eigh_reconstruction_errors(fi.node):
            R.check(rule, "a matrix rebuilt from its eigendecomposition is V diag(w) V^T", False, fi, node,
                    msg=f"{fi.short}: `{ast.unparse(node)[:70]}`: {why} -- {what}", key=f"contract:eigh-rows:{fi.short}")
        for (node, attr, d) in class_level_container_mutations(fi):
            R.check(rule, "no class-level container is modified through an instance", False, fi, node,
                    msg=f"{fi.short}: `{ast.unparse(node)[:60]}` modifies `{attr} = {ast.unparse(d)[:20]}`, which is defined in the class body and never re-bound per instance: one object shared by "
                        f"every instance in the process, so a second sampler reads what the first one left there -- {what}", key=f"contract:class-level-container:{fi.short}:{attr}")
    R.check(rule, "numpy / Python construct contracts hold in the property's functions", True, None, None, key="contract-scan")
    R.analysed[f"{rule}:functions scanned for construct contracts"] = n



def own_sum_normalisation(ctx, fi, stmt: ast.stmt, node, vec_name: Optional[str] = None):
    """The one reading of "this statement normalises a weight vector by its own sum", used by every rule that needs it
    (C12.e, C15.d, C20.f, C20.e).  `stmt` is `T /= E`, `T = <expr>`.  Locals are resolved first (`total = np.sum(w)`),
    then the power-sum algebra decides.  Returns (True | False | None, computed form, vector name)."""
    from .algebra import normalised_by_own_sum
    from .dataflow import Resolver

    if isinstance(stmt, ast.AugAssign) and isinstance(stmt.target, ast.Name):
        if not isinstance(stmt.op, (ast.Div, ast.Mult)):
            return None, None, None
        # locals of the divisor are written out, the vector itself is kept as the base vector
        rhs = Resolver(fi.node).resolve(stmt.value, node, bound={stmt.target.id}) if node is not None else stmt.value
        expr = ast.BinOp(left=ast.Name(id=stmt.target.id, ctx=ast.Load()), op=stmt.op, right=rhs)
        vec = stmt.target.id
    elif isinstance(stmt, ast.Assign) and len(stmt.targets) == 1 and isinstance(stmt.targets[0], ast.Name):
        vec = vec_name
        if vec is None:
            # the vector being normalised: the one array name the statement reads as written
            own = [x.id for x in ast.walk(stmt.value) if isinstance(x, ast.Name) and isinstance(x.ctx, ast.Load)]
            cand = [x for x in dict.fromkeys(own) if x not in ("np", "numpy", "math", "len", "sum", "float", "None", "True", "False")]
            local_scalars = set()
            if node is not None:
                from .dataflow import flow_of
                fl = flow_of(fi.node)
                for x in cand:
                    ds = fl.reaching(node, x)
                    if len(ds) == 1 and ds[0].kind == "assign" and isinstance(ds[0].value, ast.Call) and not ds[0].path and x != stmt.targets[0].id:
                        # a local bound to a reduction (total = np.sum(w)) is part of the divisor, not the vector
                        if any(isinstance(y, ast.Name) and y.id in cand and y.id != x for y in ast.walk(ds[0].value)):
                            local_scalars.add(x)
            cand = [x for x in cand if x not in local_scalars]
            if len(cand) == 1:
                vec = cand[0]
        expr = Resolver(fi.node).resolve(stmt.value, node, bound={vec} if vec else None) if node is not None else stmt.value
        if vec is None:
            names = []
            for x in ast.walk(expr):
                if isinstance(x, ast.Name) and isinstance(x.ctx, ast.Load) and x.id not in names and x.id not in ("np", "numpy", "math", "len", "sum", "float", "None", "True", "False"):
                    names.append(x.id)
            if len(names) != 1:
                return None, None, None
            vec = names[0]
    else:
        return None, None, None
    ast.fix_missing_locations(expr)
    ok, form = normalised_by_own_sum(lambda c: ctx.res.external_name(fi, c), expr, vec)
    return ok, form, vec
