"""In-memory variants of the live tree for the checker's self-tests.

A variant is a function sources -> sources' (dict relpath -> text) or None when
its anchor is not present on this tree.  Variants are produced by AST edits and
`ast.unparse`; nothing is written to disk and nothing is executed.
"""
from __future__ import annotations

import ast
import copy
from dataclasses import dataclass
from typing import Callable, Dict, List, Optional, Sequence

Sources = Dict[str, str]


@dataclass
class Variant:
    name: str
    kind: str  # 'bad' (rule(s) in expect must fire) | 'benign' (verdict must not change)
    apply: Callable[[Sources], Optional[Sources]]
    expect: Sequence[str] = ()
    quick: bool = False
    note: str = ""


def find_def(tree: ast.Module, path: str) -> Optional[ast.AST]:
    """'Class.method', 'function', 'Class.method.<inner>' -> def node."""
    cur: ast.AST = tree
    for part in path.split("."):
        part = part.strip("<>")
        nxt = None
        for n in _direct_defs(cur):
            if n.name == part:
                nxt = n
                break
        if nxt is None:
            return None
        cur = nxt
    return cur


def _direct_defs(node: ast.AST):
    out = []

    def visit(stmts):
        for s in stmts:
            if isinstance(s, (ast.FunctionDef, ast.AsyncFunctionDef, ast.ClassDef)):
                out.append(s)
                continue
            for fld in ("body", "orelse", "finalbody"):
                sub = getattr(s, fld, None)
                if isinstance(sub, list) and sub and isinstance(sub[0], ast.stmt):
                    visit(sub)
            if isinstance(s, ast.Try):
                for h in s.handlers:
                    visit(h.body)

    visit(getattr(node, "body", []))
    return out


def edit(relpath: str, defpath: Optional[str], fn: Callable[[ast.AST, ast.Module], bool]) -> Callable[[Sources], Optional[Sources]]:
    """Variant that parses `relpath`, locates `defpath` (or the module when
    None), lets fn mutate the node in place (returning True if it applied)."""

    def apply(sources: Sources) -> Optional[Sources]:
        if relpath not in sources:
            return None
        tree = ast.parse(sources[relpath])
        node = find_def(tree, defpath) if defpath else tree
        if node is None:
            return None
        if not fn(node, tree):
            return None
        ast.fix_missing_locations(tree)
        out = dict(sources)
        out[relpath] = ast.unparse(tree) + "\n"
        return out

    return apply


def chain(*applies) -> Callable[[Sources], Optional[Sources]]:
    def apply(sources):
        for a in applies:
            sources = a(sources)
            if sources is None:
                return None
        return sources

    return apply


# ---------------------------------------------------------------- edit helpers
def replace_in_body(root: ast.AST, pred: Callable[[ast.stmt], bool], repl: Callable[[ast.stmt], List[ast.stmt]], first_only=True) -> bool:
    """Replace statements satisfying pred (searching all nested blocks, not
    nested defs unless root is one) by repl(stmt) (a list, may be empty; an
    emptied block gets `pass`)."""
    done = [False]

    def visit(owner, fld):
        stmts = getattr(owner, fld)
        new = []
        for s in stmts:
            if pred(s) and not (first_only and done[0]):
                new.extend(repl(s))
                done[0] = True
                continue
            new.append(s)
            if isinstance(s, (ast.FunctionDef, ast.AsyncFunctionDef, ast.ClassDef)):
                continue
            for f2 in ("body", "orelse", "finalbody"):
                sub = getattr(s, f2, None)
                if isinstance(sub, list) and sub and isinstance(sub[0], ast.stmt):
                    visit(s, f2)
            if isinstance(s, ast.Try):
                for h in s.handlers:
                    visit(h, "body")
        if not new:
            new = [ast.Pass()]
        setattr(owner, fld, new)

    visit(root, "body")
    return done[0]


def rewrite_expr(root: ast.AST, pred: Callable[[ast.AST], bool], repl: Callable[[ast.AST], ast.AST], first_only=True) -> bool:
    done = [False]

    class T(ast.NodeTransformer):
        def generic_visit(self, node):
            node = super().generic_visit(node)
            return node

        def visit(self, node):
            if pred(node) and not (first_only and done[0]):
                done[0] = True
                return repl(node)
            return super().visit(node)

    T().visit(root)
    return done[0]


def text(node: ast.AST) -> str:
    return "".join(ast.unparse(node).split())


def _norm_src(s: str) -> str:
    """Normalise a source fragment the same way `text` normalises nodes (so that
    quoting style and redundant parentheses do not matter)."""
    try:
        return "".join(ast.unparse(ast.parse(s)).split())
    except SyntaxError:
        try:
            return "".join(ast.unparse(ast.parse(s, mode="eval")).split())
        except SyntaxError:
            return "".join(s.split())


def stmt_text_is(s: str) -> Callable[[ast.stmt], bool]:
    key = _norm_src(s)
    return lambda st: text(st) == key


def stmt_contains(s: str) -> Callable[[ast.stmt], bool]:
    key = _norm_src(s)
    return lambda st: not isinstance(st, (ast.If, ast.For, ast.While, ast.With, ast.Try, ast.FunctionDef, ast.ClassDef)) and key in text(st)


def parse_stmts(src: str) -> List[ast.stmt]:
    return ast.parse(src).body


def parse_expr(src: str) -> ast.expr:
    return ast.parse(src, mode="eval").body


# ------------------------------------------------------------- benign rewrites
def alpha_rename(relpath: str, defpath: str, old: str, new: str):
    """Rename a local variable (loads and stores) inside one function."""

    def fn(node, tree):
        hit = False
        for n in ast.walk(node):
            if isinstance(n, ast.Name) and n.id == old:
                n.id = new
                hit = True
            elif isinstance(n, ast.arg) and n.arg == old:
                return False  # do not rename parameters (keyword callers)
        return hit

    return edit(relpath, defpath, fn)


def invert_if(relpath: str, defpath: str, test_contains: str):
    """if c: A else: B  ->  if not c: B else: A (only when an else exists)."""
    key = "".join(test_contains.split())

    def fn(node, tree):
        for n in ast.walk(node):
            if isinstance(n, ast.If) and n.orelse and key in text(n.test) and not (len(n.orelse) == 1 and isinstance(n.orelse[0], ast.If)):
                n.test = ast.UnaryOp(op=ast.Not(), operand=n.test)
                n.body, n.orelse = n.orelse, n.body
                return True
        return False

    return edit(relpath, defpath, fn)


def hoist(relpath: str, defpath: str, stmt_contains_text: str, sub_text: str, tmp: str):
    """Hoist the sub-expression with text `sub_text` of the first statement
    containing `stmt_contains_text` into a fresh local `tmp` defined just
    before."""
    skey = _norm_src(stmt_contains_text)
    ekey = _norm_src(sub_text)

    def fn(node, tree):
        def pred(st):
            return stmt_contains(skey)(st)

        def repl(st):
            found = []

            def p(n):
                return isinstance(n, ast.expr) and text(n) == ekey

            def r(n):
                found.append(n)
                return ast.Name(id=tmp, ctx=ast.Load())

            st2 = copy.deepcopy(st)
            if not rewrite_expr(st2, p, r):
                return [st]
            return [ast.Assign(targets=[ast.Name(id=tmp, ctx=ast.Store())], value=found[0]), st2]

        ok = replace_in_body(node, pred, repl)
        return ok and (tmp in ast.unparse(node))

    return edit(relpath, defpath, fn)


def insert_before(relpath: str, defpath: str, stmt_contains_text: str, new_src: str):
    skey = _norm_src(stmt_contains_text)

    def fn(node, tree):
        return replace_in_body(node, stmt_contains(skey), lambda st: parse_stmts(new_src) + [st])

    return edit(relpath, defpath, fn)


def insert_after(relpath: str, defpath: str, stmt_contains_text: str, new_src: str):
    skey = _norm_src(stmt_contains_text)

    def fn(node, tree):
        return replace_in_body(node, stmt_contains(skey), lambda st: [st] + parse_stmts(new_src))

    return edit(relpath, defpath, fn)


def delete_stmt(relpath: str, defpath: str, stmt_contains_text: str):
    skey = _norm_src(stmt_contains_text)

    def fn(node, tree):
        return replace_in_body(node, stmt_contains(skey), lambda st: [])

    return edit(relpath, defpath, fn)


def replace_stmt(relpath: str, defpath: str, stmt_contains_text: str, new_src: str):
    skey = _norm_src(stmt_contains_text)

    def fn(node, tree):
        return replace_in_body(node, stmt_contains(skey), lambda st: parse_stmts(new_src))

    return edit(relpath, defpath, fn)


def replace_expr(relpath: str, defpath: Optional[str], old_expr: str, new_expr: str, nth: int = 0):
    """Replace the nth (0-based) sub-expression whose normalised text equals
    old_expr."""
    okey = _norm_src(old_expr)

    def fn(node, tree):
        count = [0]

        def p(n):
            if isinstance(n, ast.expr) and not isinstance(getattr(n, "ctx", None), (ast.Store, ast.Del)) and text(n) == okey:
                count[0] += 1
                return count[0] - 1 == nth
            return False

        return rewrite_expr(node, p, lambda n: parse_expr(new_expr))

    return edit(relpath, defpath, fn)


def replace_if(relpath: str, defpath: str, test_text: str, new_src: str, nth: int = 0):
    """Replace the nth `if` statement whose test has the given text by new_src."""
    key = _norm_src(test_text)

    def fn(node, tree):
        count = [0]

        def pred(st):
            if isinstance(st, ast.If) and text(st.test) == key:
                count[0] += 1
                return count[0] - 1 == nth
            return False

        return replace_in_body(node, pred, lambda st: parse_stmts(new_src))

    return edit(relpath, defpath, fn)


def set_keyword(relpath: str, defpath: str, call_contains: str, kw: str, new_value_src: str):
    """Set keyword `kw` of the first call whose text contains call_contains."""
    key = _norm_src(call_contains)

    def fn(node, tree):
        for c in ast.walk(node):
            if isinstance(c, ast.Call) and key in text(c):
                for k in c.keywords:
                    if k.arg == kw:
                        k.value = parse_expr(new_value_src)
                        return True
        return False

    return edit(relpath, defpath, fn)


def insert_before_function(relpath: str, defname: str, new_src: str):
    """Insert module-level statements (e.g. a new helper definition) in front of the top-level definition `defname`."""

    def fn(node, tree):
        for i, st in enumerate(tree.body):
            if isinstance(st, (ast.FunctionDef, ast.ClassDef)) and st.name == defname:
                tree.body[i:i] = parse_stmts(new_src)
                return True
        return False

    return edit(relpath, None, fn)



def normalisation_twins(prefix: str, relpath: str, defpath: str, stmt: str, target: str, inplace: bool, expected: List[str]) -> List["Variant"]:
    """Twins for one own-sum normalisation statement (`T /= np.sum(T)` or `T = T / np.sum(T)`): the same normalisation
    in other spellings (benign) and divisions by something that is not the vector's own sum (bad).  In-place anchors stay
    in place (re-binding a name is a different thing for an array the caller owns)."""
    T = target
    op = (lambda rhs: f"{T} /= {rhs}") if inplace else (lambda rhs: f"{T} = {T} / {rhs}")
    benign = [("method-sum", op(f"{T}.sum()")),
              ("total-bound-first", f"_total = np.sum({T})\n" + op("_total")),
              ("builtin-free-keywords", op(f"np.sum({T}, axis=None)"))]
    if not inplace:
        benign.append(("np-divide", f"{T} = np.divide({T}, np.sum({T}))"))
        benign.append(("times-reciprocal", f"{T} = {T} * (1.0 / np.sum({T}))"))
    bad = [("by-max", op(f"np.max({T})")), ("by-count", op(f"len({T})")), ("by-sum-of-squares", op(f"np.sum({T} ** 2)")), ("by-mean", op(f"np.mean({T})"))]
    out = []
    for n, src in benign:
        out.append(Variant(f"{prefix}-benign-normalise-{n}", "benign", replace_stmt(relpath, defpath, stmt, src)))
    for n, src in bad:
        out.append(Variant(f"{prefix}-normalise-{n}", "bad", replace_stmt(relpath, defpath, stmt, src), list(expected)))
    return out



# ----------------------------------------------------------------------------------------------------------------------
# Whole-package benign rewrites: the same exact equivalence applied to every occurrence in every module at once.  One such
# variant exercises every rule of a property against dozens of sites; the verdict of the property must not move.

def _rewrite_all(transformer_factory) -> Callable[[Sources], Optional[Sources]]:
    def apply(sources: Sources) -> Optional[Sources]:
        out = dict(sources)
        n = 0
        for rel, src in sources.items():
            try:
                tree = ast.parse(src)
            except SyntaxError:
                continue
            t = transformer_factory()
            tree = t.visit(tree)
            if t.count:
                ast.fix_missing_locations(tree)
                out[rel] = ast.unparse(tree) + "\n"
                n += t.count
        return out if n else None
    return apply


def _is_none_cmp(node):
    return (isinstance(node, ast.Compare) and len(node.ops) == 1 and isinstance(node.ops[0], (ast.Is, ast.IsNot))
            and isinstance(node.comparators[0], ast.Constant) and node.comparators[0].value is None)


class _NoneDoubleNegation(ast.NodeTransformer):
    """X is None -> not (X is not None);  X is not None -> not (X is None)"""
    def __init__(self):
        self.count = 0

    def visit_Compare(self, node):
        self.generic_visit(node)
        if _is_none_cmp(node):
            self.count += 1
            flipped = ast.Compare(left=node.left, ops=[ast.IsNot() if isinstance(node.ops[0], ast.Is) else ast.Is()], comparators=node.comparators)
            return ast.copy_location(ast.UnaryOp(op=ast.Not(), operand=flipped), node)
        return node


class _NoneYoda(ast.NodeTransformer):
    """X is None -> None is X;  X is not None -> None is not X"""
    def __init__(self):
        self.count = 0

    def visit_Compare(self, node):
        self.generic_visit(node)
        if _is_none_cmp(node):
            self.count += 1
            return ast.copy_location(ast.Compare(left=ast.Constant(value=None), ops=node.ops, comparators=[node.left]), node)
        return node


class _NoneIsinstance(ast.NodeTransformer):
    """X is None -> isinstance(X, type(None));  X is not None -> not isinstance(X, type(None))"""
    def __init__(self):
        self.count = 0

    def visit_Compare(self, node):
        self.generic_visit(node)
        if _is_none_cmp(node):
            self.count += 1
            call = ast.Call(func=ast.Name(id="isinstance", ctx=ast.Load()),
                            args=[node.left, ast.Call(func=ast.Name(id="type", ctx=ast.Load()), args=[ast.Constant(value=None)], keywords=[])], keywords=[])
            return ast.copy_location(call if isinstance(node.ops[0], ast.Is) else ast.UnaryOp(op=ast.Not(), operand=call), node)
        return node


class _InvertIfElse(ast.NodeTransformer):
    """if c: A else: B  ->  if not c: B else: A   (every if that has an else branch; `elif` chains are nested ifs)"""
    def __init__(self):
        self.count = 0

    def visit_If(self, node):
        self.generic_visit(node)
        if node.orelse:
            self.count += 1
            t = node.test
            test = t.operand if (isinstance(t, ast.UnaryOp) and isinstance(t.op, ast.Not)) else ast.UnaryOp(op=ast.Not(), operand=t)
            return ast.copy_location(ast.If(test=test, body=node.orelse, orelse=node.body), node)
        return node

    def visit_IfExp(self, node):
        self.generic_visit(node)
        self.count += 1
        t = node.test
        test = t.operand if (isinstance(t, ast.UnaryOp) and isinstance(t.op, ast.Not)) else ast.UnaryOp(op=ast.Not(), operand=t)
        return ast.copy_location(ast.IfExp(test=test, body=node.orelse, orelse=node.body), node)


class _NumpyFullName(ast.NodeTransformer):
    """`import numpy as np` -> `import numpy`, and every `np.<x>` -> `numpy.<x>` (modules that never re-bind `np`)"""
    def __init__(self):
        self.count = 0
        self.alias = None

    def visit_Module(self, node):
        stores = {n.id for n in ast.walk(node) if isinstance(n, ast.Name) and isinstance(n.ctx, (ast.Store, ast.Del))}
        for st in ast.walk(node):
            if isinstance(st, ast.Import):
                for a in st.names:
                    if a.name == "numpy" and a.asname and a.asname not in stores and "numpy" not in stores:
                        self.alias = a.asname
                        a.asname = None
        if self.alias:
            self.generic_visit(node)
        return node

    def visit_Name(self, node):
        if node.id == self.alias and isinstance(node.ctx, ast.Load):
            self.count += 1
            return ast.copy_location(ast.Name(id="numpy", ctx=ast.Load()), node)
        return node


class _LenTests(ast.NodeTransformer):
    """len(X) == 0 -> len(X) < 1;  len(X) > 0 / != 0 -> len(X) >= 1;  len(X) < n stays (identities on non-negative ints)"""
    def __init__(self):
        self.count = 0

    def visit_Compare(self, node):
        self.generic_visit(node)
        if len(node.ops) == 1 and isinstance(node.left, ast.Call) and isinstance(node.left.func, ast.Name) and node.left.func.id == "len" \
                and isinstance(node.comparators[0], ast.Constant) and node.comparators[0].value == 0 and not isinstance(node.comparators[0].value, bool):
            op = node.ops[0]
            new = ast.Lt() if isinstance(op, ast.Eq) else (ast.GtE() if isinstance(op, (ast.Gt, ast.NotEq)) else None)
            if new is not None:
                self.count += 1
                return ast.copy_location(ast.Compare(left=node.left, ops=[new], comparators=[ast.Constant(value=1)]), node)
        return node


class _AxisPositional(ast.NodeTransformer):
    """np.sum(a, axis=K) -> np.sum(a, K) for the reductions whose second positional parameter is the axis"""
    REDUCTIONS = {"sum", "mean", "max", "min", "amax", "amin", "argmax", "argmin", "all", "any", "prod", "cumsum", "std", "var", "median"}

    def __init__(self):
        self.count = 0

    def visit_Call(self, node):
        self.generic_visit(node)
        f = node.func
        if isinstance(f, ast.Attribute) and isinstance(f.value, ast.Name) and f.value.id in ("np", "numpy") and f.attr in self.REDUCTIONS and len(node.args) == 1 \
                and node.keywords and node.keywords[0].arg == "axis":
            self.count += 1
            ax = node.keywords[0].value
            return ast.copy_location(ast.Call(func=f, args=[node.args[0], ax], keywords=node.keywords[1:]), node)
        return node


class _IfExpAssignAsStatement(ast.NodeTransformer):
    """x = A if c else B  ->  if c: x = A / else: x = B   (plain single-name assignments)"""
    def __init__(self):
        self.count = 0

    def visit_Assign(self, node):
        if len(node.targets) == 1 and isinstance(node.targets[0], ast.Name) and isinstance(node.value, ast.IfExp):
            self.count += 1
            v = node.value
            mk = lambda val: ast.copy_location(ast.Assign(targets=[ast.Name(id=node.targets[0].id, ctx=ast.Store())], value=val), node)  # noqa: E731
            return ast.copy_location(ast.If(test=v.test, body=[mk(v.body)], orelse=[mk(v.orelse)]), node)
        return node


class _RenameLocals(ast.NodeTransformer):
    """every local variable v of every function -> v__r (parameters, globals, names bound by imports / handlers /
    comprehensions and names shared with a nested scope's own bindings are left alone)"""
    def __init__(self):
        self.count = 0

    def visit_FunctionDef(self, node):
        # inner functions first (their own locals), then this one
        self.generic_visit(node)
        own_stmts = []

        def collect(n, top):
            for ch in ast.iter_child_nodes(n):
                if isinstance(ch, (ast.FunctionDef, ast.AsyncFunctionDef, ast.Lambda, ast.ClassDef)):
                    continue
                own_stmts.append(ch)
                collect(ch, False)

        collect(node, True)
        params = {a.arg for a in node.args.args + node.args.kwonlyargs + node.args.posonlyargs} | ({node.args.vararg.arg} if node.args.vararg else set()) | ({node.args.kwarg.arg} if node.args.kwarg else set())
        assigned = {x.id for x in own_stmts if isinstance(x, ast.Name) and isinstance(x.ctx, ast.Store)}
        blocked = set(params)
        for x in ast.walk(node):
            if isinstance(x, (ast.Global, ast.Nonlocal)):
                blocked |= set(x.names)
            elif isinstance(x, ast.alias):
                blocked.add((x.asname or x.name).split(".")[0])
            elif isinstance(x, ast.ExceptHandler) and x.name:
                blocked.add(x.name)
            elif isinstance(x, ast.comprehension):
                blocked |= {t.id for t in ast.walk(x.target) if isinstance(t, ast.Name)}
            elif isinstance(x, (ast.FunctionDef, ast.AsyncFunctionDef, ast.Lambda)) and x is not node:
                a = x.args
                blocked |= {p.arg for p in a.args + a.kwonlyargs + a.posonlyargs}
                if isinstance(x, ast.FunctionDef):
                    blocked.add(x.name)
                    blocked |= {y.id for y in ast.walk(x) if isinstance(y, ast.Name) and isinstance(y.ctx, ast.Store)}
            elif isinstance(x, ast.NamedExpr) and isinstance(x.target, ast.Name):
                blocked.add(x.target.id)
        existing = {x.id for x in ast.walk(node) if isinstance(x, ast.Name)}
        ren = {v: v + "__r" for v in assigned if v not in blocked and not v.startswith("__") and (v + "__r") not in existing and v != "_"}
        if ren:
            for x in ast.walk(node):
                if isinstance(x, ast.Name) and x.id in ren:
                    x.id = ren[x.id]
                    self.count += 1
        return node


class _ReturnViaTemp(ast.NodeTransformer):
    """return <expr>  ->  _ret = <expr>; return _ret   (expressions that are not already a plain name / constant)"""
    def __init__(self):
        self.count = 0

    def visit_Return(self, node):
        if node.value is None or isinstance(node.value, (ast.Name, ast.Constant)):
            return node
        self.count += 1
        return [ast.copy_location(ast.Assign(targets=[ast.Name(id="_ret", ctx=ast.Store())], value=node.value), node),
                ast.copy_location(ast.Return(value=ast.Name(id="_ret", ctx=ast.Load())), node)]

    def visit_Lambda(self, node):
        return node


class _UnpackViaTemp(ast.NodeTransformer):
    """a, b = f(...)  ->  _tup = f(...); a, b = _tup"""
    def __init__(self):
        self.count = 0

    def visit_Assign(self, node):
        if len(node.targets) == 1 and isinstance(node.targets[0], (ast.Tuple, ast.List)) and isinstance(node.value, ast.Call):
            self.count += 1
            return [ast.copy_location(ast.Assign(targets=[ast.Name(id="_tup", ctx=ast.Store())], value=node.value), node),
                    ast.copy_location(ast.Assign(targets=node.targets, value=ast.Name(id="_tup", ctx=ast.Load())), node)]
        return node



class _AugAssignCounters(ast.NodeTransformer):
    """x += c -> x = x + c  (and -=) where c is an integer literal: integer counters (an in-place `+=` on an array by an
    integer literal does not occur in the package; the suite validation of the rewritten tree covers the claim)"""
    def __init__(self):
        self.count = 0

    def visit_AugAssign(self, node):
        if isinstance(node.op, (ast.Add, ast.Sub)) and isinstance(node.value, ast.Constant) and type(node.value.value) is int \
                and isinstance(node.target, (ast.Name, ast.Attribute)):
            self.count += 1
            tgt = node.target
            load = ast.Name(id=tgt.id, ctx=ast.Load()) if isinstance(tgt, ast.Name) else ast.Attribute(value=tgt.value, attr=tgt.attr, ctx=ast.Load())
            return ast.copy_location(ast.Assign(targets=[tgt], value=ast.BinOp(left=load, op=node.op, right=node.value)), node)
        return node


def _init_only_attrs(sources: Sources) -> set:
    """names A such that every store to `<anything>.A` in the package is inside an `__init__`, A is not a method / property
    / class attribute of any class, and no setattr/delattr/__dict__ trick is involved"""
    stored_in_init, stored_elsewhere, defined = set(), set(), set()
    for rel, s in sources.items():
        try:
            tree = ast.parse(s)
        except SyntaxError:
            continue
        for cls in ast.walk(tree):
            if isinstance(cls, ast.ClassDef):
                for st in cls.body:
                    if isinstance(st, (ast.FunctionDef, ast.AsyncFunctionDef)):
                        defined.add(st.name)
                    elif isinstance(st, (ast.Assign, ast.AnnAssign)):
                        for t in (st.targets if isinstance(st, ast.Assign) else [st.target]):
                            for n in ast.walk(t):
                                if isinstance(n, ast.Name):
                                    defined.add(n.id)
        def walk(node, in_init):
            for ch in ast.iter_child_nodes(node):
                ii = in_init
                if isinstance(ch, (ast.FunctionDef, ast.AsyncFunctionDef)):
                    ii = ch.name == "__init__"
                if isinstance(ch, ast.Attribute) and isinstance(ch.ctx, (ast.Store, ast.Del)):
                    (stored_in_init if (ii and isinstance(ch.value, ast.Name) and ch.value.id == "self" and isinstance(ch.ctx, ast.Store)) else stored_elsewhere).add(ch.attr)
                if isinstance(ch, ast.Call) and isinstance(ch.func, ast.Name) and ch.func.id in ("setattr", "delattr"):
                    stored_elsewhere.add("*")
                walk(ch, ii)
        walk(tree, False)
    if "*" in stored_elsewhere:
        return set()
    return stored_in_init - stored_elsewhere - defined


def _hoist_receivers(sources: Sources) -> Optional[Sources]:
    """In every method other than __init__, an attribute `self.A` that is only ever assigned in constructors and is read at
    least twice is read once into a local (`_h_A = self.A` as the first statement) and the local is used instead."""
    attrs = _init_only_attrs(sources)
    out = dict(sources)
    total = 0
    for rel, s in sources.items():
        try:
            tree = ast.parse(s)
        except SyntaxError:
            continue
        n = 0
        for cls in ast.walk(tree):
            if not isinstance(cls, ast.ClassDef):
                continue
            for fn in cls.body:
                if not isinstance(fn, ast.FunctionDef) or fn.name == "__init__" or not fn.args.args or fn.args.args[0].arg != "self":
                    continue
                if any(isinstance(d, ast.Name) and d.id in ("staticmethod", "classmethod", "property") for d in fn.decorator_list):
                    continue
                # `self` must not be re-bound, and nested defs must not take their own `self`
                if any(isinstance(x, ast.Name) and x.id == "self" and isinstance(x.ctx, ast.Store) for x in ast.walk(fn)):
                    continue
                if any(isinstance(x, (ast.FunctionDef, ast.Lambda)) and x is not fn and any(a.arg == "self" for a in x.args.args) for x in ast.walk(fn)):
                    continue
                uses = {}
                for x in ast.walk(fn):
                    if isinstance(x, ast.Attribute) and isinstance(x.ctx, ast.Load) and isinstance(x.value, ast.Name) and x.value.id == "self" and x.attr in attrs:
                        uses.setdefault(x.attr, []).append(x)
                hoist = sorted(a for a, u in uses.items() if len(u) >= 2)
                if not hoist:
                    continue

                class R(ast.NodeTransformer):
                    def visit_Attribute(self, node):
                        self.generic_visit(node)
                        if isinstance(node.ctx, ast.Load) and isinstance(node.value, ast.Name) and node.value.id == "self" and node.attr in hoist:
                            return ast.copy_location(ast.Name(id="_h_" + node.attr, ctx=ast.Load()), node)
                        return node

                body = [R().visit(st) for st in fn.body]
                k = 1 if (body and isinstance(body[0], ast.Expr) and isinstance(body[0].value, ast.Constant) and isinstance(body[0].value.value, str)) else 0
                pre = [ast.copy_location(ast.Assign(targets=[ast.Name(id="_h_" + a, ctx=ast.Store())],
                                                     value=ast.Attribute(value=ast.Name(id="self", ctx=ast.Load()), attr=a, ctx=ast.Load())), fn.body[0]) for a in hoist]
                fn.body = body[:k] + pre + body[k:]
                n += len(hoist)
        if n:
            ast.fix_missing_locations(tree)
            out[rel] = ast.unparse(tree) + "\n"
            total += n
    return out if total else None


_PURE_BUILTINS = {"len", "float", "int", "abs", "min", "max", "bool", "range", "tuple"}
_PURE_NP = {"sum", "mean", "max", "min", "exp", "log", "sqrt", "abs", "zeros", "ones", "empty", "zeros_like", "ones_like", "arange", "asarray",
            "array", "log1p", "isfinite", "isnan", "any", "all", "where", "dot", "eye", "diag", "clip", "floor", "ceil", "argmax", "argmin",
            "cumsum", "concatenate", "maximum", "minimum", "full", "shape", "atleast_1d", "atleast_2d", "prod", "square", "power"}


def _pure_expr(e) -> bool:
    for x in ast.walk(e):
        if isinstance(x, (ast.Await, ast.Yield, ast.YieldFrom, ast.NamedExpr, ast.Lambda, ast.ListComp, ast.SetComp, ast.DictComp, ast.GeneratorExp, ast.Starred)):
            return False
        if isinstance(x, ast.Call):
            f = x.func
            if isinstance(f, ast.Name) and f.id in _PURE_BUILTINS:
                continue
            if isinstance(f, ast.Attribute) and isinstance(f.value, ast.Name) and f.value.id in ("np", "numpy") and f.attr in _PURE_NP:
                continue
            return False
    return True


def _rw(st):
    """(written names, read names) of `name = pure-expr`; None if the statement is of another kind"""
    if not (isinstance(st, ast.Assign) and len(st.targets) == 1 and isinstance(st.targets[0], ast.Name) and _pure_expr(st.value)):
        return None
    return {st.targets[0].id}, {x.id for x in ast.walk(st.value) if isinstance(x, ast.Name)}


class _SwapIndependentAssignments(ast.NodeTransformer):
    """Two adjacent `name = <pure expression>` statements that neither read nor write each other's target are exchanged
    (pure: constants, names, attribute / subscript reads, operators, and calls of len/float/int/abs/min/max and of a fixed
    list of side-effect-free numpy functions -- no random draws, no method calls).  Non-overlapping pairs, every block."""
    def __init__(self):
        self.count = 0

    def _swap(self, body):
        i = 0
        while i + 1 < len(body):
            a, b = _rw(body[i]), _rw(body[i + 1])
            if a and b and not (a[0] & (b[0] | b[1])) and not (b[0] & a[1]):
                body[i], body[i + 1] = body[i + 1], body[i]
                self.count += 1
                i += 2
            else:
                i += 1

    def generic_visit(self, node):
        super().generic_visit(node)
        for f in ("body", "orelse", "finalbody"):
            v = getattr(node, f, None)
            if isinstance(v, list) and v and isinstance(v[0], ast.stmt):
                self._swap(v)
        return node


def _internal_calls_by_keyword(sources: Sources) -> Optional[Sources]:
    """every positional argument of a call that resolves to exactly one function / class of the package (plain
    parameters) is passed by keyword instead -- the callee binds the same values"""
    from . import engine
    from .model import ClassInfo, FuncInfo, Program

    prog = Program(None, sources=dict(sources))
    ctx = engine.Context(prog)
    res = ctx.res
    out = dict(sources)
    total = 0
    for mod in prog.modules.values():
        targets = {}
        for fi in prog.functions.values():
            if fi.module is not mod:
                continue
            for c in ast.walk(fi.node):
                if isinstance(c, ast.Call) and getattr(c, "_sa_params", None) is not None:
                    targets[(c.lineno, c.col_offset)] = list(c._sa_params)
        try:
            tree = ast.parse(sources[mod.relpath])
        except (SyntaxError, KeyError):
            continue
        n = [0]

        class T(ast.NodeTransformer):
            def visit_Call(self, node):
                self.generic_visit(node)
                params = targets.get((node.lineno, node.col_offset))
                if params is None or not node.args or any(isinstance(x, ast.Starred) for x in node.args) or len(node.args) > len(params):
                    return node
                given = {k.arg for k in node.keywords}
                names = params[:len(node.args)]
                if given & set(names) or None in given:
                    return node
                node.keywords = [ast.keyword(arg=nm, value=v) for nm, v in zip(names, node.args)] + list(node.keywords)
                node.args = []
                n[0] += 1
                return node

        T().visit(tree)
        if n[0]:
            ast.fix_missing_locations(tree)
            out[mod.relpath] = ast.unparse(tree) + "\n"
            total += n[0]
    return out if total else None


def global_benign_variants() -> List[Variant]:
    return [
        Variant("global-benign-none-tests-double-negation", "benign", _rewrite_all(_NoneDoubleNegation)),
        Variant("global-benign-none-tests-yoda", "benign", _rewrite_all(_NoneYoda)),
        Variant("global-benign-none-tests-isinstance", "benign", _rewrite_all(_NoneIsinstance)),
        Variant("global-benign-if-else-inverted", "benign", _rewrite_all(_InvertIfElse)),
        Variant("global-benign-numpy-full-name", "benign", _rewrite_all(_NumpyFullName)),
        Variant("global-benign-len-tests", "benign", _rewrite_all(_LenTests)),
        Variant("global-benign-axis-positional", "benign", _rewrite_all(_AxisPositional)),
        Variant("global-benign-ifexp-assign-as-statement", "benign", _rewrite_all(_IfExpAssignAsStatement)),
        Variant("global-benign-locals-renamed", "benign", _rewrite_all(_RenameLocals)),
        Variant("global-benign-return-via-temp", "benign", _rewrite_all(_ReturnViaTemp)),
        Variant("global-benign-unpack-via-temp", "benign", _rewrite_all(_UnpackViaTemp)),
        Variant("global-benign-internal-calls-by-keyword", "benign", _internal_calls_by_keyword),
        Variant("global-benign-counter-augassign-expanded", "benign", _rewrite_all(_AugAssignCounters)),
        Variant("global-benign-constructor-attributes-hoisted", "benign", _hoist_receivers),
        Variant("global-benign-independent-assignments-swapped", "benign", _rewrite_all(_SwapIndependentAssignments)),
    ]
