"""A7: shift / scale / axis typing under  logL -> logL + c.

A typed value is
    Shift(k)   value -> value + k*c          (k a polynomial in coefficient atoms)
    Scale(k)   value -> value * exp(k*c)
with Inv = Shift(0).  Coefficient atoms: 'bf' (the requested beta), 'bt' (the
history beta vector; varies along axis T), 'bc' (the current beta), and rational
constants.  `cval` marks values that *are* such polynomials (so that a product
Shift(1) * beta has coefficient beta).  `axes` names array dimensions ('S'
samples, 'T' iterations, '_' broadcast).  `norm`: log-sum-exp is 0 / sums to 1.

Unknown operations give Unknown (never a violation by themselves); Conflict is
an incompatible combination (columns with different shifts under one reduction,
comparison of differently shifted values, broadcasting of different axes ...).
`hazards` lists exponentials of values that are not shift-free (log-domain
discipline).
"""
from __future__ import annotations

import ast
from fractions import Fraction
from typing import Callable, Dict, List, Optional, Tuple

from .model import dotted, norm_text, ufunc_as_operator

Poly = Dict[tuple, Fraction]


def p_const(c) -> Poly:
    c = Fraction(c).limit_denominator(10**9)
    return {(): c} if c != 0 else {}


def p_atom(a: str) -> Poly:
    return {(a,): Fraction(1)}


def p_add(a: Poly, b: Poly, s=1) -> Poly:
    out = dict(a)
    for m, c in b.items():
        out[m] = out.get(m, Fraction(0)) + s * c
        if out[m] == 0:
            del out[m]
    return out


def p_mul(a: Poly, b: Poly) -> Poly:
    out: Poly = {}
    for m1, c1 in a.items():
        for m2, c2 in b.items():
            m = tuple(sorted(m1 + m2))
            out[m] = out.get(m, Fraction(0)) + c1 * c2
            if out[m] == 0:
                del out[m]
    return out


def p_str(a: Poly) -> str:
    if not a:
        return "0"
    parts = []
    for m, c in sorted(a.items()):
        mon = "*".join(m) if m else "1"
        parts.append(f"{c}*{mon}" if c != 1 or not m else mon)
    return " + ".join(parts)


def p_varies(a: Poly) -> set:
    return {"T"} if any("bt" in m for m in a) else set()


class ST:
    __slots__ = ("kind", "k", "axes", "norm", "cval", "why", "node", "items", "le0")

    def __init__(self, kind, k=None, axes=None, norm=False, cval=None, why="", node=None, items=None, le0=False):
        self.le0 = le0  # bounded above by zero (x - max(x), x - logsumexp(x))
        self.kind = kind  # shift | scale | unknown | conflict | tuple
        self.k: Poly = k if k is not None else {}
        self.axes = axes  # tuple of names or None (unknown / scalar treated as ())
        self.norm = norm
        self.cval: Optional[Poly] = cval
        self.why = why
        self.node = node
        self.items = items

    @property
    def is_inv(self):
        return self.kind == "shift" and not self.k

    def __repr__(self):
        ax = f"[{','.join(self.axes)}]" if self.axes else ""
        if self.kind == "shift":
            return ("Inv" if not self.k else f"Shift({p_str(self.k)})") + ax + ("&Norm" if self.norm else "")
        if self.kind == "scale":
            return f"Scale({p_str(self.k)})" + ax
        if self.kind == "tuple":
            return "(" + ", ".join(map(repr, self.items)) + ")"
        return f"{self.kind.capitalize()}({self.why})"


def inv(axes=None, cval=None, norm=False):
    return ST("shift", {}, axes, norm=norm, cval=cval)


def shift(k: Poly, axes=None):
    return ST("shift", k, axes)


def scale(k: Poly, axes=None):
    if not k:
        return inv(axes)
    return ST("scale", k, axes)


SELECTORS = {"numpy.unique", "numpy.sort", "numpy.argsort", "numpy.bincount", "numpy.take", "numpy.compress", "numpy.delete", "numpy.isin", "numpy.flip", "numpy.roll",
             "numpy.searchsorted", "numpy.diff", "numpy.cumsum", "numpy.random.permutation", "numpy.random.shuffle", "numpy.add.at", "numpy.where"}


class ShiftInterp:
    def __init__(self, ext_name: Callable[[ast.Call], Optional[str]], source: Optional[Callable] = None, internal: Optional[Callable] = None, depth: int = 0,
                 const_params: Optional[Dict[str, object]] = None):
        self.ext_name = ext_name
        self.source = source  # source(expr, env) -> ST or None: typed sources (state reads, attributes)
        self.internal = internal
        self.depth = depth
        self.const_params = const_params or {}
        self.collect_inner_conds = False
        self.strict_exp = False  # also require exp arguments to be max-shifted (<= 0)
        self.conflicts: List[ST] = []
        self.hazards: List[Tuple[ast.AST, ST]] = []
        self.unknowns: List[ST] = []
        self.selectors: List[Tuple[ast.AST, str]] = []
        self.cond_types: List[Tuple[ast.AST, ST]] = []
        self.typed: List[Tuple[str, ST, ast.AST]] = []

    # ------------------------------------------------------------ helpers
    def _conflict(self, why, node) -> ST:
        t = ST("conflict", why=why, node=node)
        self.conflicts.append(t)
        return t

    def _unknown(self, why, node) -> ST:
        t = ST("unknown", why=why, node=node)
        self.unknowns.append(t)
        return t

    def _bcast(self, a: Optional[tuple], b: Optional[tuple], node) -> Optional[tuple]:
        if a is None or b is None:
            return a if b is None else b if a is None else None
        la, lb = list(a), list(b)
        n = max(len(la), len(lb))
        la = ["_"] * (n - len(la)) + la
        lb = ["_"] * (n - len(lb)) + lb
        out = []
        for x, y in zip(la, lb):
            if x == y or y == "_":
                out.append(x)
            elif x == "_":
                out.append(y)
            else:
                self._conflict(f"broadcast of different axes {x} and {y}", node)
                out.append("?")
        return tuple(out)

    # ---------------------------------------------------------------- run
    def run(self, fn: ast.FunctionDef, arg_types: Optional[Dict[str, ST]] = None):
        env: Dict[str, ST] = {}
        a = fn.args
        pos = a.posonlyargs + a.args
        defaults = [None] * (len(pos) - len(a.defaults)) + list(a.defaults)
        for p, d in zip(pos, defaults):
            if arg_types and p.arg in arg_types:
                env[p.arg] = arg_types[p.arg]
            elif p.arg in self.const_params:
                cp = self.const_params[p.arg]
                env[p.arg] = cp if isinstance(cp, ST) else inv(())
            else:
                env[p.arg] = inv()
        rets: List[Tuple[ast.Return, ST]] = []
        self._block(fn.body, env, rets)
        return rets, env

    def _block(self, stmts, env, rets):
        for s in stmts:
            self._stmt(s, env, rets)
            if self._terminates(s, env):
                break  # statements after a definite return are dead under the constant parameters

    def _terminates(self, s, env) -> bool:
        if isinstance(s, (ast.Return, ast.Raise)):
            return True
        if isinstance(s, ast.If):
            tv = self._truth(s.test, env)
            body = bool(s.body) and self._terminates(s.body[-1], env)
            orelse = bool(s.orelse) and self._terminates(s.orelse[-1], env)
            if tv is True:
                return body
            if tv is False:
                return orelse
            return body and orelse
        return False

    def _truth(self, t: ast.expr, env) -> Optional[bool]:
        """Constant truth of a test under const_params (e.g. normalize=True)."""
        if isinstance(t, ast.Name) and t.id in self.const_params and isinstance(self.const_params[t.id], bool):
            return self.const_params[t.id]
        if isinstance(t, ast.BoolOp) and isinstance(t.op, ast.And):
            vs = [self._truth(v, env) for v in t.values]
            if any(v is False for v in vs):
                return False
            known = [v for v in vs if v is not None]
            return None if len(known) < len(vs) else True
        if isinstance(t, ast.BoolOp) and isinstance(t.op, ast.Or):
            vs = [self._truth(v, env) for v in t.values]
            if any(v is True for v in vs):
                return True
            return False if all(v is False for v in vs) else None
        if isinstance(t, ast.UnaryOp) and isinstance(t.op, ast.Not):
            v = self._truth(t.operand, env)
            return None if v is None else (not v)
        return None

    def _stmt(self, s, env, rets):
        if isinstance(s, ast.Assign):
            v = self.eval(s.value, env)
            for t in s.targets:
                self._bind(t, v, env)
                if isinstance(t, ast.Name):
                    self.typed.append((t.id, v, s))
                    if isinstance(s.value, ast.Call) and (self.ext_name(s.value) or "") in ("numpy.max", "numpy.amax", "builtins.max") and s.value.args:
                        env["__maxof__:" + t.id] = norm_text(s.value.args[0])
                    if isinstance(s.value, ast.Call) and (self.ext_name(s.value) or "") in ("numpy.logaddexp.reduce", "scipy.special.logsumexp") and s.value.args \
                            and not any(k.arg == "axis" for k in s.value.keywords):
                        env["__lseof__:" + t.id] = norm_text(s.value.args[0])
                    # a re-binding of the array a remembered max / log-sum-exp was taken of ends that memory
                    for key in [k for k in env if isinstance(k, str) and k.startswith(("__maxof__:", "__lseof__:")) and env[k] == t.id and not k.endswith(":" + t.id)]:
                        if not (isinstance(s.value, ast.BinOp) and isinstance(s.value.op, ast.Sub) and isinstance(s.value.right, ast.Name) and key.endswith(":" + s.value.right.id)):
                            del env[key]
        elif isinstance(s, ast.AugAssign):
            fake = ast.BinOp(left=s.target, op=s.op, right=s.value)
            ast.copy_location(fake, s)
            v = self.eval(fake, env)
            self._bind(s.target, v, env)
            if isinstance(s.target, ast.Name):
                self.typed.append((s.target.id, v, s))
        elif isinstance(s, ast.Return):
            rets.append((s, self.eval(s.value, env) if s.value is not None else inv()))
        elif isinstance(s, ast.If):
            ct = self.eval(s.test, env)
            self.cond_types.append((s.test, ct))
            tv = self._truth(s.test, env)
            if tv is True:
                self._block(s.body, env, rets)
                return
            if tv is False:
                self._block(s.orelse, env, rets)
                return
            e1, e2 = dict(env), dict(env)
            r1: list = []
            self._block(s.body, e1, r1)
            self._block(s.orelse, e2, r1)
            rets.extend(r1)
            body_returns = any(isinstance(x, ast.Return) for x in s.body) and isinstance(s.body[-1], ast.Return)
            else_returns = bool(s.orelse) and isinstance(s.orelse[-1], ast.Return)
            for k in set(e1) | set(e2):
                a, b = e1.get(k), e2.get(k)
                if body_returns:
                    env[k] = b if b is not None else a
                elif else_returns:
                    env[k] = a if a is not None else b
                else:
                    env[k] = self._join(a, b, s)
        elif isinstance(s, (ast.While, ast.For)):
            if isinstance(s, ast.While):
                self.cond_types.append((s.test, self.eval(s.test, env)))
            else:
                self._bind(s.target, self._elem(self.eval(s.iter, env)), env)
            self._block(s.body, env, rets)
            self._block(s.body, env, rets)
        elif isinstance(s, ast.Try):
            self._block(s.body, env, rets)
            for h in s.handlers:
                self._block(h.body, dict(env), rets)
        elif isinstance(s, ast.Expr):
            self.eval(s.value, env)
        elif isinstance(s, (ast.FunctionDef,)):
            env[s.name] = ST("unknown", why=f"closure {s.name}")

    def _elem(self, t: ST) -> ST:
        if t.kind in ("shift", "scale"):
            ax = t.axes[1:] if t.axes else t.axes
            return ST(t.kind, t.k, ax, cval=t.cval)
        return t

    def _join(self, a: Optional[ST], b: Optional[ST], node) -> ST:
        if a is None:
            return b
        if b is None:
            return a
        if not hasattr(a, "kind") or not hasattr(b, "kind"):
            return a  # bookkeeping entries of the environment (not abstract values)
        if a.kind == b.kind and a.kind in ("shift", "scale"):
            if a.k == b.k:
                return ST(a.kind, a.k, a.axes if a.axes == b.axes else None, norm=a.norm and b.norm, cval=a.cval if a.cval == b.cval else None)
            return ST("unknown", why=f"{a!r} on one branch, {b!r} on the other", node=node)
        if a.kind == "conflict":
            return a
        if b.kind == "conflict":
            return b
        if a.kind == "tuple" and b.kind == "tuple" and len(a.items) == len(b.items):
            return ST("tuple", items=[self._join(x, y, node) for x, y in zip(a.items, b.items)])
        return a if a.kind == "unknown" else b

    def _bind(self, t, v: ST, env):
        if isinstance(t, ast.Name):
            env[t.id] = v
        elif isinstance(t, (ast.Tuple, ast.List)):
            for i, e in enumerate(t.elts):
                if v.kind == "tuple" and i < len(v.items):
                    self._bind(e, v.items[i], env)
                else:
                    self._bind(e, v, env)
        elif isinstance(t, ast.Subscript) and isinstance(t.value, ast.Name):
            cur = env.get(t.value.id)
            if cur is not None and cur.kind in ("shift", "scale") and v.kind == cur.kind and v.k != cur.k:
                self._conflict(f"store of {v!r} into an array typed {cur!r}", t)
        elif isinstance(t, ast.Attribute) and isinstance(t.value, ast.Name) and t.value.id == "self":
            env["self." + t.attr] = v

    # ---------------------------------------------------------------- eval
    def eval(self, e: ast.expr, env: Dict[str, ST]) -> ST:
        if e is None:
            return inv()
        if self.source is not None:
            s = self.source(e, env)
            if s is not None:
                return s
        if isinstance(e, ast.Constant):
            if isinstance(e.value, (int, float)) and not isinstance(e.value, bool):
                try:
                    return inv(axes=(), cval=p_const(e.value))
                except (OverflowError, ValueError):
                    return inv(axes=())
            return inv(axes=())
        if isinstance(e, ast.Name):
            if e.id in env:
                return env[e.id]
            return inv()
        if isinstance(e, ast.Attribute):
            d = dotted(e)
            if d and d.startswith("self.") and d in env:
                return env[d]
            if e.attr in ("shape", "size", "ndim", "dtype"):
                self.eval(e.value, env)
                return inv(axes=())
            if e.attr in ("inf", "pi", "newaxis", "nan"):
                return inv(axes=())
            if e.attr == "T":
                b = self.eval(e.value, env)
                return ST(b.kind, b.k, tuple(reversed(b.axes)) if b.axes else b.axes, cval=b.cval) if b.kind in ("shift", "scale") else b
            if d and (d.startswith("self.") or d.startswith("np.")):
                return inv()
            return self.eval(e.value, env)
        if isinstance(e, ast.Tuple):
            return ST("tuple", items=[self.eval(x, env) for x in e.elts])
        if isinstance(e, ast.List):
            ts = [self.eval(x, env) for x in e.elts]
            out = None
            for t in ts:
                out = t if out is None else self._join(out, t, e)
            return out if out is not None else inv()
        if isinstance(e, ast.Subscript):
            b = self.eval(e.value, env)
            if b.kind == "tuple":
                if isinstance(e.slice, ast.Constant) and isinstance(e.slice.value, int) and -len(b.items) <= e.slice.value < len(b.items):
                    return b.items[e.slice.value]
                return self._unknown("dynamic index into a tuple", e)
            if b.kind not in ("shift", "scale"):
                return b
            axes = self._index_axes(b.axes, e.slice, env, e)
            return ST(b.kind, b.k, axes, cval=b.cval)
        if isinstance(e, ast.UnaryOp):
            v = self.eval(e.operand, env)
            if isinstance(e.op, ast.USub) and v.kind == "shift":
                return ST("shift", p_mul(v.k, p_const(-1)), v.axes, cval=p_mul(v.cval, p_const(-1)) if v.cval is not None else None)
            if isinstance(e.op, (ast.Not, ast.Invert)):
                if v.kind == "shift" and v.k:
                    return self._conflict(f"boolean of a shifted value {v!r}", e)
                return inv(v.axes if v.kind == "shift" else None)
            return v
        if isinstance(e, ast.BoolOp):
            out = inv(())
            for v in e.values:
                t = self.eval(v, env)
                if t.kind == "shift" and t.k:
                    out = self._conflict(f"truth value of a shifted quantity {t!r}", v)
                elif t.kind in ("conflict", "unknown", "scale") and out.kind == "shift":
                    out = t if t.kind != "scale" else self._conflict(f"truth value of a scaled quantity {t!r}", v)
            return out
        if isinstance(e, ast.Compare):
            ts = [self.eval(e.left, env)] + [self.eval(c, env) for c in e.comparators]
            if all(isinstance(o, (ast.Is, ast.IsNot, ast.In, ast.NotIn)) for o in e.ops):
                return inv(())
            for t in ts:
                if t.kind in ("conflict", "unknown"):
                    return t
            ks = [(t.kind, tuple(sorted(t.k.items()))) for t in ts if t.kind in ("shift", "scale")]
            if len(set(ks)) > 1:
                return self._conflict(f"comparison of {', '.join(repr(t) for t in ts)}: its outcome changes with the likelihood offset", e)
            axes = None
            for t in ts:
                axes = self._bcast(axes, t.axes, e) if t.kind in ("shift", "scale") else axes
            return inv(axes)
        if isinstance(e, ast.IfExp):
            ct = self.eval(e.test, env)
            self.cond_types.append((e.test, ct))
            return self._join(self.eval(e.body, env), self.eval(e.orelse, env), e)
        if isinstance(e, ast.BinOp):
            return self._binop(e, env)
        if isinstance(e, ast.Call):
            op_ = ufunc_as_operator(self.ext_name(e), e)
            if op_ is not None:
                return self.eval(op_, env)
            return self._call(e, env)
        if isinstance(e, (ast.ListComp, ast.GeneratorExp)):
            env2 = dict(env)
            for g in e.generators:
                self._bind(g.target, self._elem(self.eval(g.iter, env2)), env2)
            el = self.eval(e.elt, env2)
            if el.kind in ("shift", "scale"):
                return ST(el.kind, el.k, None, cval=None)
            return el
        if isinstance(e, (ast.Dict, ast.JoinedStr, ast.Lambda, ast.Set)):
            return inv()
        return self._unknown(type(e).__name__, e)

    def _index_axes(self, axes, sl, env, node):
        if axes is None:
            return None
        parts = list(sl.elts) if isinstance(sl, ast.Tuple) else [sl]
        out = []
        i = 0
        for p in parts:
            if isinstance(p, ast.Constant) and p.value is None:
                out.append("_")
            elif isinstance(p, ast.Attribute) and p.attr == "newaxis":
                out.append("_")
            elif isinstance(p, ast.Slice):
                if i < len(axes):
                    out.append(axes[i])
                i += 1
            elif isinstance(p, ast.Constant) and p.value is Ellipsis:
                return None
            else:
                it = self.eval(p, env)
                if it.kind == "shift" and it.k:
                    self._conflict(f"index {it!r} depends on the likelihood offset", node)
                # integer index drops the axis, array index keeps its own
                if it.kind in ("shift",) and it.axes not in (None, ()):
                    out.append(it.axes[0] if it.axes else "?")
                i += 1
        out += list(axes[i:])
        return tuple(out)

    def _binop(self, e: ast.BinOp, env) -> ST:
        l, r = self.eval(e.left, env), self.eval(e.right, env)
        for t in (l, r):
            if t.kind in ("conflict", "unknown"):
                return t
            if t.kind == "tuple":
                return self._unknown("arithmetic on a tuple", e)
        axes = self._bcast(l.axes, r.axes, e)
        op = e.op
        if isinstance(op, (ast.Add, ast.Sub)):
            s = 1 if isinstance(op, ast.Add) else -1
            if l.kind == "shift" and r.kind == "shift":
                k = p_add(l.k, r.k, s)
                cv = p_add(l.cval, r.cval, s) if (l.cval is not None and r.cval is not None) else None
                # x - logsumexp(x): normalisation
                nrm = False
                le0 = False
                if isinstance(op, ast.Sub) and isinstance(e.right, ast.Call) and e.right.args and norm_text(e.right.args[0]) == norm_text(e.left):
                    rn = self.ext_name(e.right) or ""
                    if rn in ("numpy.logaddexp.reduce", "scipy.special.logsumexp"):
                        nrm = True
                        le0 = True
                    elif rn in ("numpy.max", "numpy.amax", "builtins.max"):
                        le0 = True
                if isinstance(op, ast.Sub) and isinstance(e.right, ast.Name) and env.get("__maxof__:" + e.right.id) == norm_text(e.left):
                    le0 = True
                if isinstance(op, ast.Sub) and isinstance(e.right, ast.Name) and env.get("__lseof__:" + e.right.id) == norm_text(e.left):
                    nrm = True  # x - L with L = logsumexp(x) bound to a local just before
                    le0 = True
                return ST("shift", k, axes, norm=nrm, cval=cv, le0=le0)
            if l.kind == "scale" and r.kind == "scale" and l.k == r.k:
                return scale(l.k, axes)
            return self._conflict(f"{'sum' if s == 1 else 'difference'} of {l!r} and {r!r}", e)
        if isinstance(op, (ast.Mult, ast.MatMult)):
            if l.kind == "shift" and r.kind == "shift":
                if not l.k and not r.k:
                    cv = p_mul(l.cval, r.cval) if (l.cval is not None and r.cval is not None) else None
                    return inv(axes, cval=cv)
                if l.k and r.cval is not None:
                    return shift(p_mul(l.k, r.cval), axes)
                if r.k and l.cval is not None:
                    return shift(p_mul(r.k, l.cval), axes)
                if l.k and r.k:
                    return self._conflict(f"product of two shifted values {l!r} * {r!r}", e)
                return self._unknown(f"product of {l!r} with a non-coefficient value", e)
            if l.kind == "scale" and r.kind == "scale":
                return scale(p_add(l.k, r.k), axes)
            if l.kind == "scale" and r.is_inv:
                return scale(l.k, axes)
            if r.kind == "scale" and l.is_inv:
                return scale(r.k, axes)
            return self._unknown(f"product of {l!r} and {r!r}", e)
        if isinstance(op, ast.Div):
            if l.kind == "shift" and r.kind == "shift":
                if not l.k and not r.k:
                    cv = None
                    if l.cval is not None and r.cval is not None and list(r.cval.keys()) == [()]:
                        cv = p_mul(l.cval, p_const(1 / r.cval[()]))
                    return inv(axes, cval=cv)
                if l.k and r.cval is not None and list(r.cval.keys()) == [()]:
                    return shift(p_mul(l.k, p_const(1 / r.cval[()])), axes)
                return self._unknown(f"quotient of {l!r} and {r!r}", e)
            if l.kind == "scale" and r.kind == "scale":
                nrm = isinstance(e.right, ast.Call) and (self.ext_name(e.right) or "") == "numpy.sum" and e.right.args and norm_text(e.right.args[0]) == norm_text(e.left)
                t = scale(p_add(l.k, r.k, -1), axes)
                t.norm = bool(nrm)
                return t
            if l.kind == "scale" and r.is_inv:
                return scale(l.k, axes)
            if l.is_inv and r.kind == "scale":
                return scale(p_mul(r.k, p_const(-1)), axes)
            return self._unknown(f"quotient of {l!r} and {r!r}", e)
        if isinstance(op, ast.Pow):
            if l.is_inv and r.is_inv:
                return inv(axes)
            if l.kind == "scale" and r.cval is not None and list(r.cval.keys()) in ([()], []):
                return scale(p_mul(l.k, r.cval), axes)
            return self._unknown(f"power of {l!r}", e)
        if isinstance(op, ast.Mod) and l.is_inv and r.is_inv:
            return inv(axes)
        return self._unknown(type(op).__name__, e)

    def _reduce(self, t: ST, axis, node, lse=False, keep_kind=True) -> ST:
        if t.kind not in ("shift", "scale"):
            return t
        removed = set(t.axes) if (axis is None and t.axes) else set()
        new_axes = () if axis is None else None
        if axis is not None and t.axes is not None:
            try:
                ax = axis if axis >= 0 else len(t.axes) + axis
                removed = {t.axes[ax]}
                new_axes = tuple(a for i, a in enumerate(t.axes) if i != ax)
            except (IndexError, TypeError):
                new_axes = None
        if t.axes is None and axis is None:
            removed = {"S", "T"}
        if p_varies(t.k) & removed:
            return self._conflict(f"reduction over axis {sorted(removed)} of {t!r} whose shift varies along that axis (a normaliser is missing)", node)
        return ST(t.kind, t.k, new_axes)

    def _axis_kw(self, e: ast.Call, pos: int = 1):
        for k in e.keywords:
            if k.arg == "axis":
                return k.value.value if isinstance(k.value, ast.Constant) else (-(k.value.operand.value) if isinstance(k.value, ast.UnaryOp) and isinstance(k.value.operand, ast.Constant) else "?")
        if len(e.args) > pos and isinstance(e.args[pos], ast.Constant):
            return e.args[pos].value
        return None

    def _call(self, e: ast.Call, env) -> ST:
        name = self.ext_name(e) or dotted(e.func)
        args = [self.eval(a, env) for a in e.args]
        kws = {k.arg: self.eval(k.value, env) for k in e.keywords if k.arg}
        a0 = args[0] if args else inv()
        # methods on typed arrays
        if isinstance(e.func, ast.Attribute) and not name.startswith(("numpy.", "scipy.", "builtins.")):
            base = self.eval(e.func.value, env)
            m = e.func.attr
            if base.kind in ("shift", "scale"):
                if m in ("copy", "astype", "ravel", "flatten", "squeeze", "reshape", "tolist"):
                    return ST(base.kind, base.k, base.axes if m in ("copy", "astype") else None, cval=base.cval)
                if m in ("max", "min", "mean"):
                    ini = next((k.value for k in e.keywords if k.arg == "initial"), None)
                    if ini is not None and not base.is_inv and ast.unparse(ini).replace(" ", "") not in ("-np.inf", "np.inf", "-numpy.inf", "numpy.inf", "-math.inf", "math.inf"):
                        return self._conflict(f"`initial={ast.unparse(ini)}` bounds the reduction of {base!r} by an absolute constant", e)
                    return self._reduce(base, self._axis_kw(e, 0), e)
                if m == "sum":
                    if base.kind == "shift" and base.k:
                        return self._unknown(f"sum of shifted values {base!r}", e)
                    return self._reduce(base, self._axis_kw(e, 0), e)
        if self.internal is not None and self.depth < 4:
            tgt = self.internal(e, args, kws)
            if isinstance(tgt, ST):
                return tgt
            if tgt is not None:
                tgts = tgt if isinstance(tgt, list) else [tgt]
                out = None
                for (fn, ext2, is_method, src2, consts) in tgts:
                    params = [a.arg for a in fn.args.posonlyargs + fn.args.args]
                    if is_method and params and params[0] in ("self", "cls"):
                        params = params[1:]
                    binding = dict(zip(params, args))
                    binding.update(kws)
                    sub = ShiftInterp(ext2, source=src2, internal=self.internal, depth=self.depth + 1, const_params=consts)
                    sub.strict_exp = self.strict_exp
                    rets, _ = sub.run(fn, binding)
                    self.conflicts += sub.conflicts
                    self.hazards += sub.hazards
                    self.unknowns += sub.unknowns
                    self.selectors += sub.selectors
                    self.cond_types += sub.cond_types if self.collect_inner_conds else []
                    for (_, t) in rets:
                        out = t if out is None else self._join(out, t, e)
                return out if out is not None else inv()
        if name in SELECTORS and args and a0.kind in ("shift", "scale") and (a0.axes is None or "T" in (a0.axes or ())):
            self.selectors.append((e, name))
        if name in ("numpy.asarray", "numpy.array", "numpy.copy", "numpy.atleast_1d", "numpy.nan_to_num", "numpy.float64", "builtins.float", "numpy.squeeze", "numpy.ravel", "numpy.concatenate"):
            return ST(a0.kind, a0.k, a0.axes if name != "numpy.concatenate" else None, cval=a0.cval, items=a0.items) if a0.kind in ("shift", "scale") else a0
        if name in ("builtins.len", "numpy.size", "numpy.shape", "builtins.range", "builtins.int", "builtins.isinstance", "builtins.getattr", "numpy.arange", "numpy.ones", "numpy.zeros", "numpy.eye",
                    "numpy.empty", "numpy.full", "numpy.isinf", "numpy.isfinite", "numpy.isnan", "numpy.linspace", "builtins.print", "numpy.ones_like", "numpy.zeros_like", "numpy.empty_like", "builtins.hasattr"):
            return inv(() if name in ("builtins.len", "numpy.size", "builtins.int") else None)
        if name in ("numpy.logaddexp.reduce", "scipy.special.logsumexp"):
            if a0.kind == "scale":
                return self._unknown("log-sum-exp of a scale-typed value", e)
            return self._reduce(a0, self._axis_kw(e), e, lse=True)
        if name in ("numpy.max", "numpy.min", "numpy.amax", "numpy.amin", "numpy.mean", "numpy.median", "numpy.percentile", "numpy.quantile", "builtins.max", "builtins.min", "numpy.average"):
            ax = self._axis_kw(e, 2 if name in ("numpy.percentile", "numpy.quantile") else 1)
            # max(x, initial=c) is max(max(x), c): an absolute bound mixed into an offset-dependent value
            ini = next((k.value for k in e.keywords if k.arg == "initial"), None)
            if ini is not None and a0.kind in ("shift", "scale") and not a0.is_inv:
                txt = ast.unparse(ini).replace(" ", "")
                neutral = ("-np.inf", "-numpy.inf", "-math.inf", "-inf", "float('-inf')") if name.endswith(("max", "amax")) else ("np.inf", "numpy.inf", "math.inf", "inf", "float('inf')")
                if txt not in neutral:
                    return self._conflict(f"`initial={ast.unparse(ini)}` bounds the reduction of {a0!r} by an absolute constant (the result follows the offset only on one side of it)", e)
            return self._reduce(a0, ax, e)
        if name in ("numpy.sum", "builtins.sum", "numpy.cumsum"):
            if a0.kind == "shift" and a0.k:
                return self._unknown(f"sum of shifted values {a0!r}", e)
            return self._reduce(a0, self._axis_kw(e), e)
        if name == "numpy.exp":
            if a0.kind == "shift":
                if not a0.k:
                    if self.strict_exp and not a0.le0 and a0.cval is None and a0.axes != ():
                        self.hazards.append((e, a0))
                    return inv(a0.axes)
                self.hazards.append((e, a0))
                return scale(a0.k, a0.axes)
            if a0.kind in ("conflict", "unknown"):
                if self.strict_exp and a0.kind == "conflict":
                    self.hazards.append((e, a0))  # not a max-shifted value: nothing bounds the argument
                return a0
            return self._unknown("exp of a scale-typed value", e)
        if name in ("numpy.log", "math.log"):
            if a0.kind == "scale":
                return shift(a0.k, a0.axes)
            if a0.kind == "shift" and not a0.k:
                return inv(a0.axes)
            if a0.kind == "shift":
                return self._conflict(f"log of a shifted value {a0!r}", e)
            return a0
        if name in ("numpy.minimum", "numpy.maximum", "numpy.fmax", "numpy.fmin", "numpy.clip", "numpy.abs", "numpy.sqrt", "numpy.where"):
            ts = [t for t in args if t.kind in ("shift", "scale")]
            if all(t.is_inv for t in ts) and len(ts) == len(args):
                axes = None
                for t in ts:
                    axes = self._bcast(axes, t.axes, e)
                return inv(axes)
            if any(t.kind in ("conflict", "unknown") for t in args):
                return next(t for t in args if t.kind in ("conflict", "unknown"))
            if name == "numpy.where" and len(args) == 3 and args[0].is_inv and args[1].kind == args[2].kind and args[1].k == args[2].k:
                return ST(args[1].kind, args[1].k, None)
            return self._conflict(f"{name.split('.')[-1]} mixes {', '.join(repr(t) for t in args)} (an absolute bound applied to an offset-dependent value)", e)
        if name in ("numpy.isclose", "numpy.allclose", "math.isclose") and len(args) >= 2:
            a, b = args[0], args[1]
            if a.kind == "shift" and b.kind == "shift" and (a.k or b.k):
                rt = next((k.value for k in e.keywords if k.arg in ("rtol", "rel_tol")), e.args[2] if len(e.args) > 2 else None)
                rt_zero = isinstance(rt, ast.Constant) and rt.value in (0, 0.0)
                if a.k != b.k:
                    return self._conflict(f"closeness test between {a!r} and {b!r}", e)
                if not rt_zero:
                    return self._conflict(f"closeness test with a relative tolerance between two values of type {a!r}: the allowed difference is rtol * |value| and grows with the "
                                          f"offset added to the log-likelihood", e)
                return inv()
        if name.startswith("numpy.random."):
            return inv()
        if any(t.kind == "shift" and t.k or t.kind == "scale" for t in args + list(kws.values())):
            return self._unknown(f"call {name} on an offset-dependent argument", e)
        return inv()
