"""A8 (general form): orientation of an expression in one of its sub-expressions.

`path_signs(root, is_target, sign_of)` returns, for every occurrence of a target
sub-expression inside `root`, the sign (+1 / -1) with which the value of `root`
moves when that occurrence increases, or None when the orientation cannot be
decided (a product with a factor of unknown sign, an unknown call).  Only the
operators on the path from the root to the occurrence matter:

    a + b, a - b, -a, a * c, a / c, c / a (c of known sign), increasing
    functions (log, exp, sqrt, log-sum-exp reductions, sum, mean, max, ...),
    subscripts / broadcasting / transposes (transparent).
"""
from __future__ import annotations

import ast
from typing import Callable, List, Optional, Tuple

from .model import dotted, ufunc_as_operator

INCREASING = {"log", "log1p", "exp", "expm1", "sqrt", "sum", "mean", "max", "min", "amax", "amin", "cumsum", "asarray", "array", "float", "float64", "atleast_1d", "squeeze",
              "logsumexp", "reduce", "accumulate", "nansum", "copy", "ravel", "reshape", "transpose",
              # element-for-element materialisations of their first argument
              "fromiter", "list", "tuple", "asanyarray", "ascontiguousarray"}


def path_signs(root: ast.expr, is_target: Callable[[ast.AST], bool], sign_of: Callable[[ast.expr], Optional[int]],
               is_opaque: Optional[Callable[[ast.AST], bool]] = None) -> List[Tuple[ast.AST, Optional[int], str]]:
    out: List[Tuple[ast.AST, Optional[int], str]] = []

    def go(e: ast.AST, s: Optional[int], why: str):
        if is_target(e):
            out.append((e, s, why))
            return
        if is_opaque is not None and is_opaque(e):
            return
        if isinstance(e, ast.UnaryOp):
            go(e.operand, (None if s is None else -s) if isinstance(e.op, ast.USub) else s, why)
        elif isinstance(e, ast.BinOp):
            if isinstance(e.op, ast.Add):
                go(e.left, s, why)
                go(e.right, s, why)
            elif isinstance(e.op, ast.Sub):
                go(e.left, s, why)
                go(e.right, None if s is None else -s, why)
            elif isinstance(e.op, (ast.Mult, ast.MatMult)):
                for (x, other) in ((e.left, e.right), (e.right, e.left)):
                    so = sign_of(other)
                    go(x, None if (s is None or so is None) else s * so, why if so is not None else f"factor `{ast.unparse(other)[:30]}` of unknown sign")
            elif isinstance(e.op, (ast.Div, ast.FloorDiv)):
                sr = sign_of(e.right)
                go(e.left, None if (s is None or sr is None) else s * sr, why if sr is not None else f"divisor `{ast.unparse(e.right)[:30]}` of unknown sign")
                sl = sign_of(e.left)
                go(e.right, None if (s is None or sl is None) else -s * sl, why if sl is not None else f"numerator `{ast.unparse(e.left)[:30]}` of unknown sign")
            elif isinstance(e.op, ast.Pow):
                go(e.left, None, "power")
            else:
                go(e.left, None, type(e.op).__name__)
                go(e.right, None, type(e.op).__name__)
        elif isinstance(e, ast.Subscript):
            go(e.value, s, why)
        elif isinstance(e, ast.Attribute):
            go(e.value, s if e.attr in ("T", "real") else None, why if e.attr in ("T", "real") else f"attribute .{e.attr}")
        elif isinstance(e, ast.Call) and dotted(e.func).startswith(("np.", "numpy.")) and ufunc_as_operator("numpy." + dotted(e.func).split(".")[-1], e) is not None:
            go(ufunc_as_operator("numpy." + dotted(e.func).split(".")[-1], e), s, why)
        elif isinstance(e, ast.Call):
            name = dotted(e.func).split(".")[-1] if dotted(e.func) else (e.func.attr if isinstance(e.func, ast.Attribute) else "")
            inc = name in INCREASING
            if isinstance(e.func, ast.Attribute) and not dotted(e.func).startswith(("np.", "numpy.", "math.", "scipy.")):
                # method on a value: x.sum() / x.reshape(...)
                go(e.func.value, s if inc else None, why if inc else f"method .{name}()")
            both = name in ("maximum", "minimum", "fmax", "fmin")  # non-decreasing in each of the two operands
            for i, a in enumerate(e.args):
                if both and i < 2:
                    go(a, s, why)
                    continue
                go(a, s if (inc and i == 0) else None, why if (inc and i == 0) else f"argument of {name}()")
            for k in e.keywords:
                go(k.value, None, f"keyword of {name}()")
        elif isinstance(e, ast.IfExp):
            go(e.body, s, why)
            go(e.orelse, s, why)
        elif isinstance(e, (ast.Tuple, ast.List)):
            for x in e.elts:
                go(x, s, why)
        elif isinstance(e, (ast.ListComp, ast.GeneratorExp)):
            go(e.elt, s, why)
        # Names / constants that are not targets: nothing below

    go(root, 1, "")
    return out
