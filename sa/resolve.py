"""Receiver-type inference and call resolution (class-hierarchy based).

Types are ClassInfo objects (internal classes) or dotted strings (external).
`self.attr` types come from constructor assignments (`self.x = Cls(...)`,
`self.x = param` with an annotated parameter) collected flow-insensitively over
all methods of the class and its bases.
"""
from __future__ import annotations

import ast
from typing import Dict, List, Optional, Set, Tuple, Union

from .dataflow import flow_of
from .model import ClassInfo, FuncInfo, ModuleInfo, Program, dotted, walk_no_nested

Type = Union[ClassInfo, str, None]


class Resolver:
    def __init__(self, prog: Program):
        self.prog = prog
        self._attr_types: Dict[Tuple[str, str], List[Type]] = {}
        self._attr_values: Dict[Tuple[str, str], List[Tuple[FuncInfo, ast.stmt, ast.expr]]] = {}
        self._busy: Set[tuple] = set()
        self._collect_attrs()

    # ---------------------------------------------------------------- attrs
    def _collect_attrs(self):
        for ci in self.prog.classes.values():
            for m in ci.methods.values():
                for n in walk_no_nested(m.node):
                    tgts = []
                    val = None
                    if isinstance(n, ast.Assign):
                        tgts, val = n.targets, n.value
                    elif isinstance(n, ast.AnnAssign) and n.value is not None:
                        tgts, val = [n.target], n.value
                    elif isinstance(n, ast.AugAssign):
                        tgts, val = [n.target], n
                    for t in tgts:
                        # tuple targets: self.a, self.b = x.shape
                        elts = t.elts if isinstance(t, (ast.Tuple, ast.List)) else [t]
                        for e in elts:
                            if isinstance(e, ast.Attribute) and isinstance(e.value, ast.Name) and e.value.id == "self":
                                self._attr_values.setdefault((ci.qualname, e.attr), []).append((m, n, val if len(elts) == 1 else None))

    def attr_assignments(self, ci: ClassInfo, attr: str) -> List[Tuple[FuncInfo, ast.stmt, Optional[ast.expr]]]:
        """All `self.attr = value` statements in ci and its bases/subclasses'
        shared hierarchy (bases only)."""
        out = []
        todo = [ci]
        seen = set()
        while todo:
            c = todo.pop(0)
            if c.qualname in seen:
                continue
            seen.add(c.qualname)
            out += self._attr_values.get((c.qualname, attr), [])
            todo += self.prog.bases(c)
        return out

    def attr_type(self, ci: ClassInfo, attr: str) -> List[Type]:
        key = (ci.qualname, attr)
        if key in self._attr_types:
            return self._attr_types[key]
        self._attr_types[key] = []  # recursion guard
        types: List[Type] = []
        for (m, stmt, val) in self.attr_assignments(ci, attr):
            if val is None or isinstance(val, ast.AugAssign):
                continue
            for t in self.expr_types(m, val):
                if t is not None and t not in types:
                    types.append(t)
        self._attr_types[key] = types
        return types

    # ---------------------------------------------------------------- types
    def annotation_types(self, mod: ModuleInfo, ann: Optional[ast.expr]) -> List[Type]:
        if ann is None:
            return []
        if isinstance(ann, ast.Constant) and isinstance(ann.value, str):
            try:
                ann = ast.parse(ann.value, mode="eval").body
            except SyntaxError:
                return []
        out: List[Type] = []
        for n in ast.walk(ann):
            d = dotted(n) if isinstance(n, (ast.Name, ast.Attribute)) else ""
            if not d:
                continue
            r = self.prog.resolve_name(mod, d)
            if isinstance(r, ClassInfo) and r not in out:
                out.append(r)
        return out

    def expr_types(self, fi: FuncInfo, e: ast.expr, at=None, _depth=0) -> List[Type]:
        """Possible (internal) types of expression e inside function fi."""
        if _depth > 6:
            return []
        gkey = (id(fi.node), id(e))
        if gkey in self._busy:
            return []
        self._busy.add(gkey)
        try:
            return self._expr_types(fi, e, at, _depth)
        finally:
            self._busy.discard(gkey)

    def _expr_types(self, fi: FuncInfo, e: ast.expr, at=None, _depth=0) -> List[Type]:
        mod = fi.module
        if isinstance(e, ast.IfExp):
            return self.expr_types(fi, e.body, at, _depth + 1) + self.expr_types(fi, e.orelse, at, _depth + 1)
        if isinstance(e, ast.Name):
            if e.id == "self" and fi.cls is not None and not fi.is_staticmethod:
                return [fi.cls]
            if e.id == "cls" and fi.cls is not None and fi.is_classmethod:
                return [("type", fi.cls)]  # type: ignore
            # parameter annotation (own or enclosing function for closures)
            f: Optional[FuncInfo] = fi
            while f is not None:
                if e.id in f.params:
                    ts = self.annotation_types(mod, f.param_annotation(e.id))
                    if ts:
                        return ts
                    break
                f = f.parent
            # local assignment
            out: List[Type] = []
            f = fi
            while f is not None:
                flow = flow_of(f.node)
                for ds in flow.defs_at.values():
                    for d in ds:
                        if d.name == e.id and d.kind == "assign" and d.value is not None and not d.path:
                            for t in self.expr_types(f, d.value, None, _depth + 1):
                                if t not in out:
                                    out.append(t)
                if out:
                    return out
                f = f.parent
            r = self.prog.resolve_name(mod, e.id)
            if isinstance(r, ClassInfo):
                return [("type", r)]  # type: ignore
            if isinstance(r, ModuleInfo):
                return [r]  # type: ignore
            if isinstance(r, str):
                return [r]
            return []
        if isinstance(e, ast.Attribute):
            d = dotted(e)
            base_types = self.expr_types(fi, e.value, at, _depth + 1)
            out = []
            for bt in base_types:
                if isinstance(bt, ClassInfo):
                    for t in self.attr_type(bt, e.attr):
                        if t not in out:
                            out.append(t)
                elif isinstance(bt, str):
                    out.append(bt + "." + e.attr)
                elif isinstance(bt, ModuleInfo):
                    if e.attr in bt.classes:
                        out.append(("type", bt.classes[e.attr]))
            if not out and d:
                r = self.prog.resolve_name(mod, d)
                if isinstance(r, str):
                    out.append(r)
            return out
        if isinstance(e, ast.Call):
            for tgt in self.call_targets(fi, e, _depth + 1):
                if isinstance(tgt, ClassInfo):
                    return [tgt]
                if isinstance(tgt, FuncInfo):
                    # return annotation
                    ts = self.annotation_types(tgt.module, tgt.node.returns)
                    if ts:
                        return ts
                    rts = []
                    for r in ast.walk(tgt.node):
                        if isinstance(r, ast.Return) and r.value is not None and not (isinstance(r.value, ast.Constant) and r.value.value is None):
                            for t in self.expr_types(tgt, r.value, None, _depth + 1):
                                if isinstance(t, ClassInfo) and t not in rts:
                                    rts.append(t)
                    if rts:
                        return rts
                    if tgt.is_classmethod and tgt.cls is not None:
                        # cls(...) factories
                        for r in ast.walk(tgt.node):
                            if isinstance(r, ast.Return) and isinstance(r.value, ast.Call) and dotted(r.value.func) == "cls":
                                return [tgt.cls]
            return []
        return []

    # ---------------------------------------------------------------- calls
    def call_targets(self, fi: FuncInfo, call: ast.Call, _depth: int = 0) -> List[Union[FuncInfo, ClassInfo, str]]:
        """Resolved targets of a call: FuncInfo (internal function/method; for
        abstract methods all overriders), ClassInfo (constructor), or a dotted
        external name.  Empty list = unresolved."""
        f = call.func
        mod = fi.module
        prog = self.prog
        if isinstance(f, ast.Name):
            # closure defined in this or an enclosing function
            g: Optional[FuncInfo] = fi
            while g is not None:
                if f.id in g.nested:
                    return [g.nested[f.id]]
                g = g.parent
            if f.id == "cls" and fi.is_classmethod and fi.cls is not None:
                return [fi.cls]
            if f.id == "super":
                return ["builtins.super"]
            r = prog.resolve_name(mod, f.id)
            if isinstance(r, (FuncInfo, ClassInfo)):
                return [r]
            if isinstance(r, str):
                return [r]
            # a local bound to (a conditional choice of) internal functions
            g = fi
            while g is not None:
                if f.id in flow_of(g.node).local_names() and f.id not in g.params:
                    outs = []
                    for ds in flow_of(g.node).defs_at.values():
                        for d in ds:
                            if d.name == f.id and d.kind == "assign" and d.value is not None and not d.path:
                                cands = [d.value]
                                if isinstance(d.value, ast.IfExp):
                                    cands = [d.value.body, d.value.orelse]
                                # dispatch table: TABLE[key] / TABLE.get(key[, default]) with TABLE a dict display
                                # (inline or a module-level constant) whose values are function names
                                tbl = None
                                extra = []
                                if isinstance(d.value, ast.Subscript):
                                    tbl = d.value.value
                                elif isinstance(d.value, ast.Call) and isinstance(d.value.func, ast.Attribute) and d.value.func.attr == "get" and d.value.args:
                                    tbl = d.value.func.value
                                    extra = list(d.value.args[1:2])
                                if isinstance(tbl, ast.Name) and tbl.id in mod.constants:
                                    tbl = mod.constants[tbl.id]
                                if isinstance(tbl, ast.Dict):
                                    cands = [v for v in tbl.values if v is not None] + extra
                                for c in cands:
                                    if isinstance(c, (ast.Name, ast.Attribute)) and dotted(c):
                                        r2 = prog.resolve_name(mod, dotted(c))
                                        if isinstance(r2, (FuncInfo, ClassInfo)):
                                            outs.append(r2)
                    if outs:
                        return outs
                g = g.parent
            # a parameter / local callable
            g = fi
            while g is not None:
                if f.id in g.params or f.id in flow_of(g.node).local_names():
                    return [f"<callable:{f.id}>"]
                g = g.parent
            return [f"builtins.{f.id}"]
        if isinstance(f, ast.Attribute):
            # super().method
            if isinstance(f.value, ast.Call) and dotted(f.value.func) == "super" and fi.cls is not None:
                for b in prog.bases(fi.cls):
                    m = prog.mro_lookup(b, f.attr)
                    if m is not None:
                        return [m]
                return ["builtins.object." + f.attr]
            recv_types = self.expr_types(fi, f.value, None, _depth + 1)
            out: List[Union[FuncInfo, ClassInfo, str]] = []
            for rt in recv_types:
                if isinstance(rt, ClassInfo):
                    m = prog.mro_lookup(rt, f.attr)
                    if m is not None:
                        out.append(m)
                        # virtual dispatch: overriders in subclasses
                        for sc in prog.subclasses(rt):
                            if f.attr in sc.methods and sc.methods[f.attr] not in out:
                                out.append(sc.methods[f.attr])
                    else:
                        # attribute holding a callable (self.log_likelihood(...))
                        out.append(f"<attr-callable:{rt.name}.{f.attr}>")
                elif isinstance(rt, tuple) and rt and rt[0] == "type":
                    m = prog.mro_lookup(rt[1], f.attr)
                    if m is not None:
                        out.append(m)
                elif isinstance(rt, ModuleInfo):
                    if f.attr in rt.functions:
                        out.append(rt.functions[f.attr])
                    elif f.attr in rt.classes:
                        out.append(rt.classes[f.attr])
                elif isinstance(rt, str):
                    out.append(rt + "." + f.attr)
            if out:
                return out
            d = dotted(f)
            if d:
                head = d.split(".")[0]
                if head in mod.imports:
                    r = prog.resolve_name(mod, d)
                    if isinstance(r, (FuncInfo, ClassInfo)):
                        return [r]
                    if isinstance(r, str):
                        return [r]
            return []
        return []

    def external_name(self, fi: FuncInfo, call: ast.Call) -> Optional[str]:
        """Canonical dotted name of an external callee (numpy.random.seed) or
        None."""
        for t in self.call_targets(fi, call):
            if isinstance(t, str):
                return t
        d = dotted(call.func)
        if d:
            head, _, rest = d.partition(".")
            tgt = fi.module.imports.get(head)
            if tgt:
                return tgt + ("." + rest if rest else "")
        return None


class CallGraph:
    def __init__(self, prog: Program, resolver: Optional[Resolver] = None):
        self.prog = prog
        self.res = resolver or Resolver(prog)
        self.sites: Dict[str, List[Tuple[ast.Call, list]]] = {}
        self.callers: Dict[str, List[Tuple[FuncInfo, ast.Call]]] = {}
        self.unresolved: List[Tuple[str, str, int]] = []
        self.n_calls = 0
        self.n_resolved = 0
        self._build()

    def _build(self):
        for fi in self.prog.functions.values():
            sites = []
            for n in walk_no_nested(fi.node):
                if isinstance(n, ast.Call):
                    tg = self.res.call_targets(fi, n)
                    # dataclasses.replace(obj, ...) constructs a new instance of obj's class: __init__ and
                    # __post_init__ run again (with every side effect they have)
                    if any(t == "dataclasses.replace" for t in tg) and n.args:
                        dcs = [t for t in self.res.expr_types(fi, n.args[0]) if isinstance(t, ClassInfo) and t.is_dataclass]
                        if not dcs:
                            dcs = [c for c in self.prog.classes.values() if c.is_dataclass]
                        tg = list(tg) + dcs
                    self.n_calls += 1
                    if tg:
                        self.n_resolved += 1
                    else:
                        self.unresolved.append((fi.qualname, ast.unparse(n.func), n.lineno))
                    sites.append((n, tg))
                    for t in tg:
                        if isinstance(t, FuncInfo):
                            self.callers.setdefault(t.qualname, []).append((fi, n))
                        elif isinstance(t, ClassInfo):
                            init = self.prog.mro_lookup(t, "__init__")
                            if init is not None:
                                self.callers.setdefault(init.qualname, []).append((fi, n))
            self.sites[fi.qualname] = sites

    def callees(self, fi: FuncInfo) -> List[FuncInfo]:
        out = []
        for (call, tg) in self.sites.get(fi.qualname, []):
            for t in tg:
                if isinstance(t, FuncInfo) and t not in out:
                    out.append(t)
                elif isinstance(t, ClassInfo):
                    init = self.prog.mro_lookup(t, "__init__")
                    if init is not None and init not in out:
                        out.append(init)
                    post = self.prog.mro_lookup(t, "__post_init__")
                    if post is not None and post not in out:
                        out.append(post)
        # closures defined inside are reachable when called; include them conservatively
        for sub in fi.nested.values():
            if sub not in out:
                out.append(sub)
        return out

    def reachable(self, roots: List[FuncInfo]) -> List[FuncInfo]:
        seen: Dict[str, FuncInfo] = {}
        todo = list(roots)
        while todo:
            f = todo.pop()
            if f.qualname in seen:
                continue
            seen[f.qualname] = f
            todo.extend(self.callees(f))
        return list(seen.values())

    def find_call_path(self, root: FuncInfo, pred) -> Optional[List[str]]:
        """Shortest call chain from root to a function satisfying pred."""
        prev = {root.qualname: None}
        todo = [root]
        while todo:
            f = todo.pop(0)
            if pred(f):
                path = []
                cur = f.qualname
                while cur is not None:
                    path.append(cur)
                    cur = prev[cur]
                return list(reversed(path))
            for c in self.callees(f):
                if c.qualname not in prev:
                    prev[c.qualname] = f.qualname
                    todo.append(c)
        return None

    def stats(self) -> dict:
        return {
            "call_sites": self.n_calls,
            "resolved": self.n_resolved,
            "unresolved": len(self.unresolved),
            "unresolved_sample": [f"{q}:{ln} {t}" for (q, t, ln) in self.unresolved[:12]],
        }
