#!/usr/bin/env python3
"""Regenerates /verif/MANIFEST.json from the table below (kept in one place so
that claims, techniques and not-applicable reasons stay consistent)."""
import json
import os
import subprocess
import sys

VERIF = os.path.dirname(os.path.dirname(os.path.abspath(__file__)))

# rule families added after the first build (section 3 of DESIGN.md is the full list)
EXTRA = {
    "C03": "cached-attribute inlining with staleness check, interprocedural chain following of the acceptance expression, who-may-write rule for the kernel's labels and mode statistics (fixed kernel), lost-store lint for chained advanced indexing",
    "C04": "memo-invalidation obligations (tested-and-filled attributes vs. mutators of their dependencies), sign x monotonicity orientation of the log-weight and the evidence along the path to each ingredient (sa/mono.py), stride-assumption lint for flat-index arithmetic, read-only rule for handed-out log-weights in the consumers, no-rebinding rule for the requested temperature",
    "C05": "must-pass-through of the finalising call on every return, sibling agreement of the warm-up predicate, exact-target expression check, untracked-value join and exact-key memo tracking in the evaluated-at interpreter, stateless-step rule (no state-derived copy kept across calls, per-call scratch recognised), pool-emptiness guard of the nominal first-iteration record",
    "C06": "constant evaluation of the renormalisation tolerance against sqrt(eps), numpy contract row for multinomial(pvals), ownership-lattice rule that the routines do not write into caller-owned weight arrays or cached arrays, stateless-step rule for the resampling step",
    "C07": "whole-record rebinding rule, dtype/squeeze lints on the evaluation chain, record sites in constructor calls, named-tuple consumers, binding rule for the configured likelihood (args and kwargs), guard rule for reads of the stored blobs, partial row copies between records, transparent pass-through rule for the binding wrapper, stateless-step rule for the resampling / mutation steps, truth-table equivalence of the commit guard with the none-test, dtype of arrays allocated to receive the log-likelihoods",
    "C08": "payload-untouched rule for exported sections, NamedTemporaryFile / non-atomic move idioms, run-result attributes in the writer/loader key tables, nested stores into exported sections, rename-only-after-success rule (finally / handler / __exit__ without exception test), set-iteration-order layout lint for key tables",
    "C09": "guard rule for seeding calls whose argument may be None, public defaults as provenance, stream-rewind rule (set_state of an own snapshot), no-draw-cached-in-process-lifetime-storage rule, dataclasses.replace resolved in the call graph, no-transformation rule on the seed path, checkpoint seed provenance on the unrolled form, memoised functions must not reach a draw site in the call graph",
    "C10": "log-domain discipline (no exponential of a shifted value), typed normalize=False results, closeness tests in the shift typing",
    "C11": "count algebra over #finite/#infinite for the recorded fraction, must-record rule per batch, canonical skip-guard keys",
    "C12": "normalisation typing of returned weights (interprocedural), list-accumulated return expansion, facade pass-through / whole-tuple row-selection rule, must-pass-through of the final evidence from the entry of run(), exact-ESS rule for the termination guard (no rounding / shifting of the compared value)",
    "C13": "who-may-call rule for the user likelihood, batch-identity and mode-precedence rules, __setstate__ key agreement, lazy-iterator materialisation rule, who-may-read rule for the evaluation options pool and vectorize, no pool in process-lifetime storage, repeated-evaluation rule (a likelihood call that can run again before the one counter update)",
    "C14": "labels-are-predict-of-the-stored-rows rules, bincount span and producer-loop skip lints, path facts avoiding a conditional fit, who-may-write rule for fitted mode attributes, must-write of the labels on every path of the labelling step, index-space (label vs rank) typing of per-mode arrays inside the kernel, consistent re-binding of the shared clusterer, eigendecomposition reconstruction contract (eigenvectors as columns), truth-table agreement of the single-mode conditions of the training and resampling steps, wiring implication between each user's clustering flag and the construction of the shared clusterer",
    "C15": "flow-based label returns, convexity/centring structure of the M-step, memo obligations, reliability-weight covariance lint, errstate-underflow lint, floating dtype of the sample weights, regularised-density rule for the per-component columns, fancy-index accumulation lint (repeating index arrays)",
    "C16": "exactness side condition of the fold (no constant added to the unreduced coordinate), whole-array write rule, context-sensitive provenance of the periodic/reflective index sets from the public constructor to every helper call, views of the working copy, return-shape rule, round-off guard continuity in the fold domain, cached-result mutation lint, shared mutable default and process-lifetime memo key-completeness rules over the functions reachable from the boundary helpers",
    "C17": "all-or-nothing commit (no raise reachable after an append), stored-shape inference for cache attributes, local containers filled by item stores, shared-mutable-object lint for history slots, in-place numpy operations on internal arrays, who-may-rebind the history containers, computed section keys of exported aliases, copy-flag re-binding rule in storing loops, precise reading of copy-and-array tests in the ownership lattice",
    "C18": "coercion/rebinding rule around validation, configuration plumbing and name-crossed positional argument lints, dispatch tables, own-field-only guards of the range rows of the validation table, cap-after-floor rule for the step bounds",
    "C19": "bracket sign/regime rule for the root search, inverse-CDF clamp lint, polymorphic fills and closeness tests in the degree domain, per-coordinate covariance typing of the fit (sa/coord.py), weight-scale typing of the mode factories with sub-vector mass, per-coordinate typing of the mode factories, stateless-step rule for the training step",
    "C20": "taint rule over the volume metric (no division by a quantity computed from the covariance before the guarded inversion), own-sum normalisation decided in the power-sum algebra, scale typing of the volume metric, for-loop search forms, role-based anchors, reliability-weight covariance lint, flatten-gather lint (take/compress without axis), conditioning budget for relative spectral floors, errstate-underflow lint, `initial=` of max/min reductions in the shift typing (absolute bound mixed into an offset-dependent value)",
}

CLAIMS = {
    # id: (technique, level text, level note, design ref)
    "C08": (
        "ownership/effect analysis of the loader (discarded-factory rule), frozen-dataclass store lint, CFG must-pass-through ordering of dump/flush/fsync/rename, writer/reader key-table agreement",
        "Static decision, over every path of the checkpoint code, of six structural necessary conditions of C08 (in-place restore, no frozen store, atomic write protocol, key-table agreement, resume does not re-initialise, save cadence). Not a proof of bit-exact round trips.",
        "Trusts dill round-trips, atomic os.replace/rename, receiver types as wired in SamplerCore.__init__; decides code shape only.",
        "DESIGN.md section 3 (C08)",
    ),
    "C17": (
        "ownership/freshness abstract interpretation (escape analysis) of every public accessor and every store into internal state; who-may-mutate rule for history lists; CFG exactly-once rule for the commit",
        "Static decision over all paths: every value returned by a public accessor of the state manager or facade is scalar or freshly allocated at every container level; every stored value is a fresh copy; history lists are only appended to, once per key per iteration, with a fresh copy.",
        "Trusts numpy copy/view semantics as tabulated in sa/fresh.py; object-dtype blobs and the documented copy=False contract are outside.",
        "DESIGN.md section 3 (C17)",
    ),
    "C09": (
        "RNG effect analysis: enumeration of all seeding/draw sites, interprocedural provenance (constant propagation through parameters, attributes, dataclass fields) of every seed argument, CFG must-pass-through of the user-seed call before the sampling loop",
        "Static decision over all call chains: the configured random_state reaches a seeding call passed before the first draw of a fresh run; no seeding call can receive a literal; inside the iteration pipeline no seeding call receives any value; no foreign entropy source.",
        "Exact because all randomness goes through numpy.random module functions (census in evidence); assumes deterministic user callables; floating-point bit-identity across BLAS builds not decided.",
        "DESIGN.md section 3 (C09)",
    ),
    "C07": (
        "record-coherence analysis: discovery of record-move sites by (index name, reaching definition), field tagging by state keys/role calls, backward slices for the u->x->(logl,blobs) derivation chain, dominance of the bounds predicate over every returned proposal, tuple-position agreement",
        "Static decision over all paths that every site moving particle rows moves u, x, logl and blobs with one index and matching fields, that stored x/logl/blobs derive from the stored u, that only boundary-mapped and bounds-checked proposals reach u, and that the commit covers every record key.",
        "Field identity derived from state keys, role calls and names; user callables deterministic; object-dtype blobs share user objects by design.",
        "DESIGN.md section 3 (C07)",
    ),
    "C06": (
        "index-safety rule (linear bound of an incremented subscript against the array length in the loop guard), allocation/slot-assignment shape, single-draw census, call-shape check of the categorical draw",
        "Static decision of the structural preconditions of the resampling contract on all paths: bounded incremented index, exactly `size` unconditional slot assignments from a monotone index, one scalar shared offset in (U + arange(n))/n, multinomial draw over the whole weight vector with p = weights.",
        "numpy.random.choice semantics trusted; expectation n*w_i and the floor/ceil law are numerical and not decided.",
        "DESIGN.md section 3 (C06)",
    ),
    "C11": (
        "backward slice of the value written to `logz` in the prior-draw branch (must-not-depend on current logz, must-depend on the -inf mask); CFG must-pass-through of the joint replacement on every path with a non-empty -inf mask",
        "Static decision over all paths that the warm-up evidence is the batch's own supported fraction (not an accumulation) and that -inf rows are replaced before the batch is stored; the all--inf batch path is a listed known finding (K3).",
        "Assumes the reweighting step has set logz from history before mutation (pipeline order, C05); convergence of the final evidence not decided.",
        "DESIGN.md section 3 (C11)",
    ),
    "C12": (
        "CFG single-exit analysis of the sampling loop, truth table over the atoms of the termination predicate (postcondition = negated guard), def-use chain of the final evidence, index-history analysis of posterior() return tuples",
        "Static decision that run() can return only when 1-beta < 1e-4 and ESS(beta=1 weights over the whole history) >= n_total, that evidence() returns the MIS evidence at beta=1 computed after the last iteration, and that all arrays returned by posterior() carry the same trimming/resampling index history with re-derived (uniform after resampling) weights.",
        "Termination of the loop and numerical ESS are not decided; weight function and ESS routine are decided under C04/C20.",
        "DESIGN.md section 3 (C12)",
    ),
    "C13": (
        "whitelist rule on dispatch callables, contradiction rule via a truth table over branch atoms (isinstance(pool,int) must be known false at attribute access), CFG path enumeration pairing each likelihood call with one counter increment of the batch row count",
        "Static decision over all paths: results are assembled only through order-preserving map; no attribute access on an int pool; each wrapper call site increments the counter exactly once by the number of rows evaluated; the kernel total is added to `calls` exactly once; each wrapper path evaluates the user function through exactly one dispatch.",
        "Assumes Pool.map preserves order and the user likelihood is pointwise identical across modes; bit-identity not decided.",
        "DESIGN.md section 3 (C13)",
    ),
    "C14": (
        "typestate analysis of the shared clusterer across the pipeline (fit/predict automaton, guards decided by truth table over path atoms, interprocedural precondition through the wiring), index-space typing of mode arrays, sibling-factory sequence agreement, linear cap-wiring check",
        "Static decision that every predict runs in the FITTED state for every cadence and after resume; that mode statistics are only created through the Cholesky-validating constructor by two factories with the same normalise/resample/fit/dof-fallback sequence; that per-cluster fits use rows and weights of that cluster; that max_iterations + 1 <= cap. The rank-vs-raw label-space mismatch is a listed known finding (K2).",
        "np.linalg.cholesky raises unless SPD; finiteness/positivity of fitted parameters not decided.",
        "DESIGN.md section 3 (C14)",
    ),
    "C16": (
        "abstract interpretation of the fold formulas over the finite domain parity(floor) x {r=0, 0<r<1}; bounded-before-narrowing lint on the input's data path; selection-structure rules for copy, designated-index stores and the two-sided bounds predicate",
        "Static decision for every real in exact arithmetic that the periodic branch computes val mod 1 and the reflective branch the period-2 triangle wave; that no unbounded float->int conversion lies on the data path; that only designated coordinates of a copy are written; that the bounds predicate tests (x>=0)&(x<=1) on exactly the non-designated coordinates for both ranks.",
        "Floating-point rounding within one ulp of integers is not decided; numpy floor/mod/where semantics as tabulated.",
        "DESIGN.md section 3 (C16)",
    ),
    "C05": (
        "path-sensitive abstract interpretation with an evaluated-at domain (every value derived from compute_logw_and_logz(B) carries the identity of B; helpers and closures inlined, loops unrolled once), bracket/midpoint typing, monotonicity table for the two-mode bisection, who-may-write and dominance analysis of the pipeline",
        "Static decision over all enumerated paths that the recorded beta, the weights handed on, the ESS and logZ refer to one temperature; that the ESS-limit search only returns a beta supported by an observed ESS >= target test (or the current beta); that brackets only move to midpoints and returns are bracket members (beta in [beta_prev, 1]); that only the reweighting step writes beta/ess/iter and the pipeline runs each step once, in order, with the right data wiring.",
        "Assumes ESS non-increasing / volume metric non-decreasing in beta (the declared monotonicity); numerical ESS floor and bisection convergence not decided.",
        "DESIGN.md section 3 (C05)",
    ),
    "C15": (
        "loop-bound and net-growth rule for the split loop, dominance of the two-sided minimum-size test, partition/label-range structure, normalisation idiom, homogeneity-degree typing of the weighted EM under rescaling of sample weights (interprocedural, inlined)",
        "Static decision of the structural clauses: cap = constructor argument + unconditional counter + one net cluster per iteration; both children tested against min_points; complementary label selections by a 2-component model; labels by enumeration and arg-reduction over n_clusters_ columns; M-step weights normalised; no absolute constant meets an un-normalised sample weight.",
        "PSD-ness, means inside the bounding box and weight-replication equivalence are numerical and not decided.",
        "DESIGN.md section 3 (C15)",
    ),
    "C18": (
        "validation-table rule (each documented constraint has an error site whose path condition is exactly the documented violation), raise/validate must-pass-through, constructor call-graph scan for user callables, enum agreement between validated literals and dispatched literals traced by provenance to configuration fields",
        "Static decision that each of the documented invalid-configuration classes is rejected during construction before any user callable runs, and that accepted kernel/resampler names agree with the run-time dispatchers.",
        "'Every valid combination runs' is a run-time statement, not decided (instances decided under C13.b, C14.a/e).",
        "DESIGN.md section 3 (C18)",
    ),
    "C19": (
        "must-pass-through of the non-finite-dof guard, provenance of the fallback argument at every internal factory call site, homogeneity-degree typing of the Student-t fit under rescaling of the data, index-space agreement of resampling indices",
        "Static decision that fitted dof always pass the non-finite guard and fall back to the configured constant; that location/scale/nu have degrees 1/2/0 with no absolute constant mixed into scaled quantities; that cluster-local resampling indices only subscript cluster-local arrays.",
        "Per-coordinate/permutation equivariance, bounding-box containment, SPD-ness and parameter recovery are numerical and not decided (observation: the nu update never leaves the Gaussian limit on this tree, see DESIGN.md).",
        "DESIGN.md section 3 (C19)",
    ),
    "C20": (
        "structural trimming contract (mask identity, upper set, loop-exit guard), homogeneity-degree typing under rescaling of weights with an overflow-hazard rule, power-sum algebra (sympy) proving ESS = S1^2/S2, translation typing of the volume metric",
        "Static decision that samples and weights are trimmed by one mask = weights >= percentile threshold, that the search loop can only be left where the ESS-ratio test holds, that every weight utility is scale invariant without powers of un-normalised weights, that every ESS is S1^2/S2 of its vector (hence in [1, N], = N for uniform weights, shift independent), and that the volume metric's covariance is formed from centred samples.",
        "Invariance under general linear maps and floating-point conditioning are not decided.",
        "DESIGN.md section 3 (C20)",
    ),
    "C03": (
        "CFG retry-loop rule on the bounds predicate, expression-DAG isomorphism of the two density terms modulo u_prime<->self.u, sign x monotonicity abstract domain for the orientation of the correction and of the Metropolis step, algebraic lints (sympy) for the Crank-Nicolson identity and the inverse-gamma parameters with own-cluster index typing, dependence check for the symmetric random walk",
        "Static decision of six structural necessary conditions of detailed balance for both kernels (single draw, two-sided density, orientation, a^2+b^2=1, gamma shape/scale, symmetric random walk). The redraw-until-inside loops of both kernels are listed known findings (K1a/K1b).",
        "Necessary conditions only: invariance itself, consistent two-sided edits and numerics of the covariance factors are not decided.",
        "DESIGN.md section 3 (C03)",
    ),
    "C04": (
        "abstract interpretation of the weight function in a shift/scale/axis type system (A7) with coefficient atoms for the history betas, max-shift tracking for exponentials, backward dependence slices, selector/special-case lint on per-iteration vectors",
        "Static decision that each mixture column is shift-free before a symmetric reduction over the iteration axis, that log-weights/evidence shift by exactly beta_final and normalised weights are shift-free with unit sum, that no exponential is taken of a non-max-shifted log quantity, that the denominator depends on every component's beta, logZ and normalised batch size, and that no component is dropped, merged or special-cased.",
        "Numerical equality with the formula (a sign error preserving types and dependence) is not decided.",
        "DESIGN.md section 3 (C04)",
    ),
    "C10": (
        "whole-pipeline shift typing (A7) with an assume/guarantee contract at the state-key boundary: 75 functions typed by inlining internal calls; sinks = branch conditions, state writes, returned weights, row-selection indices; guarantee = provenance of every `logz` write",
        "Static decision (sufficient in exact arithmetic on the typed paths) that absolute log-likelihood values reach no branch condition, no state key other than logl/logz, no weight vector or accept mask, and that every stored logz is the evidence component of the weight function (or shift-free at beta = 0).",
        "Assumes the weight function has the type decided under C04; floating-point rounding and user code not decided.",
        "DESIGN.md section 3 (C10)",
    ),
}

NOT_APPLICABLE = {
    "C01": "statistical consistency of an estimator over the ensemble of seeds: no clause is visible in code shape except through mechanisms decided under C03-C07",
    "C02": "mean error and independence over seeded runs are statistical facts; the one structural mechanism (constant reseed) is decided under C09",
}

ALL = [f"C{i:02d}" for i in range(1, 21)]


def fix_commits():
    try:
        out = subprocess.run(["git", "-C", "/repo", "log", "--format=%h %s"], capture_output=True, text=True).stdout
        return [l.split()[0] for l in out.splitlines() if l.split(" ", 1)[1].startswith("fix:")]
    except Exception:
        return []


def main():
    checks = []
    for pid in ALL:
        if pid not in CLAIMS:
            continue
        tech, text, note, ref = CLAIMS[pid]
        checks.append(
            {
                "property_id": pid,
                "quick_cmd": f"python3-vt /verif/sa/cli.py check {pid} --tier quick",
                "thorough_cmd": f"python3-vt /verif/sa/cli.py check {pid} --tier thorough",
                "evidence_file": f"/verif/evidence/{pid}.json",
                "replay_cmd_template": "python3-vt /verif/sa/cli.py replay {path}",
                "engine": "sa",
                "level_claimed": {"category": "other", "text": text, "design_ref": ref},
                "level_note": note,
                "technique": "static analysis: " + tech + ("; " + EXTRA[pid] if pid in EXTRA else ""),
            }
        )
    na = []
    for pid in ALL:
        if pid in CLAIMS:
            continue
        na.append({"property_id": pid, "reason": NOT_APPLICABLE.get(pid, "static rules for this property are not built yet (no half-armed check is registered)")})
    manifest = {
        "version": 1,
        "setup_cmd": "python3-vt /verif/sa/cli.py setup",
        "hooks": {
            "guard": "TEMPEST_VERIF",
            "enable": "no source hooks exist: the checks parse /repo's working tree and never import or run it; TEMPEST_VERIF is reserved and unused",
            "baseline_off_cmd": "cd /repo && /venv/bin/python -m pytest -ra -q -p no:cacheprovider --timeout=900 --continue-on-collection-errors",
            "source_commits": [],
            "add_only": True,
        },
        "engines": [
            {
                "name": "sa",
                "path": "/verif/sa",
                "serves_properties": sorted(CLAIMS),
                "kind_free_text": "repository-specific static analyser over the stdlib ast: per-function CFG, dominators, reaching definitions, backward slices, class-hierarchy call resolution, state-key and RNG effect summaries, small abstract domains; in-memory variants of the live tree for rule self-tests",
            }
        ],
        "checks": checks,
        "not_applicable": na,
        "notes": "Exit codes: 0 ok (KNOWN-FINDING lines for listed findings), 1 VIOLATION, 2 ANALYSIS-ERROR (the analysis cannot decide; never an alarm). Genuine defects repaired in /repo as 'fix:' commits: "
        + ", ".join(fix_commits())
        + ". See DESIGN.md and known_findings.json.",
    }
    with open(os.path.join(VERIF, "MANIFEST.json"), "w") as fh:
        json.dump(manifest, fh, indent=1)
    print("wrote MANIFEST.json with", len(checks), "checks,", len(na), "not applicable")


if __name__ == "__main__":
    sys.exit(main())
