#!/usr/bin/env python3
"""Regenerates /verif/MANIFEST.json from the table below (kept in one place so
that claims, techniques and not-applicable reasons stay consistent)."""
import json
import os
import subprocess
import sys

VERIF = os.path.dirname(os.path.dirname(os.path.abspath(__file__)))

CLAIMS = {
    # id: (technique, level text, level note, design ref)
    "C08": (
        "ownership/effect analysis of the loader (discarded-factory rule), frozen-dataclass store lint, CFG must-pass-through ordering of dump/flush/fsync/rename, writer/reader key-table agreement",
        "Static decision, over every path of the checkpoint code, of six structural necessary conditions of C08 (in-place restore, no frozen store, atomic write protocol, key-table agreement, resume does not re-initialise, save cadence). Not a proof of bit-exact round trips.",
        "Trusts dill round-trips, atomic os.replace/rename, receiver types as wired in SamplerCore.__init__; decides code shape only.",
        "DESIGN.md section 3 (C08)",
    ),
    "C17": (
        "ownership/freshness abstract interpretation (escape analysis) of every public accessor and every store into internal state; who-may-mutate rule for history lists; CFG exactly-once rule for the commit",
        "Static decision over all paths: every value returned by a public accessor of the state manager or facade is scalar or freshly allocated at every container level; every stored value is a fresh copy; history lists are only appended to, once per key per iteration, with a fresh copy.",
        "Trusts numpy copy/view semantics as tabulated in sa/fresh.py; object-dtype blobs and the documented copy=False contract are outside.",
        "DESIGN.md section 3 (C17)",
    ),
    "C09": (
        "RNG effect analysis: enumeration of all seeding/draw sites, interprocedural provenance (constant propagation through parameters, attributes, dataclass fields) of every seed argument, CFG must-pass-through of the user-seed call before the sampling loop",
        "Static decision over all call chains: the configured random_state reaches a seeding call passed before the first draw of a fresh run; no seeding call can receive a literal; inside the iteration pipeline no seeding call receives any value; no foreign entropy source.",
        "Exact because all randomness goes through numpy.random module functions (census in evidence); assumes deterministic user callables; floating-point bit-identity across BLAS builds not decided.",
        "DESIGN.md section 3 (C09)",
    ),
    "C07": (
        "record-coherence analysis: discovery of record-move sites by (index name, reaching definition), field tagging by state keys/role calls, backward slices for the u->x->(logl,blobs) derivation chain, dominance of the bounds predicate over every returned proposal, tuple-position agreement",
        "Static decision over all paths that every site moving particle rows moves u, x, logl and blobs with one index and matching fields, that stored x/logl/blobs derive from the stored u, that only boundary-mapped and bounds-checked proposals reach u, and that the commit covers every record key.",
        "Field identity derived from state keys, role calls and names; user callables deterministic; object-dtype blobs share user objects by design.",
        "DESIGN.md section 3 (C07)",
    ),
}

NOT_APPLICABLE = {
    "C01": "statistical consistency of an estimator over the ensemble of seeds: no clause is visible in code shape except through mechanisms decided under C03-C07",
    "C02": "mean error and independence over seeded runs are statistical facts; the one structural mechanism (constant reseed) is decided under C09",
}

ALL = [f"C{i:02d}" for i in range(1, 21)]


def fix_commits():
    try:
        out = subprocess.run(["git", "-C", "/repo", "log", "--format=%h %s"], capture_output=True, text=True).stdout
        return [l.split()[0] for l in out.splitlines() if l.split(" ", 1)[1].startswith("fix:")]
    except Exception:
        return []


def main():
    checks = []
    for pid in ALL:
        if pid not in CLAIMS:
            continue
        tech, text, note, ref = CLAIMS[pid]
        checks.append(
            {
                "property_id": pid,
                "quick_cmd": f"python3-vt /verif/sa/cli.py check {pid} --tier quick",
                "thorough_cmd": f"python3-vt /verif/sa/cli.py check {pid} --tier thorough",
                "evidence_file": f"/verif/evidence/{pid}.json",
                "replay_cmd_template": "python3-vt /verif/sa/cli.py replay {path}",
                "engine": "sa",
                "level_claimed": {"category": "other", "text": text, "design_ref": ref},
                "level_note": note,
                "technique": "static analysis: " + tech,
            }
        )
    na = []
    for pid in ALL:
        if pid in CLAIMS:
            continue
        na.append({"property_id": pid, "reason": NOT_APPLICABLE.get(pid, "static rules for this property are not built yet (no half-armed check is registered)")})
    manifest = {
        "version": 1,
        "setup_cmd": "python3-vt /verif/sa/cli.py setup",
        "hooks": {
            "guard": "TEMPEST_VERIF",
            "enable": "no source hooks exist: the checks parse /repo's working tree and never import or run it; TEMPEST_VERIF is reserved and unused",
            "baseline_off_cmd": "cd /repo && /venv/bin/python -m pytest -ra -q -p no:cacheprovider --timeout=900 --continue-on-collection-errors",
            "source_commits": [],
            "add_only": True,
        },
        "engines": [
            {
                "name": "sa",
                "path": "/verif/sa",
                "serves_properties": sorted(CLAIMS),
                "kind_free_text": "repository-specific static analyser over the stdlib ast: per-function CFG, dominators, reaching definitions, backward slices, class-hierarchy call resolution, state-key and RNG effect summaries, small abstract domains; in-memory variants of the live tree for rule self-tests",
            }
        ],
        "checks": checks,
        "not_applicable": na,
        "notes": "Exit codes: 0 ok (KNOWN-FINDING lines for listed findings), 1 VIOLATION, 2 ANALYSIS-ERROR (the analysis cannot decide; never an alarm). Genuine defects repaired in /repo as 'fix:' commits: "
        + ", ".join(fix_commits())
        + ". See DESIGN.md and known_findings.json.",
    }
    with open(os.path.join(VERIF, "MANIFEST.json"), "w") as fh:
        json.dump(manifest, fh, indent=1)
    print("wrote MANIFEST.json with", len(checks), "checks,", len(na), "not applicable")


if __name__ == "__main__":
    sys.exit(main())
