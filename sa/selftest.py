"""Self-test of a property's rules on in-memory variants of the live tree.

* 'bad' variants (one rule instance broken; the variant still parses) must make
  one of the expected rules report a violation that the live tree does not have;
* 'benign' variants (behaviour-preserving rewrites) must leave the verdict
  unchanged.

A failure is an AnalysisError (exit 2): the checker, not tempest, is at fault.
Variants whose anchor text is not present on this tree are reported as
not-applicable and never fail the run.
"""
from __future__ import annotations

import concurrent.futures as cf
import os
from typing import Dict, List

from . import engine
from .model import AnalysisError, Program


def _violations(mod, sources) -> List[tuple]:
    prog = Program(None, sources=sources)
    ctx = engine.Context(prog)
    rep = engine.Reporter(mod.PROP)
    mod.run(ctx, rep)
    return [(o.rule, o.func, o.key, o.loc, o.msg) for o in rep.obligations if not o.ok], len(rep.obligations)


def _one(args):
    modname, vname, sources = args
    import importlib

    mod = importlib.import_module(modname)
    v = next(x for x in mod.variants() if x.name == vname)
    try:
        new_sources = v.apply(sources)
    except Exception as e:  # a broken variant script is a checker bug
        return (vname, "error", f"variant raised {type(e).__name__}: {e}", [])
    if new_sources is None:
        return (vname, "n/a", "anchor text not present on this tree", [])
    try:
        viol, n_ob = _violations(mod, new_sources)
    except AnalysisError as e:
        return (vname, "analysis-error", str(e), [])
    except Exception as e:
        import traceback

        return (vname, "error", f"{type(e).__name__}: {e}\n{traceback.format_exc()[-800:]}", [])
    return (vname, "ran", "", viol)


def run(mod, prog: Program, rep: engine.Reporter, tier: str, seed: int) -> Dict:
    variants = list(mod.variants()) if hasattr(mod, "variants") else []
    if tier == "quick":
        variants = [v for v in variants if v.quick]
    base = {(o.rule, o.func, o.key) for o in rep.obligations if not o.ok}
    base_rules = sorted((o.rule, o.func) for o in rep.obligations if not o.ok)
    results = []
    jobs = [(mod.__name__, v.name, prog.sources) for v in variants]
    if tier == "thorough" and len(jobs) > 4:
        with cf.ProcessPoolExecutor(max_workers=min(16, os.cpu_count() or 1)) as ex:
            outs = list(ex.map(_one, jobs, chunksize=2))
    else:
        outs = [_one(j) for j in jobs]
    failures = []
    killed = 0
    n_bad = 0
    n_benign = 0
    stable = 0
    rows = []
    for v, (vname, status, info, viol) in zip(variants, outs):
        row = {"variant": vname, "kind": v.kind, "status": status}
        if status == "n/a":
            rows.append(row)
            if os.environ.get("SA_STRICT_VARIANTS"):
                failures.append(f"variant {vname} is not applicable on this tree (strict mode)")
            continue
        if status == "error":
            failures.append(f"{vname}: {info}")
            rows.append(row)
            continue
        if v.kind == "bad":
            n_bad += 1
            if status == "analysis-error":
                # an analysis error on a broken variant is acceptable only if declared
                if "ANALYSIS-ERROR" in v.expect:
                    killed += 1
                    row["result"] = "undecided (declared)"
                else:
                    failures.append(f"bad variant {vname}: analysis error instead of a violation: {info}")
                rows.append(row)
                continue
            new = [x for x in viol if (x[0], x[1], x[2]) not in base]
            hit = [x for x in new if x[0] in v.expect or not v.expect]
            if hit:
                killed += 1
                row["result"] = f"fired {hit[0][0]} at {hit[0][3]}"
            else:
                failures.append(f"bad variant {vname} not detected (expected one of {list(v.expect)}; new violations: {[x[0] for x in new]})")
                row["result"] = "MISSED"
        else:
            n_benign += 1
            if status == "analysis-error":
                failures.append(f"benign variant {vname}: analysis error: {info}")
                rows.append(row)
                continue
            now_rules = sorted((x[0], x[1]) for x in viol)
            if now_rules == base_rules:
                stable += 1
                row["result"] = "verdict unchanged"
            else:
                extra = [x for x in viol if (x[0], x[1]) not in base_rules]
                failures.append(f"benign variant {vname} changed the verdict: {[(x[0], x[3], x[4]) for x in extra][:3]} (before {base_rules}, after {now_rules})")
                row["result"] = "FLIPPED"
        rows.append(row)
    out = {
        "selftest": {
            "tier": tier,
            "bad_variants_run": n_bad,
            "bad_variants_detected": killed,
            "benign_variants_run": n_benign,
            "benign_variants_stable": stable,
            "not_applicable": [r["variant"] for r in rows if r["status"] == "n/a"],
            "rows": rows,
        }
    }
    rep.analysed["selftest:bad_detected"] = f"{killed}/{n_bad}"
    rep.analysed["selftest:benign_stable"] = f"{stable}/{n_benign}"
    if failures:
        raise AnalysisError("; ".join(failures))
    return out
