"""Self-test of a property's rules on in-memory variants of the live tree.

* 'bad' variants (one rule instance broken; the variant still parses) must make
  one of the expected rules report a violation that the live tree does not have;
* 'benign' variants (behaviour-preserving rewrites) must leave the verdict
  unchanged.

A failure is an AnalysisError (exit 2): the checker, not tempest, is at fault.
Variants whose anchor text is not present on this tree are reported as
not-applicable and never fail the run.
"""
from __future__ import annotations

import concurrent.futures as cf
import os
from typing import Dict, List

from . import engine
from .model import AnalysisError, Program


def _violations(mod, sources) -> List[tuple]:
    prog = Program(None, sources=sources)
    ctx = engine.Context(prog)
    rep = engine.Reporter(mod.PROP)
    mod.run(ctx, rep)
    scope = engine.CONTRACT_SCOPE.get(mod.PROP)
    if scope is not None:
        from .util import numpy_contract_pack

        files, what = scope
        funcs = [f for f in ctx.prog.functions.values() if f.module.relpath.split("/")[-1] in files]
        rep.guard(numpy_contract_pack, ctx, rep, f"{mod.PROP}.z", funcs, what)
    viol = [(o.rule, o.func, o.key, o.loc, o.msg) for o in rep.obligations if not o.ok]
    if rep.errors and not viol:
        raise AnalysisError("; ".join(rep.errors))
    return viol, len(rep.obligations)


def _is_pinned_tree(prog) -> bool:
    import json

    path = os.path.join(os.path.dirname(__file__), "pinned_tree.json")
    try:
        with open(path) as fh:
            return json.load(fh).get("digest") == prog.digest()
    except Exception:
        return False


def _one(args):
    modname, vname, sources = args
    import importlib

    mod = importlib.import_module(modname)
    from .variants import global_benign_variants

    v = next(x for x in list(mod.variants()) + global_benign_variants() if x.name == vname)
    try:
        new_sources = v.apply(sources)
    except Exception as e:  # a broken variant script is a checker bug
        return (vname, "error", f"variant raised {type(e).__name__}: {e}", [])
    if new_sources is None:
        return (vname, "n/a", "anchor text not present on this tree", [])
    try:
        viol, n_ob = _violations(mod, new_sources)
    except AnalysisError as e:
        return (vname, "analysis-error", str(e), [])
    except Exception as e:
        import traceback

        return (vname, "error", f"{type(e).__name__}: {e}\n{traceback.format_exc()[-800:]}", [])
    return (vname, "ran", "", viol)


def run(mod, prog: Program, rep: engine.Reporter, tier: str, seed: int) -> Dict:
    variants = list(mod.variants()) if hasattr(mod, "variants") else []
    if tier == "quick":
        variants = [v for v in variants if v.quick]
    elif variants and not os.environ.get("SA_NO_GLOBAL_VARIANTS"):
        from .variants import global_benign_variants

        variants = variants + global_benign_variants()  # whole-package equivalences (thorough tier)
    base = {(o.rule, o.func, o.key) for o in rep.obligations if not o.ok}
    base_rules = sorted((o.rule, o.func) for o in rep.obligations if not o.ok)
    results = []
    jobs = [(mod.__name__, v.name, prog.sources) for v in variants]
    if tier == "thorough" and len(jobs) > 4:
        with cf.ProcessPoolExecutor(max_workers=min(16, os.cpu_count() or 1)) as ex:
            outs = list(ex.map(_one, jobs, chunksize=2))
    else:
        outs = [_one(j) for j in jobs]
    failures = []
    killed = 0
    n_bad = 0
    n_benign = 0
    stable = 0
    rows = []
    for v, (vname, status, info, viol) in zip(variants, outs):
        row = {"variant": vname, "kind": v.kind, "status": status}
        if status == "n/a":
            rows.append(row)
            # On the tree the variants were written for (digest recorded in sa/pinned_tree.json) a variant whose anchor does
            # not match has never been exercised: that is a defect of the self-test, not a pass.  On any other tree the
            # variant simply does not apply.
            if os.environ.get("SA_STRICT_VARIANTS") or _is_pinned_tree(prog):
                failures.append(f"variant {vname} is not applicable on this tree (its anchor does not match: it was never exercised)")
            continue
        if status == "error":
            failures.append(f"{vname}: {info}")
            rows.append(row)
            continue
        if v.kind == "bad":
            n_bad += 1
            if status == "analysis-error":
                # an analysis error on a broken variant is acceptable only if declared
                if "ANALYSIS-ERROR" in v.expect:
                    killed += 1
                    row["result"] = "undecided (declared)"
                else:
                    failures.append(f"bad variant {vname}: analysis error instead of a violation: {info}")
                rows.append(row)
                continue
            new = [x for x in viol if (x[0], x[1], x[2]) not in base]
            hit = [x for x in new if x[0] in v.expect or not v.expect]
            if hit:
                killed += 1
                row["result"] = f"fired {hit[0][0]} at {hit[0][3]}"
            else:
                failures.append(f"bad variant {vname} not detected (expected one of {list(v.expect)}; new violations: {[x[0] for x in new]})")
                row["result"] = "MISSED"
        else:
            n_benign += 1
            if status == "analysis-error":
                failures.append(f"benign variant {vname}: analysis error: {info}")
                rows.append(row)
                continue
            now_rules = sorted((x[0], x[1]) for x in viol)
            if now_rules == base_rules:
                stable += 1
                row["result"] = "verdict unchanged"
            else:
                extra = [x for x in viol if (x[0], x[1]) not in base_rules]
                failures.append(f"benign variant {vname} changed the verdict: {[(x[0], x[3], x[4]) for x in extra][:3]} (before {base_rules}, after {now_rules})")
                row["result"] = "FLIPPED"
        rows.append(row)
    out = {
        "selftest": {
            "tier": tier,
            "bad_variants_run": n_bad,
            "bad_variants_detected": killed,
            "benign_variants_run": n_benign,
            "benign_variants_stable": stable,
            "not_applicable": [r["variant"] for r in rows if r["status"] == "n/a"],
            "rows": rows,
        }
    }
    if tier == "thorough":
        try:
            out["mutation_adequacy"] = mutation_adequacy(mod, prog, rep, seed)
            rep.analysed["mutation_adequacy"] = f"{out['mutation_adequacy']['killed']}/{out['mutation_adequacy']['mutants']}"
        except Exception as e:  # adequacy is informational, never a verdict
            out["mutation_adequacy"] = {"error": f"{type(e).__name__}: {e}"}
    rep.analysed["selftest:bad_detected"] = f"{killed}/{n_bad}"
    rep.analysed["selftest:benign_stable"] = f"{stable}/{n_benign}"
    if failures:
        raise AnalysisError("; ".join(failures))
    return out


# ---------------------------------------------------------------------------
# Generic live-tree mutation adequacy (thorough tier; informational only)
# ---------------------------------------------------------------------------
import ast as _ast
import random as _random

_CMP_SWAP = {_ast.Lt: _ast.LtE, _ast.LtE: _ast.Lt, _ast.Gt: _ast.GtE, _ast.GtE: _ast.Gt, _ast.Eq: _ast.NotEq, _ast.NotEq: _ast.Eq}


def _generic_mutants(prog: Program, funcs):
    """Yield (name, relpath, new_source) for generic AST mutants of the given
    functions: delete a simple statement, negate an if-test, swap a comparison
    operator, perturb a numeric constant, swap +/-."""
    for fi in funcs:
        rel = fi.file
        src = prog.sources[rel]
        tree0 = _ast.parse(src)
        # enumerate mutation points by index in a deterministic walk of the function
        from .variants import find_def

        fn0 = find_def(tree0, fi.short.replace("<", "").replace(">", ""))
        if fn0 is None:
            continue
        nodes = [n for n in _ast.walk(fn0)]
        for i, n in enumerate(nodes):
            kinds = []
            if isinstance(n, (_ast.Assign, _ast.AugAssign, _ast.Expr)) and not (isinstance(n, _ast.Expr) and isinstance(n.value, _ast.Constant)):
                kinds.append("delete")
            if isinstance(n, _ast.If):
                kinds.append("negate")
            if isinstance(n, _ast.Compare) and len(n.ops) == 1 and type(n.ops[0]) in _CMP_SWAP:
                kinds.append("cmp")
            if isinstance(n, _ast.Constant) and isinstance(n.value, (int, float)) and not isinstance(n.value, bool):
                kinds.append("const")
            if isinstance(n, _ast.BinOp) and isinstance(n.op, (_ast.Add, _ast.Sub)):
                kinds.append("addsub")
            for k in kinds:
                yield (f"{fi.short}:{k}@{getattr(n, 'lineno', 0)}:{i}", rel, fi.short, i, k)


def _apply_generic(src: str, defpath: str, idx: int, kind: str):
    from .variants import find_def

    tree = _ast.parse(src)
    fn = find_def(tree, defpath.replace("<", "").replace(">", ""))
    nodes = [n for n in _ast.walk(fn)]
    if idx >= len(nodes):
        return None
    n = nodes[idx]
    if kind == "delete":
        # replace by pass in its parent block
        for parent in _ast.walk(fn):
            for fld in ("body", "orelse", "finalbody"):
                blk = getattr(parent, fld, None)
                if isinstance(blk, list) and n in blk:
                    blk[blk.index(n)] = _ast.Pass()
                    _ast.fix_missing_locations(tree)
                    return _ast.unparse(tree) + "\n"
        return None
    if kind == "negate":
        n.test = _ast.UnaryOp(op=_ast.Not(), operand=n.test)
    elif kind == "cmp":
        n.ops = [_CMP_SWAP[type(n.ops[0])]()]
    elif kind == "const":
        n.value = n.value + 1 if n.value != 1 else 0
    elif kind == "addsub":
        n.op = _ast.Sub() if isinstance(n.op, _ast.Add) else _ast.Add()
    _ast.fix_missing_locations(tree)
    return _ast.unparse(tree) + "\n"


def _adequacy_one(args):
    modname, name, rel, defpath, idx, kind, sources, base = args
    import importlib

    mod = importlib.import_module(modname)
    try:
        new = _apply_generic(sources[rel], defpath, idx, kind)
        if new is None:
            return (name, "n/a")
        s2 = dict(sources)
        s2[rel] = new
        viol, n_ob = _violations(mod, s2)
    except AnalysisError:
        return (name, "undecided")
    except Exception:
        return (name, "error")
    new_v = [v for v in viol if (v[0], v[1], v[2]) not in base]
    return (name, "killed" if new_v else "survived")


def mutation_adequacy(mod, prog: Program, rep: engine.Reporter, seed: int, cap: int = 240) -> Dict:
    funcs = {}
    for o in rep.obligations:
        if o.func:
            for fi in prog.functions.values():
                if fi.short == o.func and fi.parent is None:
                    funcs[fi.qualname] = fi
    muts = list(_generic_mutants(prog, list(funcs.values())))
    rng = _random.Random(seed)
    rng.shuffle(muts)
    muts = muts[:cap]
    base = {(o.rule, o.func, o.key) for o in rep.obligations if not o.ok}
    jobs = [(mod.__name__, name, rel, dp, idx, kind, prog.sources, base) for (name, rel, dp, idx, kind) in muts]
    with cf.ProcessPoolExecutor(max_workers=min(16, os.cpu_count() or 1)) as ex:
        outs = list(ex.map(_adequacy_one, jobs, chunksize=4))
    counts: Dict[str, int] = {}
    for (_, st) in outs:
        counts[st] = counts.get(st, 0) + 1
    survived = [n for (n, st) in outs if st == "survived"]
    return {
        "note": "generic AST mutants (statement deletion, if-negation, comparison swap, constant perturbation, +/- swap) of the functions the rules anchor in; many are behaviour-preserving or outside this property, so the ratio is an indicator of rule sensitivity, not a verdict",
        "functions": sorted(f.short for f in funcs.values()),
        "mutants": len(outs),
        "killed": counts.get("killed", 0),
        "undecided": counts.get("undecided", 0),
        "survived": counts.get("survived", 0),
        "errors": counts.get("error", 0),
        "survivors_sample": survived[:25],
    }
