"""Effect summaries: accesses to the string-keyed particle state
(StateManager accessors) and uses of the process-wide RNG.
"""
from __future__ import annotations

import ast
from dataclasses import dataclass
from typing import Dict, List, Optional, Set, Tuple

from .model import AnalysisError, ClassInfo, FuncInfo, Program, dotted, walk_no_nested
from .resolve import CallGraph, Resolver

READ_METHODS = {"get_current": "current", "get_history": "history", "get_last_history": "history"}
WRITE_METHODS = {"set_current", "update_current"}


@dataclass
class KeyAccess:
    func: FuncInfo
    call: ast.Call
    mode: str  # 'read' | 'write'
    space: str  # 'current' | 'history'
    key: Optional[str]  # None = whole state
    value: Optional[ast.expr] = None  # written value expression
    flat: bool = False

    @property
    def loc(self) -> str:
        return self.func.loc(self.call)


class StateEffects:
    """All accessor call sites whose receiver is the state manager."""

    def __init__(self, prog: Program, res: Resolver):
        self.prog = prog
        self.res = res
        self.state_cls = prog.find_class("StateManager")
        if self.state_cls is None:
            raise AnalysisError("anchor class vanished: StateManager")
        self.accesses: List[KeyAccess] = []
        self.dynamic_sites: List[Tuple[FuncInfo, ast.Call, str]] = []
        self._scan()

    def is_state_receiver(self, fi: FuncInfo, recv: ast.expr) -> bool:
        ts = self.res.expr_types(fi, recv)
        if any(t is self.state_cls for t in ts):
            return True
        return False

    def _scan(self):
        for fi in self.prog.functions.values():
            for n in walk_no_nested(fi.node):
                if not isinstance(n, ast.Call) or not isinstance(n.func, ast.Attribute):
                    continue
                meth = n.func.attr
                if meth not in READ_METHODS and meth not in WRITE_METHODS:
                    continue
                if not self.is_state_receiver(fi, n.func.value):
                    continue
                self._record(fi, n, meth)

    def _record(self, fi: FuncInfo, n: ast.Call, meth: str):
        def arg(i, name):
            if len(n.args) > i:
                return n.args[i]
            for k in n.keywords:
                if k.arg == name:
                    return k.value
            return None

        if meth in READ_METHODS:
            k = arg(0, "key")
            flat = False
            fl = arg(2, "flat")
            if isinstance(fl, ast.Constant) and fl.value is True:
                flat = True
            if k is None:
                self.accesses.append(KeyAccess(fi, n, "read", READ_METHODS[meth], None))
            elif isinstance(k, ast.Constant) and isinstance(k.value, str):
                self.accesses.append(KeyAccess(fi, n, "read", READ_METHODS[meth], k.value, flat=flat))
            else:
                keys = self._iterated_keys(fi, k)
                if keys is None:
                    self.dynamic_sites.append((fi, n, ast.unparse(k)))
                else:
                    for kk in keys:
                        self.accesses.append(KeyAccess(fi, n, "read", READ_METHODS[meth], kk, flat=flat))
        elif meth == "set_current":
            k = arg(0, "key")
            v = arg(1, "value")
            if isinstance(k, ast.Constant) and isinstance(k.value, str):
                self.accesses.append(KeyAccess(fi, n, "write", "current", k.value, v))
            else:
                keys = self._iterated_keys(fi, k) if k is not None else None
                if keys is None:
                    self.dynamic_sites.append((fi, n, ast.unparse(k) if k is not None else "?"))
                else:
                    for kk, vv in keys.items() if isinstance(keys, dict) else [(x, v) for x in keys]:
                        self.accesses.append(KeyAccess(fi, n, "write", "current", kk, vv))
        elif meth == "update_current":
            d = arg(0, "data_dict")
            if isinstance(d, ast.Name):
                # unique local dict literal?
                from .dataflow import flow_of

                flow = flow_of(fi.node)
                at = flow.node_containing(n)
                ds = flow.reaching(at, d.id) if at is not None else []
                if len(ds) == 1 and ds[0].kind == "assign" and not ds[0].path:
                    d = ds[0].value
            if isinstance(d, ast.Dict) and all(isinstance(k, ast.Constant) and isinstance(k.value, str) for k in d.keys):
                for k, v in zip(d.keys, d.values):
                    self.accesses.append(KeyAccess(fi, n, "write", "current", k.value, v))
            elif isinstance(d, ast.Call) and dotted(d.func) == "dict" and not d.args:
                for kw in d.keywords:
                    self.accesses.append(KeyAccess(fi, n, "write", "current", kw.arg, kw.value))
            else:
                self.dynamic_sites.append((fi, n, ast.unparse(d) if d is not None else "?"))

    def _iterated_keys(self, fi: FuncInfo, k: ast.expr):
        """Resolve `for key, default in required_keys.items(): get_current(key)`
        style accesses: key is a loop variable over a dict/list/set literal."""
        if not isinstance(k, ast.Name):
            return None
        from .dataflow import flow_of, select_path

        flow = flow_of(fi.node)
        cands = [d for ds in flow.defs_at.values() for d in ds if d.name == k.id]
        if len(cands) != 1 or cands[0].kind != "for":
            return None
        d = cands[0]
        it = d.value
        # X.items() / X.keys() / X
        if isinstance(it, ast.Call) and isinstance(it.func, ast.Attribute) and it.func.attr in ("items", "keys") and not it.args:
            src = it.func.value
            want_items = it.func.attr == "items"
        else:
            src = it
            want_items = False
        if isinstance(src, ast.Name):
            c2 = [dd for ds in flow.defs_at.values() for dd in ds if dd.name == src.id]
            if len(c2) == 1 and c2[0].kind == "assign" and not c2[0].path:
                src = c2[0].value
            else:
                r = self.prog.resolve_name(fi.module, src.id)
                if isinstance(r, tuple) and r[0] == "const":
                    src = r[1].constants[r[2]]
                elif src.id in fi.module.constants:
                    src = fi.module.constants[src.id]
        if isinstance(src, ast.Call) and dotted(src.func) in ("frozenset", "set", "list", "tuple") and len(src.args) == 1:
            src = src.args[0]
        # a constant slice of another module-level table: TABLE[:4], TABLE[2:]
        for _hop in range(3):
            if isinstance(src, ast.Subscript) and isinstance(src.slice, ast.Slice) and isinstance(src.value, ast.Name):
                base = None
                r = self.prog.resolve_name(fi.module, src.value.id)
                if isinstance(r, tuple) and r[0] == "const":
                    base = r[1].constants[r[2]]
                elif src.value.id in fi.module.constants:
                    base = fi.module.constants[src.value.id]
                sl = src.slice
                bounds = []
                okb = True
                for b in (sl.lower, sl.upper, sl.step):
                    if b is None:
                        bounds.append(None)
                    elif isinstance(b, ast.Constant) and isinstance(b.value, int):
                        bounds.append(b.value)
                    elif isinstance(b, ast.UnaryOp) and isinstance(b.op, ast.USub) and isinstance(b.operand, ast.Constant) and isinstance(b.operand.value, int):
                        bounds.append(-b.operand.value)
                    else:
                        okb = False
                if base is not None and okb and isinstance(base, (ast.Tuple, ast.List)):
                    src = type(base)(elts=base.elts[slice(*bounds)], ctx=ast.Load())
                else:
                    break
            elif isinstance(src, ast.Name):
                r = self.prog.resolve_name(fi.module, src.id)
                if isinstance(r, tuple) and r[0] == "const":
                    src = r[1].constants[r[2]]
                elif src.id in fi.module.constants:
                    src = fi.module.constants[src.id]
                else:
                    break
            else:
                break
        # a table of (key, value) pairs unpacked by the loop target
        if isinstance(src, (ast.List, ast.Tuple)) and src.elts and all(isinstance(e, (ast.Tuple, ast.List)) and len(e.elts) == 2 and isinstance(e.elts[0], ast.Constant)
                                                                     and isinstance(e.elts[0].value, str) for e in src.elts):
            if d.path == (0,):
                return {e.elts[0].value: e.elts[1] for e in src.elts}
            return None
        if isinstance(src, ast.Dict):
            if want_items and d.path != (0,):
                return None
            keys = [kk.value for kk in src.keys if isinstance(kk, ast.Constant)]
            if len(keys) != len(src.keys):
                return None
            return keys
        if isinstance(src, (ast.List, ast.Tuple, ast.Set)):
            keys = [kk.value for kk in src.elts if isinstance(kk, ast.Constant) and isinstance(kk.value, str)]
            if len(keys) != len(src.elts):
                return None
            return keys
        return None

    # ----------------------------------------------------------------- query
    def writers(self, key: str) -> List[KeyAccess]:
        return [a for a in self.accesses if a.mode == "write" and a.key == key]

    def readers(self, key: str, space: Optional[str] = None) -> List[KeyAccess]:
        return [a for a in self.accesses if a.mode == "read" and a.key == key and (space is None or a.space == space)]

    def in_func(self, fi: FuncInfo, include_nested: bool = True) -> List[KeyAccess]:
        out = []
        for a in self.accesses:
            f = a.func
            while f is not None:
                if f is fi:
                    out.append(a)
                    break
                f = f.parent if include_nested else None
        return out

    def transitive_writes(self, cg: CallGraph, fi: FuncInfo) -> Dict[str, List[KeyAccess]]:
        out: Dict[str, List[KeyAccess]] = {}
        for f in cg.reachable([fi]):
            for a in self.accesses:
                if a.func is f and a.mode == "write":
                    out.setdefault(a.key, []).append(a)
        return out


# ---------------------------------------------------------------------------
# RNG effects
# ---------------------------------------------------------------------------

DRAW_FUNCS = {
    "rand", "randn", "random", "random_sample", "choice", "gamma", "normal", "uniform", "randint",
    "standard_normal", "standard_gamma", "multivariate_normal", "permutation", "shuffle", "exponential",
    "chisquare", "beta", "binomial", "poisson", "multinomial", "sample", "ranf", "standard_t", "dirichlet",
    "bytes", "integers", "standard_exponential", "laplace", "lognormal",
}
SEED_FUNCS = {"seed", "set_state"}
GENERATOR_CTORS = {"RandomState", "default_rng", "Generator", "SeedSequence", "PCG64", "MT19937"}


@dataclass
class RngSite:
    func: FuncInfo
    call: ast.Call
    kind: str  # 'draw' | 'seed' | 'generator' | 'foreign-entropy'
    name: str  # canonical external name

    @property
    def loc(self) -> str:
        return self.func.loc(self.call)


class RngEffects:
    def __init__(self, prog: Program, res: Resolver):
        self.prog = prog
        self.res = res
        self.sites: List[RngSite] = []
        self._scan()

    def _scan(self):
        for fi in self.prog.functions.values():
            for n in walk_no_nested(fi.node):
                if not isinstance(n, ast.Call):
                    continue
                name = self.res.external_name(fi, n)
                if not name:
                    continue
                parts = name.split(".")
                last = parts[-1]
                if name.startswith("numpy.random."):
                    if last in SEED_FUNCS and len(parts) == 3:
                        self.sites.append(RngSite(fi, n, "seed", name))
                    elif last in GENERATOR_CTORS:
                        self.sites.append(RngSite(fi, n, "generator", name))
                    elif last in DRAW_FUNCS:
                        self.sites.append(RngSite(fi, n, "draw", name))
                    else:
                        self.sites.append(RngSite(fi, n, "other-numpy-random", name))
                elif parts[0] == "random" and len(parts) >= 2:
                    self.sites.append(RngSite(fi, n, "foreign-entropy", name))
                elif name in ("os.urandom", "time.time", "time.time_ns", "time.perf_counter", "os.getpid", "uuid.uuid4") or parts[0] == "secrets":
                    self.sites.append(RngSite(fi, n, "foreign-entropy", name))
                elif parts[0] == "scipy" and "stats" in parts and last in ("rvs",):
                    self.sites.append(RngSite(fi, n, "draw", name))

    def draws(self) -> List[RngSite]:
        return [s for s in self.sites if s.kind == "draw"]

    def seeds(self) -> List[RngSite]:
        return [s for s in self.sites if s.kind == "seed"]
