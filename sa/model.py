"""Program model: loads every tempest/**/*.py of the working tree (no import, no
execution) and builds symbol tables: modules, classes, functions (with nested
closures), import aliases, class hierarchy, decorators.

Everything downstream (CFG, def-use, call graph, effects, rules) works on this
model.  A parse failure or a missing package is an AnalysisError (exit 2).
"""
from __future__ import annotations

import ast
import hashlib
import os
from dataclasses import dataclass, field
from typing import Dict, List, Optional, Tuple


class AnalysisError(Exception):
    """The analysis itself cannot decide (anchor vanished, unmodelled construct,
    fixture failure).  Never a violation of tempest: exit code 2."""


def repo_root() -> str:
    return os.environ.get("TEMPEST_REPO", "/repo")


def read_sources(root: str) -> Dict[str, str]:
    pkg = os.path.join(root, "tempest")
    if not os.path.isdir(pkg):
        raise AnalysisError(f"package directory not found: {pkg}")
    out: Dict[str, str] = {}
    for d, dirs, fs in os.walk(pkg):
        dirs[:] = sorted(x for x in dirs if x != "__pycache__")
        for f in sorted(fs):
            if f.endswith(".py"):
                path = os.path.join(d, f)
                with open(path, "r", encoding="utf-8") as fh:
                    out[os.path.relpath(path, root)] = fh.read()
    if not out:
        raise AnalysisError("no python files under tempest/")
    return out


@dataclass
class FuncInfo:
    qualname: str  # tempest.core:SamplerCore.run_sampling
    module: "ModuleInfo"
    cls: Optional["ClassInfo"]
    node: ast.FunctionDef
    parent: Optional["FuncInfo"] = None  # enclosing function for closures
    nested: Dict[str, "FuncInfo"] = field(default_factory=dict)

    @property
    def name(self) -> str:
        return self.node.name

    @property
    def short(self) -> str:
        return self.qualname.split(":", 1)[1]

    @property
    def file(self) -> str:
        return self.module.relpath

    @property
    def decorators(self) -> List[str]:
        return [dotted(d.func if isinstance(d, ast.Call) else d) for d in self.node.decorator_list]

    @property
    def is_classmethod(self) -> bool:
        return "classmethod" in self.decorators

    @property
    def is_staticmethod(self) -> bool:
        return "staticmethod" in self.decorators

    @property
    def is_property(self) -> bool:
        return "property" in self.decorators

    @property
    def is_abstract(self) -> bool:
        return any(d.endswith("abstractmethod") for d in self.decorators)

    @property
    def params(self) -> List[str]:
        a = self.node.args
        out = [x.arg for x in a.posonlyargs + a.args]
        if a.vararg:
            out.append(a.vararg.arg)
        out += [x.arg for x in a.kwonlyargs]
        if a.kwarg:
            out.append(a.kwarg.arg)
        return out

    def param_default(self, name: str) -> Optional[ast.expr]:
        a = self.node.args
        pos = a.posonlyargs + a.args
        defaults = [None] * (len(pos) - len(a.defaults)) + list(a.defaults)
        for p, d in zip(pos, defaults):
            if p.arg == name:
                return d
        for p, d in zip(a.kwonlyargs, a.kw_defaults):
            if p.arg == name:
                return d
        return None

    def param_annotation(self, name: str) -> Optional[ast.expr]:
        a = self.node.args
        for p in a.posonlyargs + a.args + a.kwonlyargs:
            if p.arg == name:
                return p.annotation
        return None

    def loc(self, node: Optional[ast.AST] = None) -> str:
        n = node if node is not None else self.node
        return f"{self.file}:{getattr(n, 'lineno', '?')}"


@dataclass
class ClassInfo:
    name: str
    module: "ModuleInfo"
    node: ast.ClassDef
    methods: Dict[str, FuncInfo] = field(default_factory=dict)

    @property
    def qualname(self) -> str:
        return f"{self.module.name}:{self.name}"

    @property
    def base_names(self) -> List[str]:
        return [dotted(b) for b in self.node.bases]

    @property
    def decorators(self) -> List[ast.expr]:
        return list(self.node.decorator_list)

    @property
    def is_frozen_dataclass(self) -> bool:
        for d in self.node.decorator_list:
            if isinstance(d, ast.Call) and dotted(d.func).split(".")[-1] == "dataclass":
                for kw in d.keywords:
                    if kw.arg == "frozen" and isinstance(kw.value, ast.Constant) and kw.value.value is True:
                        return True
        return False

    @property
    def is_dataclass(self) -> bool:
        for d in self.node.decorator_list:
            f = d.func if isinstance(d, ast.Call) else d
            if dotted(f).split(".")[-1] == "dataclass":
                return True
        return False

    def fields(self) -> Dict[str, ast.AnnAssign]:
        out = {}
        for s in self.node.body:
            if isinstance(s, ast.AnnAssign) and isinstance(s.target, ast.Name):
                out[s.target.id] = s
        return out

    def class_constants(self) -> Dict[str, ast.expr]:
        out = {}
        for s in self.node.body:
            if isinstance(s, ast.Assign) and len(s.targets) == 1 and isinstance(s.targets[0], ast.Name):
                out[s.targets[0].id] = s.value
        return out


@dataclass
class ModuleInfo:
    name: str  # tempest.core
    path: str
    relpath: str  # tempest/core.py
    source: str
    tree: ast.Module
    classes: Dict[str, ClassInfo] = field(default_factory=dict)
    functions: Dict[str, FuncInfo] = field(default_factory=dict)
    # alias -> fully dotted target ("np" -> "numpy", "StateManager" -> "tempest.state_manager.StateManager")
    imports: Dict[str, str] = field(default_factory=dict)
    constants: Dict[str, ast.expr] = field(default_factory=dict)

    @property
    def package(self) -> str:
        if self.relpath.endswith("__init__.py"):
            return self.name
        return self.name.rsplit(".", 1)[0]


def dotted(node: ast.AST) -> str:
    """a.b.c for Name/Attribute chains, '' otherwise."""
    parts = []
    while isinstance(node, ast.Attribute):
        parts.append(node.attr)
        node = node.value
    if isinstance(node, ast.Name):
        parts.append(node.id)
        return ".".join(reversed(parts))
    return ""


def norm_text(node: ast.AST) -> str:
    """Normalised text of a construct: unparsed, whitespace-free.  Used as the
    construct key of a finding (never a line number)."""
    try:
        txt = ast.unparse(node)
    except Exception:  # pragma: no cover
        txt = ast.dump(node)
    return "".join(txt.split())


class Program:
    def __init__(self, root: Optional[str] = None, sources: Optional[Dict[str, str]] = None):
        """root: directory containing the `tempest` package (default: the live
        tree).  sources: optional in-memory {relpath: source} map (used for
        variants of the live tree in the checker's self-tests); when given, no
        file is read."""
        self.root = root or repo_root()
        self.modules: Dict[str, ModuleInfo] = {}
        self.functions: Dict[str, FuncInfo] = {}
        self.classes: Dict[str, ClassInfo] = {}
        if sources is None:
            sources = read_sources(self.root)
        self.sources = dict(sources)
        self._load()

    # ------------------------------------------------------------------ load
    def _load(self) -> None:
        trees = {}
        for rel in sorted(self.sources):
            try:
                trees[rel] = ast.parse(self.sources[rel], filename=rel)
                canonical_none_tests(trees[rel])
            except SyntaxError as e:
                raise AnalysisError(f"cannot parse {rel}: {e}")
        canonical_package_forms(trees)
        for rel in sorted(self.sources):
            src = self.sources[rel]
            path = os.path.join(self.root, rel)
            modname = rel[:-3].replace(os.sep, ".")
            if modname.endswith(".__init__"):
                modname = modname[: -len(".__init__")]
            tree = trees[rel]
            mod = ModuleInfo(modname, path, rel, src, tree)
            self.modules[modname] = mod
            self._index_module(mod)

    def _index_module(self, mod: ModuleInfo) -> None:
        for stmt in ast.walk(mod.tree):
            if isinstance(stmt, ast.Import):
                for a in stmt.names:
                    mod.imports[a.asname or a.name.split(".")[0]] = a.name if a.asname else a.name.split(".")[0]
            elif isinstance(stmt, ast.ImportFrom):
                base = stmt.module or ""
                if stmt.level:
                    pkg_parts = mod.package.split(".")
                    if stmt.level > 1:
                        pkg_parts = pkg_parts[: -(stmt.level - 1)]
                    base = ".".join(pkg_parts + ([stmt.module] if stmt.module else []))
                for a in stmt.names:
                    mod.imports[a.asname or a.name] = f"{base}.{a.name}"
        for stmt in mod.tree.body:
            if isinstance(stmt, (ast.FunctionDef, ast.AsyncFunctionDef)):
                fi = FuncInfo(f"{mod.name}:{stmt.name}", mod, None, stmt)
                mod.functions[stmt.name] = fi
                self._register(fi)
            elif isinstance(stmt, ast.ClassDef):
                ci = ClassInfo(stmt.name, mod, stmt)
                mod.classes[stmt.name] = ci
                self.classes[ci.qualname] = ci
                for s in stmt.body:
                    if isinstance(s, (ast.FunctionDef, ast.AsyncFunctionDef)):
                        fi = FuncInfo(f"{mod.name}:{stmt.name}.{s.name}", mod, ci, s)
                        # property setters etc. would collide; tempest has none
                        ci.methods[s.name] = fi
                        self._register(fi)
            elif isinstance(stmt, ast.Assign) and len(stmt.targets) == 1 and isinstance(stmt.targets[0], ast.Name):
                mod.constants[stmt.targets[0].id] = stmt.value
            elif isinstance(stmt, ast.AnnAssign) and isinstance(stmt.target, ast.Name) and stmt.value is not None:
                mod.constants[stmt.target.id] = stmt.value

    def _register(self, fi: FuncInfo) -> None:
        self.functions[fi.qualname] = fi
        self._index_nested(fi)

    def _index_nested(self, fi: FuncInfo) -> None:
        for inner in _direct_nested_defs(fi.node):
            sub = FuncInfo(f"{fi.qualname}.<{inner.name}>", fi.module, fi.cls, inner, parent=fi)
            fi.nested[inner.name] = sub
            self.functions[sub.qualname] = sub
            self._index_nested(sub)

    # ---------------------------------------------------------------- lookup
    def module(self, name: str) -> ModuleInfo:
        if name not in self.modules:
            raise AnalysisError(f"anchor module vanished: {name}")
        return self.modules[name]

    def cls(self, qual: str) -> ClassInfo:
        if qual not in self.classes:
            raise AnalysisError(f"anchor class vanished: {qual}")
        return self.classes[qual]

    def func(self, qual: str) -> FuncInfo:
        if qual not in self.functions:
            raise AnalysisError(f"anchor function vanished: {qual}")
        return self.functions[qual]

    def find_class(self, name: str) -> Optional[ClassInfo]:
        """Class by bare name (unique in tempest)."""
        hits = [c for c in self.classes.values() if c.name == name]
        if len(hits) == 1:
            return hits[0]
        return None

    def resolve_name(self, mod: ModuleInfo, name: str):
        """Resolve a bare or dotted name used in `mod` to a ClassInfo/FuncInfo or
        an external dotted string."""
        head, _, rest = name.partition(".")
        if head in mod.classes and not rest:
            return mod.classes[head]
        if head in mod.functions and not rest:
            return mod.functions[head]
        target = mod.imports.get(head)
        if target is None:
            return None
        full = target + ("." + rest if rest else "")
        # internal?
        modname, _, attr = full.rpartition(".")
        if modname in self.modules:
            m = self.modules[modname]
            if attr in m.classes:
                return m.classes[attr]
            if attr in m.functions:
                return m.functions[attr]
            if attr in m.constants:
                return ("const", m, attr)
            # re-export through a package __init__
            if attr in m.imports:
                return self.resolve_name(m, attr)
        if full in self.modules:
            return self.modules[full]
        return full  # external dotted name, e.g. numpy.random.seed

    def subclasses(self, ci: ClassInfo) -> List[ClassInfo]:
        out = []
        for c in self.classes.values():
            if c is ci:
                continue
            if self.is_subclass(c, ci):
                out.append(c)
        return out

    def bases(self, ci: ClassInfo) -> List[ClassInfo]:
        out = []
        for b in ci.base_names:
            r = self.resolve_name(ci.module, b)
            if isinstance(r, ClassInfo):
                out.append(r)
        return out

    def is_subclass(self, c: ClassInfo, base: ClassInfo) -> bool:
        seen = set()
        todo = [c]
        while todo:
            x = todo.pop()
            if x.qualname in seen:
                continue
            seen.add(x.qualname)
            if x is base:
                return True
            todo.extend(self.bases(x))
        return False

    def mro_lookup(self, ci: ClassInfo, meth: str) -> Optional[FuncInfo]:
        todo = [ci]
        seen = set()
        while todo:
            x = todo.pop(0)
            if x.qualname in seen:
                continue
            seen.add(x.qualname)
            if meth in x.methods:
                return x.methods[meth]
            todo.extend(self.bases(x))
        return None

    def digest(self) -> str:
        h = hashlib.sha256()
        for name in sorted(self.modules):
            h.update(name.encode())
            h.update(self.modules[name].source.encode())
        return h.hexdigest()[:16]

    def stats(self) -> dict:
        return {
            "modules": len(self.modules),
            "classes": len(self.classes),
            "functions": len(self.functions),
            "digest": self.digest(),
            "root": self.root,
        }


def _direct_nested_defs(fn: ast.AST) -> List[ast.FunctionDef]:
    """Function definitions nested directly (at any statement depth, but not
    inside another nested def/class) in fn."""
    out: List[ast.FunctionDef] = []

    def visit(stmts):
        for s in stmts:
            if isinstance(s, (ast.FunctionDef, ast.AsyncFunctionDef)):
                out.append(s)
                continue
            if isinstance(s, ast.ClassDef):
                continue
            for fld in ("body", "orelse", "finalbody"):
                sub = getattr(s, fld, None)
                if isinstance(sub, list) and sub and isinstance(sub[0], ast.stmt):
                    visit(sub)
            if isinstance(s, ast.Try):
                for h in s.handlers:
                    visit(h.body)

    visit(fn.body)
    return out


def walk_no_nested(node: ast.AST):
    """ast.walk that does not descend into nested function/class definitions or
    lambdas (but yields the root even if it is a def)."""
    todo = [node]
    first = True
    while todo:
        n = todo.pop()
        if not first and isinstance(n, (ast.FunctionDef, ast.AsyncFunctionDef, ast.ClassDef, ast.Lambda)):
            continue
        first = False
        yield n
        todo.extend(ast.iter_child_nodes(n))



_UFUNC_OPS = {"numpy.divide": ast.Div, "numpy.true_divide": ast.Div, "numpy.multiply": ast.Mult, "numpy.add": ast.Add, "numpy.subtract": ast.Sub,
              "numpy.power": ast.Pow, "numpy.float_power": ast.Pow, "numpy.floor_divide": ast.FloorDiv, "numpy.mod": ast.Mod, "numpy.remainder": ast.Mod}


def ufunc_as_operator(name: Optional[str], call: ast.Call) -> Optional[ast.expr]:
    """`np.divide(a, b)` is `a / b`, `np.multiply(a, b)` is `a * b`, ... `np.negative(a)` is `-a`: the operator node the call
    stands for, for every abstract interpreter to evaluate with its operator rules (one reading of arithmetic, whatever the
    spelling).  Only the plain two-argument form: `out=` / `where=` / `dtype=` change what the call does."""
    if call.keywords or any(isinstance(a, ast.Starred) for a in call.args):
        return None
    if name in _UFUNC_OPS and len(call.args) == 2:
        return ast.copy_location(ast.BinOp(left=call.args[0], op=_UFUNC_OPS[name](), right=call.args[1]), call)
    if name == "numpy.negative" and len(call.args) == 1:
        return ast.copy_location(ast.UnaryOp(op=ast.USub(), operand=call.args[0]), call)
    return None



def canonical_none_tests(tree: ast.Module) -> int:
    """Every spelling of the test "X is None" is read as `X is None` / `X is not None`, at load time, in place and with
    the positions of the original nodes -- so that no rule can depend on which of the equivalent spellings was written:

        None is X                      -> X is None             None is not X                -> X is not None
        not (X is None)                -> X is not None         not (X is not None)          -> X is None
        isinstance(X, type(None))      -> X is None             not isinstance(X, type(None)) -> X is not None

    These are identities of the language (`is` yields a bool; `type(None)` has the single instance None) as long as the
    module does not re-bind `isinstance` / `type`, which is checked.  `X == None` is *not* included: it calls `__eq__`
    and is elementwise on arrays."""
    rebound = {n.id for n in ast.walk(tree) if isinstance(n, ast.Name) and isinstance(n.ctx, (ast.Store, ast.Del))} | \
              {a.arg for f in ast.walk(tree) if isinstance(f, (ast.FunctionDef, ast.AsyncFunctionDef, ast.Lambda)) for a in f.args.args + f.args.kwonlyargs}
    builtins_ok = not ({"isinstance", "type"} & rebound)
    count = [0]

    def is_none(e):
        return isinstance(e, ast.Constant) and e.value is None

    def none_cmp(e):
        return isinstance(e, ast.Compare) and len(e.ops) == 1 and isinstance(e.ops[0], (ast.Is, ast.IsNot)) and is_none(e.comparators[0]) and not is_none(e.left)

    class T(ast.NodeTransformer):
        def visit_Compare(self, node):
            self.generic_visit(node)
            if len(node.ops) == 1 and isinstance(node.ops[0], (ast.Is, ast.IsNot)) and is_none(node.left) and not is_none(node.comparators[0]):
                count[0] += 1
                return ast.copy_location(ast.Compare(left=node.comparators[0], ops=node.ops, comparators=[node.left]), node)
            return node

        def visit_Call(self, node):
            self.generic_visit(node)
            if builtins_ok and isinstance(node.func, ast.Name) and node.func.id == "isinstance" and len(node.args) == 2 and not node.keywords:
                t = node.args[1]
                if isinstance(t, ast.Call) and isinstance(t.func, ast.Name) and t.func.id == "type" and len(t.args) == 1 and not t.keywords and is_none(t.args[0]) \
                        and not isinstance(node.args[0], ast.Starred):
                    count[0] += 1
                    return ast.copy_location(ast.Compare(left=node.args[0], ops=[ast.Is()], comparators=[ast.copy_location(ast.Constant(value=None), node)]), node)
            return node

        def visit_IfExp(self, node):
            # A if not c else B  ==  B if c else A   (one orientation of a conditional expression)
            self.generic_visit(node)
            if isinstance(node.test, ast.UnaryOp) and isinstance(node.test.op, ast.Not):
                count[0] += 1
                return ast.copy_location(ast.IfExp(test=node.test.operand, body=node.orelse, orelse=node.body), node)
            return node

        def visit_UnaryOp(self, node):
            self.generic_visit(node)
            if isinstance(node.op, ast.Not) and none_cmp(node.operand):
                count[0] += 1
                c = node.operand
                return ast.copy_location(ast.Compare(left=c.left, ops=[ast.IsNot() if isinstance(c.ops[0], ast.Is) else ast.Is()], comparators=c.comparators), node)
            return node

    T().visit(tree)

    # --- emptiness tests on len(): one spelling per meaning (identities on non-negative integers)
    len_ok = "len" not in rebound

    def is_len(e):
        return len_ok and isinstance(e, ast.Call) and isinstance(e.func, ast.Name) and e.func.id == "len" and len(e.args) == 1 and not e.keywords

    def intc(e, v):
        return isinstance(e, ast.Constant) and not isinstance(e.value, bool) and isinstance(e.value, int) and e.value == v

    class L(ast.NodeTransformer):
        def visit_Compare(self, node):
            self.generic_visit(node)
            if len(node.ops) != 1:
                return node
            l, op, r = node.left, node.ops[0], node.comparators[0]
            if is_len(r) and isinstance(l, ast.Constant):  # 0 == len(X): operands swapped, operator mirrored
                mirror = {ast.Eq: ast.Eq, ast.NotEq: ast.NotEq, ast.Lt: ast.Gt, ast.Gt: ast.Lt, ast.LtE: ast.GtE, ast.GtE: ast.LtE}.get(type(op))
                if mirror is None:
                    return node
                l, op, r = r, mirror(), l
                count[0] += 1
            if not is_len(l):
                return node
            empty = (isinstance(op, ast.Lt) and intc(r, 1)) or (isinstance(op, ast.LtE) and intc(r, 0)) or (isinstance(op, ast.Eq) and intc(r, 0))
            nonempty = (isinstance(op, ast.GtE) and intc(r, 1)) or (isinstance(op, ast.NotEq) and intc(r, 0)) or (isinstance(op, ast.Gt) and intc(r, 0))
            if empty or nonempty:
                if not ((isinstance(op, ast.Eq) or isinstance(op, ast.Gt)) and l is node.left):
                    count[0] += 1
                return ast.copy_location(ast.Compare(left=l, ops=[ast.Eq() if empty else ast.Gt()], comparators=[ast.copy_location(ast.Constant(value=0), node)]), node)
            if l is not node.left:
                return ast.copy_location(ast.Compare(left=l, ops=[op], comparators=[r]), node)
            return node

        def visit_UnaryOp(self, node):
            self.generic_visit(node)
            if isinstance(node.op, ast.Not) and is_len(node.operand):
                count[0] += 1
                return ast.copy_location(ast.Compare(left=node.operand, ops=[ast.Eq()], comparators=[ast.copy_location(ast.Constant(value=0), node)]), node)
            return node

    L().visit(tree)

    # --- the axis of a numpy reduction is read as the keyword `axis=`, also when it was passed positionally
    np_names = set()
    for st in ast.walk(tree):
        if isinstance(st, ast.Import):
            for a in st.names:
                if a.name == "numpy":
                    np_names.add(a.asname or "numpy")
    np_names -= rebound
    RED = {"sum", "mean", "max", "min", "amax", "amin", "argmax", "argmin", "all", "any", "prod", "cumsum", "cumprod", "std", "var", "median", "nansum", "nanmean", "nanmax", "nanmin"}

    class A(ast.NodeTransformer):
        def visit_Call(self, node):
            self.generic_visit(node)
            f = node.func
            if any(k.arg in ("axis", None) for k in node.keywords) or any(isinstance(a, ast.Starred) for a in node.args):
                return node
            if isinstance(f, ast.Attribute) and isinstance(f.value, ast.Name) and f.value.id in np_names and f.attr in RED and len(node.args) == 2:
                count[0] += 1
                node.keywords = [ast.keyword(arg="axis", value=node.args[1])] + list(node.keywords)
                node.args = node.args[:1]
            elif isinstance(f, ast.Attribute) and f.attr == "reduce" and isinstance(f.value, ast.Attribute) and isinstance(f.value.value, ast.Name) and f.value.value.id in np_names and len(node.args) == 2:
                count[0] += 1  # np.<ufunc>.reduce(a, K)
                node.keywords = [ast.keyword(arg="axis", value=node.args[1])] + list(node.keywords)
                node.args = node.args[:1]
            elif isinstance(f, ast.Attribute) and f.attr in RED and len(node.args) == 1 and not (isinstance(f.value, ast.Name) and f.value.id in np_names) \
                    and ((isinstance(node.args[0], ast.Constant) and isinstance(node.args[0].value, int) and not isinstance(node.args[0].value, bool))
                         or (isinstance(node.args[0], ast.UnaryOp) and isinstance(node.args[0].op, ast.USub) and isinstance(node.args[0].operand, ast.Constant))):
                count[0] += 1  # x.sum(0) / x.max(-1)
                node.keywords = [ast.keyword(arg="axis", value=node.args[0])] + list(node.keywords)
                node.args = []
            return node

    A().visit(tree)

    # --- a temporary that is bound and consumed by the very next statement, as that statement's whole value, is the value:
    #     t = f(x); a, b = t   ->   a, b = f(x)          r = e; return r   ->   return e
    # (the name is assigned once and read once in the function, so nothing else can observe it; adjacent, so no evaluation
    #  is reordered)
    def fold_block(stmts, uses):
        out = []
        i = 0
        while i < len(stmts):
            st = stmts[i]
            nxt = stmts[i + 1] if i + 1 < len(stmts) else None
            if (isinstance(st, ast.Assign) and len(st.targets) == 1 and isinstance(st.targets[0], ast.Name) and nxt is not None
                    and uses.get(st.targets[0].id) in ((1, 1), "pairs")
                    and isinstance(nxt, (ast.Assign, ast.Return)) and isinstance(nxt.value, ast.Name) and nxt.value.id == st.targets[0].id
                    and (isinstance(nxt, ast.Return) or (len(nxt.targets) == 1 and isinstance(nxt.targets[0], (ast.Tuple, ast.List)) and isinstance(st.value, ast.Call)))):
                nxt.value = st.value
                count[0] += 1
                out.append(nxt)
                i += 2
                continue
            for fld in ("body", "orelse", "finalbody"):
                sub = getattr(st, fld, None)
                if isinstance(sub, list) and sub and isinstance(sub[0], ast.stmt) and not isinstance(st, (ast.FunctionDef, ast.AsyncFunctionDef, ast.ClassDef)):
                    setattr(st, fld, fold_block(sub, uses))
            if isinstance(st, ast.Try):
                for h in st.handlers:
                    h.body = fold_block(h.body, uses)
            out.append(st)
            i += 1
        return out

    for fn in [n for n in ast.walk(tree) if isinstance(n, (ast.FunctionDef, ast.AsyncFunctionDef))]:
        uses = {}
        nested_names = set()
        for x in ast.walk(fn):
            if isinstance(x, (ast.FunctionDef, ast.AsyncFunctionDef, ast.Lambda)) and x is not fn:
                nested_names |= {y.id for y in ast.walk(x) if isinstance(y, ast.Name)}
        for x in ast.walk(fn):
            if isinstance(x, ast.Name):
                s_, l_ = uses.get(x.id, (0, 0))
                uses[x.id] = (s_ + 1, l_) if isinstance(x.ctx, (ast.Store, ast.Del)) else (s_, l_ + 1)
            elif isinstance(x, (ast.Global, ast.Nonlocal)):
                nested_names |= set(x.names)
        params = {a.arg for a in fn.args.args + fn.args.kwonlyargs + fn.args.posonlyargs}
        # a temporary re-used for several such pairs (`_ret = e1; return _ret ... _ret = e2; return _ret`): every read
        # directly follows its own binding, so each pair folds on its own
        pair_count = {}

        def count_pairs(stmts):
            for i_, st_ in enumerate(stmts):
                nx_ = stmts[i_ + 1] if i_ + 1 < len(stmts) else None
                if isinstance(st_, ast.Assign) and len(st_.targets) == 1 and isinstance(st_.targets[0], ast.Name) and isinstance(nx_, (ast.Assign, ast.Return)) \
                        and isinstance(nx_.value, ast.Name) and nx_.value.id == st_.targets[0].id \
                        and not any(isinstance(y, ast.Name) and y.id == st_.targets[0].id for y in ast.walk(st_.value)):
                    pair_count[st_.targets[0].id] = pair_count.get(st_.targets[0].id, 0) + 1
                for fld_ in ("body", "orelse", "finalbody"):
                    sub_ = getattr(st_, fld_, None)
                    if isinstance(sub_, list) and sub_ and isinstance(sub_[0], ast.stmt) and not isinstance(st_, (ast.FunctionDef, ast.AsyncFunctionDef, ast.ClassDef)):
                        count_pairs(sub_)
                if isinstance(st_, ast.Try):
                    for h_ in st_.handlers:
                        count_pairs(h_.body)

        count_pairs(fn.body)
        for nm_, k_ in pair_count.items():
            if uses.get(nm_) == (k_, k_) and k_ > 1:
                uses[nm_] = "pairs"
        for nm_ in list(uses):
            if nm_ in nested_names or nm_ in params:
                uses[nm_] = (9, 9)
        fn.body = fold_block(fn.body, uses)
    if count[0]:
        ast.fix_missing_locations(tree)
    return count[0]



def init_only_attributes(trees) -> set:
    """Attribute names A such that every store to `<x>.A` anywhere in the package is `self.A = ...` inside an `__init__`,
    no class defines A as a method / property / class attribute, and the package uses no setattr / delattr."""
    stored_in_init, stored_elsewhere, defined = set(), set(), set()

    def walk(node, in_init):
        for ch in ast.iter_child_nodes(node):
            ii = in_init
            if isinstance(ch, (ast.FunctionDef, ast.AsyncFunctionDef)):
                ii = ch.name == "__init__"
            if isinstance(ch, ast.Attribute) and isinstance(ch.ctx, (ast.Store, ast.Del)):
                ok = ii and isinstance(ch.ctx, ast.Store) and isinstance(ch.value, ast.Name) and ch.value.id == "self"
                (stored_in_init if ok else stored_elsewhere).add(ch.attr)
            if isinstance(ch, ast.Call) and isinstance(ch.func, ast.Name) and ch.func.id in ("setattr", "delattr"):
                stored_elsewhere.add("*")
            walk(ch, ii)

    for tree in trees.values():
        for cls in ast.walk(tree):
            if isinstance(cls, ast.ClassDef):
                for st in cls.body:
                    if isinstance(st, (ast.FunctionDef, ast.AsyncFunctionDef)):
                        defined.add(st.name)
                    elif isinstance(st, (ast.Assign, ast.AnnAssign)):
                        for t in (st.targets if isinstance(st, ast.Assign) else [st.target]):
                            defined |= {n.id for n in ast.walk(t) if isinstance(n, ast.Name)}
        walk(tree, False)
    if "*" in stored_elsewhere:
        return set()
    return stored_in_init - stored_elsewhere - defined


def canonical_package_forms(trees) -> int:
    """Load-time canonical forms that need the whole package (or are not about None / len / axis):

    1. `T = T + c` / `T = T - c` with an integer literal c and T a plain name or `self.<attr>` is read as `T += c` /
       `T -= c` (a counter; for an integer the two are the same thing, and an array is never stepped by an integer literal
       through a re-binding in this package -- the variant that writes every counter the long way is validated against
       the pinned suite).
    2. A local that is bound exactly once, by `v = self.A` where A is only ever assigned in constructors, is that attribute:
       every read of v (in a method other than __init__, `self` being the first parameter and never re-bound) is read as
       `self.A` and the binding is dropped.  Exact: nothing can re-assign A between the binding and the read."""
    count = 0
    attrs = init_only_attributes(trees)

    def same_place(a, b):
        return ast.dump(a) == ast.dump(b)

    for tree in trees.values():
        # 1. counters
        for st in [n for n in ast.walk(tree) if isinstance(n, ast.Assign)]:
            if len(st.targets) != 1:
                continue
            t, v = st.targets[0], st.value
            if not (isinstance(t, ast.Name) or (isinstance(t, ast.Attribute) and isinstance(t.value, ast.Name))):
                continue
            if isinstance(v, ast.BinOp) and isinstance(v.op, (ast.Add, ast.Sub)) and isinstance(v.right, ast.Constant) and type(v.right.value) is int:
                tl = ast.Name(id=t.id, ctx=ast.Load()) if isinstance(t, ast.Name) else ast.Attribute(value=ast.Name(id=t.value.id, ctx=ast.Load()), attr=t.attr, ctx=ast.Load())
                if same_place(tl, v.left):
                    st.__class__ = ast.AugAssign
                    st.target, st.op, st.value = t, v.op, v.right
                    del st.targets
                    count += 1
        # 2. local aliases of constructor-only attributes
        for cls in [n for n in ast.walk(tree) if isinstance(n, ast.ClassDef)]:
            for fn in cls.body:
                if not isinstance(fn, ast.FunctionDef) or fn.name == "__init__" or not fn.args.args or fn.args.args[0].arg != "self":
                    continue
                if any(isinstance(d, ast.Name) and d.id in ("staticmethod", "classmethod") for d in fn.decorator_list):
                    continue
                names = [x for x in ast.walk(fn) if isinstance(x, ast.Name)]
                if any(x.id == "self" and isinstance(x.ctx, (ast.Store, ast.Del)) for x in names):
                    continue
                params = {a.arg for f in ast.walk(fn) if isinstance(f, (ast.FunctionDef, ast.AsyncFunctionDef, ast.Lambda)) for a in
                          f.args.args + f.args.kwonlyargs + f.args.posonlyargs + ([f.args.vararg] if f.args.vararg else []) + ([f.args.kwarg] if f.args.kwarg else [])}
                if any(isinstance(f, (ast.FunctionDef, ast.AsyncFunctionDef, ast.Lambda)) and f is not fn and any(a.arg == "self" for a in f.args.args) for f in ast.walk(fn)):
                    continue
                declared = {n for x in ast.walk(fn) if isinstance(x, (ast.Global, ast.Nonlocal)) for n in x.names}
                stores = {}
                for x in names:
                    if isinstance(x.ctx, (ast.Store, ast.Del)):
                        stores[x.id] = stores.get(x.id, 0) + 1
                alias = {}
                for st in ast.walk(fn):
                    if isinstance(st, ast.Assign) and len(st.targets) == 1 and isinstance(st.targets[0], ast.Name) and isinstance(st.value, ast.Attribute) \
                            and isinstance(st.value.value, ast.Name) and st.value.value.id == "self" and st.value.attr in attrs:
                        v = st.targets[0].id
                        if stores.get(v) == 1 and v not in params and v not in declared and v != "self":
                            alias[v] = (st, st.value.attr)
                if not alias:
                    continue
                # the binding must be a statement of the function's own top-level body (it then dominates every read that
                # follows it; a read before it would be an UnboundLocalError in the original)
                alias = {v: sa for v, sa in alias.items() if any(s is sa[0] for s in fn.body)}
                if not alias:
                    continue
                drop = {id(sa[0]) for sa in alias.values()}

                class R(ast.NodeTransformer):
                    def visit_Name(self, node):
                        if isinstance(node.ctx, ast.Load) and node.id in alias:
                            return ast.copy_location(ast.Attribute(value=ast.copy_location(ast.Name(id="self", ctx=ast.Load()), node), attr=alias[node.id][1], ctx=ast.Load()), node)
                        return node

                fn.body = [R().visit(s) for s in fn.body if id(s) not in drop] or [ast.copy_location(ast.Pass(), fn.body[0])]
                count += len(alias)
    # 3. `self.A = self.P.B` in a constructor, with A, P and B all constructor-only and A stored exactly once in the package:
    #    in the other methods of that class and of its subclasses `self.P.B` is read as `self.A` (same object: neither
    #    the holder P nor its attribute B nor the alias A can be re-bound after construction)
    n_store = {}
    for tree in trees.values():
        for x in ast.walk(tree):
            if isinstance(x, ast.Attribute) and isinstance(x.ctx, ast.Store):
                n_store[x.attr] = n_store.get(x.attr, 0) + 1
    class_nodes = {c.name: c for tree in trees.values() for c in ast.walk(tree) if isinstance(c, ast.ClassDef)}
    aliases = {}

    def _related(cname):
        out, todo = set(), [cname]
        while todo:
            x = todo.pop()
            if x in out or x not in class_nodes:
                continue
            out.add(x)
            todo += [b.id for b in class_nodes[x].bases if isinstance(b, ast.Name)]
            todo += [n for n, c in class_nodes.items() if any(isinstance(b, ast.Name) and b.id == x for b in c.bases)]
        return out

    def _family_stores(cname, A):
        return sum(1 for r in _related(cname) for x in ast.walk(class_nodes[r]) if isinstance(x, ast.Attribute) and isinstance(x.ctx, ast.Store) and x.attr == A)

    for cname, c in class_nodes.items():
        for fn in c.body:
            if isinstance(fn, ast.FunctionDef) and fn.name == "__init__":
                for st in fn.body:
                    if isinstance(st, ast.Assign) and len(st.targets) == 1 and isinstance(st.targets[0], ast.Attribute) and isinstance(st.targets[0].value, ast.Name) and st.targets[0].value.id == "self" \
                            and isinstance(st.value, ast.Attribute) and isinstance(st.value.value, ast.Attribute) and isinstance(st.value.value.value, ast.Name) and st.value.value.value.id == "self":
                        A, P, B = st.targets[0].attr, st.value.value.attr, st.value.attr
                        if A in attrs and P in attrs and B in attrs and A != P and _family_stores(cname, A) == 1:
                            aliases.setdefault(cname, {})[(P, B)] = A

    def family(cname):
        out, todo = set(), [cname]
        while todo:
            x = todo.pop()
            if x in out:
                continue
            out.add(x)
            todo += [n for n, c in class_nodes.items() if any(isinstance(b, ast.Name) and b.id == x for b in c.bases)]
        return out

    for cname, table in aliases.items():
        for member in family(cname):
            c = class_nodes[member]
            for fn in c.body:
                if not isinstance(fn, ast.FunctionDef) or fn.name == "__init__" or not fn.args.args or fn.args.args[0].arg != "self":
                    continue
                if any(isinstance(x, ast.Name) and x.id == "self" and isinstance(x.ctx, (ast.Store, ast.Del)) for x in ast.walk(fn)):
                    continue

                class A3(ast.NodeTransformer):
                    n = 0

                    def visit_Attribute(self, node):
                        self.generic_visit(node)
                        if isinstance(node.ctx, ast.Load) and isinstance(node.value, ast.Attribute) and isinstance(node.value.value, ast.Name) and node.value.value.id == "self" \
                                and (node.value.attr, node.attr) in table:
                            A3.n += 1
                            return ast.copy_location(ast.Attribute(value=node.value.value, attr=table[(node.value.attr, node.attr)], ctx=ast.Load()), node)
                        return node

                fn.body = [A3().visit(s_) for s_ in fn.body]
                count += A3.n
    for tree in trees.values():
        ast.fix_missing_locations(tree)
    return count
