"""Algebraic lints (sympy): power-sum algebra for weight formulas and scalar
coefficient identities.  Pure syntax-tree-to-algebra translation of single
expressions (with uniquely defined locals inlined); nothing is executed.

Power-sum algebra.  For a non-negative vector w (the function's weight input)
    Vec(c, p)   the vector  c * w**p   (c a scalar expression)
    scalar      a sympy expression over the power sums S1, S2, ..., the length
                N and free positive symbols
`np.sum(Vec(c, p)) = c * S_p`,  `len(w) = N`.  A max-shifted exponential
`exp(logw - max(logw))` is Vec(K, 1) over the base vector exp(logw) with K a
free positive symbol, so independence of K is independence of the shift.
"""
from __future__ import annotations

import ast
import os
import sys
from typing import Dict, Optional

_sympy = None


def ensure_sympy():
    global _sympy
    if _sympy is not None:
        return _sympy
    try:
        import sympy  # noqa
    except ImportError:
        wh = "/opt/veriftools/wheels"
        for f in sorted(os.listdir(wh)) if os.path.isdir(wh) else []:
            if f.startswith(("sympy-", "mpmath-")) and f.endswith(".whl"):
                sys.path.insert(0, os.path.join(wh, f))
        import sympy  # noqa
    _sympy = sympy
    return sympy


class Undecided(Exception):
    pass


class Vec:
    def __init__(self, c, p):
        self.c = c
        self.p = p

    def __repr__(self):
        return f"Vec({self.c}, w^{self.p})"


class PowerSums:
    """Evaluator over one function body (straight-line with uniquely defined locals)."""

    def __init__(self, ext_name, weight_names=("weights", "w"), log_names=("logw",)):
        self.sp = ensure_sympy()
        self.ext_name = ext_name  # callable(ast.Call) -> canonical external name
        self.N = self.sp.Symbol("N", positive=True)
        self.K = self.sp.Symbol("K", positive=True)
        self.weight_names = set(weight_names)
        self.log_names = set(log_names)
        self.free: Dict[str, object] = {}

    def S(self, p):
        p = self.sp.nsimplify(p)
        if p == 0:
            return self.N
        return self.sp.Symbol(f"S{p}", positive=True)

    def sym(self, name):
        if name not in self.free:
            self.free[name] = self.sp.Symbol(name, positive=True)
        return self.free[name]

    def eval(self, e: ast.expr, env: Dict[str, object]):
        sp = self.sp
        if isinstance(e, ast.Constant) and isinstance(e.value, (int, float)) and not isinstance(e.value, bool):
            return sp.nsimplify(e.value)
        if isinstance(e, ast.Name):
            if e.id in env:
                return env[e.id]
            raise Undecided(f"free name {e.id}")
        if isinstance(e, ast.UnaryOp) and isinstance(e.op, ast.USub):
            v = self.eval(e.operand, env)
            return Vec(-v.c, v.p) if isinstance(v, Vec) else -v
        if isinstance(e, ast.BinOp):
            l, r = self.eval(e.left, env), self.eval(e.right, env)
            op = e.op
            if isinstance(op, ast.Mult):
                if isinstance(l, Vec) and isinstance(r, Vec):
                    return Vec(l.c * r.c, l.p + r.p)
                if isinstance(l, Vec):
                    return Vec(l.c * r, l.p)
                if isinstance(r, Vec):
                    return Vec(r.c * l, r.p)
                return l * r
            if isinstance(op, ast.Div):
                if isinstance(l, Vec) and isinstance(r, Vec):
                    return Vec(l.c / r.c, l.p - r.p)
                if isinstance(l, Vec):
                    return Vec(l.c / r, l.p)
                if isinstance(r, Vec):
                    return Vec(l / r.c, -r.p)
                return l / r
            if isinstance(op, ast.Pow):
                if isinstance(r, Vec):
                    raise Undecided("vector exponent")
                if isinstance(l, Vec):
                    return Vec(l.c ** r, l.p * r)
                return l ** r
            if isinstance(op, (ast.Add, ast.Sub)):
                s = 1 if isinstance(op, ast.Add) else -1
                if isinstance(l, Vec) and isinstance(r, Vec):
                    if l.p == r.p:
                        return Vec(l.c + s * r.c, l.p)
                    raise Undecided("sum of vectors of different powers")
                if isinstance(l, Vec) or isinstance(r, Vec):
                    raise Undecided("vector plus scalar")
                return l + s * r
            raise Undecided(type(op).__name__)
        if isinstance(e, ast.Call):
            name = self.ext_name(e) or ""
            args = e.args
            if name in ("numpy.divide", "numpy.true_divide", "numpy.multiply") and len(args) == 2 and not e.keywords:
                return self.eval(ast.BinOp(left=args[0], op=ast.Mult() if name == "numpy.multiply" else ast.Div(), right=args[1]), env)
            if name in ("numpy.sum", "builtins.sum", "sum") and args:
                if any(k.arg == "axis" and not (isinstance(k.value, ast.Constant) and k.value.value is None) for k in e.keywords) or len(args) > 1:
                    raise Undecided("axis sum")
                v = self.eval(args[0], env)
                if isinstance(v, Vec):
                    return v.c * self.S(v.p)
                raise Undecided("sum of a scalar")
            red = name if name in ("numpy.mean", "numpy.max", "numpy.amax", "numpy.min", "numpy.amin", "builtins.max", "builtins.min") else None
            red_arg = args[0] if (red and len(args) == 1) else None
            if red is None and isinstance(e.func, ast.Attribute) and e.func.attr in ("mean", "max", "min") and not args:
                red, red_arg = "numpy." + e.func.attr, e.func.value
            if red is not None and red_arg is not None and not any(k.arg == "axis" and not (isinstance(k.value, ast.Constant) and k.value.value is None) for k in e.keywords):
                v = self.eval(red_arg, env)
                if isinstance(v, Vec):
                    if red.endswith("mean"):
                        return v.c * self.S(v.p) / self.N
                    # the largest / smallest entry is not a power sum: an independent positive symbol of the same
                    # homogeneity (it cancels exactly where the expression does not depend on it)
                    which = "Wmax" if red.endswith(("max", "amax")) else "Wmin"
                    if self.sp.nsimplify(v.p) > 0:
                        return v.c * self.sym(which) ** v.p
                    raise Undecided(f"{red} of a non-positive power of the weights")
                raise Undecided(f"{red} of a scalar")
            if name in ("builtins.len", "len", "numpy.size") and args:
                v = self.eval(args[0], env)
                if isinstance(v, Vec):
                    return self.N
                raise Undecided("len of a scalar")
            if name == "numpy.exp" and args:
                a = args[0]
                # exp(L - max(L)) or exp(L) for the log-weight input L
                if isinstance(a, ast.BinOp) and isinstance(a.op, ast.Sub):
                    lname = self._log_name(a.left, env)
                    if lname and self._is_max_of(a.right, lname, env):
                        return Vec(self.K, 1)
                if isinstance(a, ast.Name) and isinstance(env.get(a.id), tuple) and env[a.id][0] == "log-shifted":
                    return Vec(self.K, 1)
                lname = self._log_name(a, env)
                if lname:
                    return Vec(sp.Integer(1), 1)
                raise Undecided("exp of a non-log-weight expression")
            if name in ("numpy.sqrt",) and args:
                v = self.eval(args[0], env)
                return Vec(sp.sqrt(v.c), v.p / 2) if isinstance(v, Vec) else sp.sqrt(v)
            if name in ("numpy.asarray", "numpy.array", "numpy.copy", "float", "builtins.float") and args:
                return self.eval(args[0], env)
            if isinstance(e.func, ast.Attribute) and e.func.attr in ("copy",) and not args:
                return self.eval(e.func.value, env)
            if isinstance(e.func, ast.Attribute) and e.func.attr == "sum" and not args:
                v = self.eval(e.func.value, env)
                if isinstance(v, Vec):
                    return v.c * self.S(v.p)
            raise Undecided(f"call {name or ast.unparse(e.func)}")
        if isinstance(e, ast.Attribute) and e.attr == "size":
            v = self.eval(e.value, env)
            if isinstance(v, Vec):
                return self.N
        if isinstance(e, ast.Subscript):
            # a boolean-mask / index selection of the weight vector is a new base vector
            raise Undecided("subscript")
        raise Undecided(type(e).__name__)

    def _log_name(self, e: ast.expr, env) -> Optional[str]:
        if isinstance(e, ast.Name) and isinstance(env.get(e.id), tuple) and env[e.id][0] == "log":
            return e.id
        return None

    def _is_max_of(self, e: ast.expr, lname: str, env) -> bool:
        if isinstance(e, ast.Name) and isinstance(env.get(e.id), tuple) and env[e.id] == ("max", lname):
            return True
        if isinstance(e, ast.Call) and (self.ext_name(e) or "") in ("numpy.max", "numpy.amax", "builtins.max") and e.args and isinstance(e.args[0], ast.Name) and e.args[0].id == lname:
            return True
        return False

    def simplify(self, x):
        return self.sp.simplify(x)


def run_function_powersums(ps: PowerSums, fn: ast.FunctionDef, init_env: Dict[str, object]):
    """Interpret a straight-line function body (no branches that matter) and
    return the value(s) of its return expression."""
    env = dict(init_env)
    ret = None
    for st in fn.body:
        if isinstance(st, ast.Expr) and isinstance(st.value, ast.Constant):
            continue
        if isinstance(st, ast.Assign) and len(st.targets) == 1 and isinstance(st.targets[0], ast.Name):
            v = st.value
            # max of the log-weights
            if isinstance(v, ast.Call) and (ps.ext_name(v) or "") in ("numpy.max", "numpy.amax") and v.args and isinstance(v.args[0], ast.Name) and isinstance(env.get(v.args[0].id), tuple):
                env[st.targets[0].id] = ("max", v.args[0].id)
                continue
            if isinstance(v, ast.BinOp) and isinstance(v.op, ast.Sub) and isinstance(v.left, ast.Name) and isinstance(env.get(v.left.id), tuple) and env[v.left.id][0] == "log" and ps._is_max_of(v.right, v.left.id, env):
                env[st.targets[0].id] = ("log-shifted", v.left.id)
                continue
            if isinstance(v, ast.Call) and (ps.ext_name(v) or "") == "numpy.exp" and v.args and isinstance(v.args[0], ast.Name) and isinstance(env.get(v.args[0].id), tuple) and env[v.args[0].id][0] == "log-shifted":
                env[st.targets[0].id] = Vec(ps.K, 1)
                continue
            env[st.targets[0].id] = ps.eval(v, env)
        elif isinstance(st, ast.AugAssign) and isinstance(st.target, ast.Name):
            fake = ast.BinOp(left=ast.Name(id=st.target.id, ctx=ast.Load()), op=st.op, right=st.value)
            env[st.target.id] = ps.eval(fake, env)
        elif isinstance(st, ast.Return):
            if isinstance(st.value, ast.Tuple):
                ret = tuple(ps.eval(x, env) for x in st.value.elts)
            else:
                ret = ps.eval(_exp_shifted(st.value, env, ps), env)
            return ret, env
        else:
            raise Undecided(f"statement {type(st).__name__}")
    return ret, env


def _exp_shifted(e, env, ps):
    return e



def normalised_by_own_sum(ext_name, expr: ast.expr, vec_name: str):
    """Is `expr`, read with `vec_name` an arbitrary positive vector w, the vector w / sum(w)?

    True / False when the power-sum algebra decides it (any spelling: w / np.sum(w), w / w.sum(), np.divide(w, np.sum(w)),
    w * (1 / np.sum(w)), np.sum(w, axis=None) ...; False e.g. for w / max(w), w / len(w), w / mean(w), w / sum(w**2)),
    None when the expression is outside the algebra (the caller keeps its own reading then).  The second value is the
    computed form, for the message."""
    sp = ensure_sympy()
    ps = PowerSums(ext_name)
    try:
        got = ps.eval(expr, {vec_name: Vec(sp.Integer(1), 1)})
    except Undecided:
        return None, None
    except Exception:
        return None, None
    if not isinstance(got, Vec):
        return False, str(got)
    ok = sp.nsimplify(got.p) == 1 and sp.simplify(got.c - 1 / ps.S(1)) == 0
    return bool(ok), f"{sp.simplify(got.c)} * w^{got.p}"
