"""Interprocedural definition following: where does the value of a local name
come from, across extracted helpers?

    defs_of(ctx, fi, at, name) -> list of Link(fi, node, value)

* a plain assignment yields its value expression in its own function;
* a parameter is followed to the argument at the call site(s) inside the
  library (when the function has internal callers);
* a call of an internal function with a single returned expression can be
  entered with `enter_call` (the returned expression, in the callee's context);
* tuple unpacking of such a call selects the component of a returned tuple.

This lets shape rules survive "extract method" refactorings without inlining.
"""
from __future__ import annotations

import ast
from dataclasses import dataclass
from typing import List, Optional, Tuple

from .dataflow import flow_of, select_path
from .engine import Context
from .model import FuncInfo, walk_no_nested
from .util import call_arg


@dataclass
class Link:
    fi: FuncInfo
    node: object  # CFG node where `value` is evaluated
    value: Optional[ast.expr]
    kind: str  # 'assign' | 'arg' | 'return' | 'param-unknown' | 'other'
    stmt: Optional[ast.AST] = None


def single_return(fi: FuncInfo) -> Optional[Tuple[object, ast.expr]]:
    flow = flow_of(fi.node)
    rets = [n for n in flow.cfg.stmt_nodes() if n.kind == "stmt" and isinstance(n.stmt, ast.Return) and n.stmt.value is not None]
    if len(rets) == 1:
        return rets[0], rets[0].stmt.value
    return None


def internal_callee(ctx: Context, fi: FuncInfo, call: ast.Call) -> Optional[FuncInfo]:
    tg = [t for t in ctx.res.call_targets(fi, call) if isinstance(t, FuncInfo)]
    concrete = [t for t in tg if not t.is_abstract]
    if len(concrete) == 1 and len(tg) == 1:
        return concrete[0]
    return None


def enter_call(ctx: Context, fi: FuncInfo, call: ast.Call, path: tuple = ()) -> Optional[Link]:
    """The expression returned by the (single, concrete) internal callee of
    `call`, optionally projected by a tuple-unpacking path."""
    callee = internal_callee(ctx, fi, call)
    if callee is None:
        return None
    sr = single_return(callee)
    if sr is None:
        return None
    node, val = sr
    for p in path:
        if isinstance(val, ast.Tuple) and isinstance(p, int) and p < len(val.elts):
            val = val.elts[p]
        else:
            return None
    return Link(callee, node, val, "return", node.stmt)


def defs_of(ctx: Context, fi: FuncInfo, at, name: str) -> List[Link]:
    flow = flow_of(fi.node)
    out: List[Link] = []
    for d in flow.reaching(at, name):
        if d.kind == "param":
            callers = ctx.cg.callers.get(fi.qualname, [])
            params = [p for p in fi.params]
            off = 1 if (fi.cls is not None and params and params[0] in ("self", "cls") and not fi.is_staticmethod) else 0
            if not callers or name not in params:
                out.append(Link(fi, None, None, "param-unknown"))
                continue
            idx = params.index(name) - off
            for (cf, call) in callers:
                arg = call_arg(call, idx, name)
                if arg is None:
                    dflt = fi.param_default(name)
                    out.append(Link(fi, None, dflt, "other"))
                    continue
                out.append(Link(cf, flow_of(cf.node).node_containing(call), arg, "arg", call))
        elif d.kind == "assign" and d.value is not None:
            if d.path:
                sel = select_path(d.value, d.path)
                if sel is not None:
                    out.append(Link(fi, d.node, sel, "assign", d.stmt))
                elif isinstance(d.value, ast.Call):
                    ent = enter_call(ctx, fi, d.value, d.path)
                    out.append(ent if ent is not None else Link(fi, d.node, d.value, "other", d.stmt))
                else:
                    out.append(Link(fi, d.node, d.value, "other", d.stmt))
            else:
                out.append(Link(fi, d.node, d.value, "assign", d.stmt))
        else:
            out.append(Link(fi, d.node, d.value if isinstance(d.value, ast.expr) else None, "other", d.stmt))
    return out


def unique_def(ctx: Context, fi: FuncInfo, at, name: str) -> Optional[Link]:
    ds = defs_of(ctx, fi, at, name)
    if len(ds) == 1 and ds[0].value is not None:
        return ds[0]
    return None
