"""C06  Resampling returns exactly n valid indices and is unbiased.

  C06.a  index safety (A10): in the systematic routine the subscript on the
         weight vector whose index is incremented inside the comb loop is bounded
         by the vector's length (loop guard or clamp)
  C06.b  exactly n, non-decreasing: output allocated with the requested size,
         every slot assigned unconditionally in `for i in range(size)`; the source
         index starts at 0 and only grows by positive literals
  C06.c  one scalar offset shared by all comb positions (U + arange(n)) / n
  C06.d  multinomial branch: categorical draw over the whole weight vector's
         index range, size = particle count, with replacement, p = the weights
         handed in
"""
from __future__ import annotations

import ast
from typing import List, Optional, Tuple

from ..cfg import cfg_of
from ..dataflow import Resolver as ExprResolver
from ..dataflow import flow_of
from ..engine import Context, Reporter
from ..model import AnalysisError, FuncInfo, dotted, norm_text, walk_no_nested
from ..util import call_arg, calls_in, calls_in_node, const_value, split_cond, unparse

PROP = "C06"
EXPLANATION = (
    "Decides the structural preconditions of the resampling contract: the incremented index into the weight vector is "
    "bounded by its length on every iteration of the comb loop (so every offset and every weight sum within the "
    "routine's own tolerance yields valid indices); the output has exactly `size` slots, each assigned once from a "
    "non-decreasing index; a single scalar uniform offset is shared by all comb positions (U + arange(n))/n; the "
    "multinomial branch draws n indices with replacement over the whole weight vector with p = the given weights. "
    "The expectation n*w_i and the floor/ceil count law themselves (numerical, over all offsets) are not decided."
    " Also (h) the number of draws the package requests is the length of the weight vector it passes (or the particle count) and does not hinge on an identity test against True/False; a draw in a default argument is reported."
)
ASSUMPTIONS = ["numpy.random.choice(a, size, replace=True, p) draws i.i.d. categorical indices", "weights are non-negative (callers normalise)"]


def systematic_fn(ctx: Context) -> FuncInfo:
    """By role: module-level function with one scalar uniform draw and a loop
    that accumulates a cumulative sum of its weights argument."""
    cands = []
    for fi in ctx.prog.functions.values():
        if fi.cls is not None or fi.parent is not None:
            continue
        draws = [s for s in ctx.rng.draws() if s.func is fi]
        has_cum = any(isinstance(n, ast.AugAssign) and isinstance(n.op, ast.Add) and isinstance(n.value, ast.Subscript) for n in walk_no_nested(fi.node)) or \
            any(isinstance(c, ast.Call) and (ctx.res.external_name(fi, c) or "") == "numpy.cumsum" for c in walk_no_nested(fi.node))
        if draws and has_cum and "weights" in fi.params:
            cands.append(fi)
    if len(cands) != 1:
        raise AnalysisError(f"C06: systematic resampling routine not identified uniquely ({[c.short for c in cands]})")
    return cands[0]


def _linear(e: ast.expr, jname: str, Ltexts: set) -> Optional[Tuple[int, int, int]]:
    """e as (cj, cL, c0): cj*j + cL*L + c0 with integer constants; None otherwise."""
    v = const_value(e)
    if isinstance(v, int) and not isinstance(v, bool):
        return (0, 0, v)
    if isinstance(e, ast.Name) and e.id == jname:
        return (1, 0, 0)
    if norm_text(e) in Ltexts:
        return (0, 1, 0)
    if isinstance(e, ast.BinOp) and isinstance(e.op, (ast.Add, ast.Sub)):
        a = _linear(e.left, jname, Ltexts)
        b = _linear(e.right, jname, Ltexts)
        if a is None or b is None:
            return None
        s = 1 if isinstance(e.op, ast.Add) else -1
        return (a[0] + s * b[0], a[1] + s * b[1], a[2] + s * b[2])
    return None


def rule_a(ctx: Context, R: Reporter, fi: FuncInfo):
    flow = flow_of(fi.node)
    cfg = flow.cfg
    n_inst = 0
    for w in cfg.stmt_nodes():
        if w.kind != "test" or not isinstance(w.stmt, ast.While):
            continue
        body = cfg.loop_body(w.id)
        incs = [n for n in cfg.stmt_nodes() if n.id in body and n.kind == "stmt" and isinstance(n.stmt, ast.AugAssign) and isinstance(n.stmt.op, ast.Add)
                and isinstance(n.stmt.target, ast.Name) and isinstance(const_value(n.stmt.value), int) and w.id in n.loops and n.loops[-1] == w.id]
        for inc in incs:
            j = inc.stmt.target.id
            step = const_value(inc.stmt.value)
            subs = []
            for n in cfg.stmt_nodes():
                if n.id not in body:
                    continue
                for s in ast.walk(n.ast) if n.ast is not None else []:
                    if isinstance(s, ast.Subscript) and isinstance(s.ctx, ast.Load) and isinstance(s.slice, ast.Name) and s.slice.id == j and isinstance(s.value, ast.Name):
                        subs.append((n, s))
            for (n, s) in subs:
                n_inst += 1
                arr = s.value.id
                # names equal to len(arr)
                Ltexts = {f"len({arr})", f"{arr}.size", f"{arr}.shape[0]", f"np.size({arr})"}
                for ds in flow.defs_at.values():
                    for d in ds:
                        if d.kind == "assign" and d.value is not None and not d.path and norm_text(d.value) in Ltexts:
                            Ltexts.add(d.name)
                after_inc = cfg.reaches(inc.id, n.id, blocked=[w.id]) or inc.id == n.id
                need_margin = step if after_inc else 0  # index used = j + step (if read after the increment in the same iteration)
                ok = False
                rsv = ExprResolver(fi.node)
                for (atom, pol) in split_cond(w.ast, True):
                    if not isinstance(atom, ast.Compare) or len(atom.ops) != 1:
                        continue
                    l = _linear(atom.left, j, Ltexts)
                    r = _linear(atom.comparators[0], j, Ltexts)
                    if l is None or r is None:
                        # hoisted bound (`last = len(weights) - 1`): resolve loop-invariant locals, never the index itself
                        def res_side(e):
                            if any(isinstance(x, ast.Name) and x.id == j for x in ast.walk(e)):
                                return e
                            return rsv.resolve(e, w)
                        l = _linear(res_side(atom.left), j, Ltexts)
                        r = _linear(res_side(atom.comparators[0]), j, Ltexts)
                    if l is None or r is None:
                        continue
                    op = atom.ops[0]
                    # normalise to: cj*j + cL*L + c0 (<|<=) 0
                    if isinstance(op, (ast.Lt, ast.LtE)):
                        cj, cL, c0 = l[0] - r[0], l[1] - r[1], l[2] - r[2]
                        strict = isinstance(op, ast.Lt)
                    elif isinstance(op, (ast.Gt, ast.GtE)):
                        cj, cL, c0 = r[0] - l[0], r[1] - l[1], r[2] - l[2]
                        strict = isinstance(op, ast.Gt)
                    else:
                        continue
                    if cj == 1 and cL == -1:
                        # j < L - c0' : j <= L - c0 - (1 if strict) ; need j + margin <= L - 1
                        ub = -c0 - (1 if strict else 0)  # j <= L + ub
                        if ub + need_margin <= -1:
                            ok = True
                # the comb advances only while the position lies strictly beyond the running sum: with `>=` a position
                # that equals a cumulative weight exactly moves on to the next (possibly zero-weight) index
                for (atom, pol) in split_cond(w.ast, True):
                    if isinstance(atom, ast.Compare) and len(atom.ops) == 1 and not any(isinstance(x, ast.Name) and x.id == j for x in ast.walk(atom)) \
                            and any(isinstance(x, ast.Subscript) for x in ast.walk(atom)):
                        strict = isinstance(atom.ops[0], (ast.Gt, ast.Lt))
                        R.check("C06.a", "the comb comparison is strict", strict, fi, atom,
                                msg=f"{fi.short}: `{unparse(atom)}` is not strict: a comb position equal to a cumulative weight (reachable when the weights sum to exactly one and the "
                                    f"offset rounds to the boundary) is attributed to the following index, which may have zero weight (copies outside floor/ceil of n*w)", key="comb-strict")
                clamp = False
                # clamp idiom: arr[min(j, len(arr)-1)] is not this subscript form; accept np.minimum/min on the increment
                R.check(
                    "C06.a", f"`{arr}[{j}]` inside the comb loop is bounded by len({arr})", ok or clamp, fi, s,
                    msg=f"{fi.short}: `{j}` is incremented in `while {unparse(w.ast)}` and used as `{arr}[{j}]` with no guard bounding it by len({arr}): "
                        f"when rounding leaves the last comb position above the accumulated weight sum (sum(w) slightly below 1, offset close to 1) the index runs past the end (IndexError)",
                    witness={"loop": unparse(w.ast), "increment": unparse(inc.stmt)}, key=f"unbounded-index:{arr}[{j}]",
                )
    if n_inst == 0:
        # vectorised alternative: searchsorted must be clamped
        ss = [c for c in calls_in(fi.node) if (ctx.res.external_name(fi, c) or "") == "numpy.searchsorted"]
        if not ss:
            raise AnalysisError("C06.a: neither an incremented-index comb loop nor a searchsorted form found (unmodelled)")
        for c in ss:
            n_inst += 1
            clamped = any(isinstance(x, ast.Call) and (ctx.res.external_name(fi, x) or "") in ("numpy.minimum", "numpy.clip") for x in walk_no_nested(fi.node))
            R.check("C06.a", "searchsorted result is clamped to the last index", clamped, fi, c,
                    msg=f"{fi.short}: `{unparse(c)[:60]}` can return len(weights) when the last position exceeds the cumulative sum", key="searchsorted-unclamped")
    R.floor("C06.a", "incremented-index subscripts / searchsorted sites", n_inst, 1)


def rule_b(ctx: Context, R: Reporter, fi: FuncInfo):
    flow = flow_of(fi.node)
    cfg = flow.cfg
    size_param = fi.params[0]
    rets = [n for n in cfg.stmt_nodes() if n.kind == "stmt" and isinstance(n.stmt, ast.Return) and n.stmt.value is not None]
    R.floor("C06.b", "returns", len(rets), 1)
    for rn in rets:
        v = rn.stmt.value
        # a vectorised comb: the result of searchsorted(cumulative weights, positions) has one entry per position, and the
        # positions are an elementwise function of arange(size): exactly `size` entries, every one of them assigned
        vec = v
        if isinstance(vec, ast.Name):
            dsv = flow.reaching(rn, vec.id)
            if len(dsv) == 1 and dsv[0].kind == "assign" and dsv[0].value is not None and not dsv[0].path and not isinstance(dsv[0].value, ast.Name):
                vec = dsv[0].value
        if not isinstance(vec, ast.Name):
            core = vec
            while True:
                ext_ = (ctx.res.external_name(fi, core) or "") if isinstance(core, ast.Call) else ""
                if ext_ in ("numpy.minimum", "numpy.clip", "numpy.asarray", "numpy.array") and core.args:
                    core = core.args[0]
                elif isinstance(core, ast.Call) and isinstance(core.func, ast.Attribute) and core.func.attr in ("astype", "clip") and not ext_.startswith("numpy."):
                    core = core.func.value
                else:
                    break
            if isinstance(core, ast.Call) and (ctx.res.external_name(fi, core) or "") == "numpy.searchsorted" and len(core.args) >= 2:
                from ..dataflow import Resolver as _Rv

                pos = _Rv(fi.node).resolve(core.args[1], rn)
                aranges = [c for c in ast.walk(pos) if isinstance(c, ast.Call) and (ctx.res.external_name(fi, c) or "") == "numpy.arange"]
                shape_changing = [c for c in ast.walk(pos) if isinstance(c, (ast.Subscript, ast.ListComp, ast.GeneratorExp)) or
                                  (isinstance(c, ast.Call) and (ctx.res.external_name(fi, c) or "").split(".")[-1] in ("concatenate", "append", "repeat", "tile", "unique", "delete", "insert", "linspace", "resize"))]
                size_ok = len(aranges) == 1 and len(aranges[0].args) == 1 and not aranges[0].keywords and isinstance(aranges[0].args[0], ast.Name) and aranges[0].args[0].id == size_param and not shape_changing
                R.check("C06.b", "output is allocated with exactly the requested size", size_ok, fi, rn.stmt,
                        msg=f"{fi.short}: the vectorised result has one entry per element of `{unparse(core.args[1])[:40]}`, which is not an elementwise function of arange({size_param})", key="alloc-size")
                R.check("C06.b", "every slot is assigned exactly once, unconditionally", size_ok, fi, rn.stmt,
                        msg=f"{fi.short}: vectorised result over `{unparse(core.args[1])[:40]}`", key="slots-assigned")
                continue
        if not isinstance(v, ast.Name):
            raise AnalysisError("C06.b: systematic routine returns an expression (unmodelled)")
        ds = flow.reaching(rn, v.id)
        alloc_ok = len(ds) == 1 and isinstance(ds[0].value, ast.Call) and (ctx.res.external_name(fi, ds[0].value) or "") in ("numpy.empty", "numpy.zeros", "numpy.full") \
            and isinstance(ds[0].value.args[0] if ds[0].value.args else None, ast.Name) and ds[0].value.args[0].id == size_param
        R.check("C06.b", "output is allocated with exactly the requested size", alloc_ok, fi, ds[0].stmt if ds else rn.stmt,
                msg=f"{fi.short}: returned array `{v.id}` is not allocated as empty({size_param})", key="alloc-size")
        # slot assignment
        stores = [n for n in cfg.stmt_nodes() if n.kind == "stmt" and isinstance(n.stmt, ast.Assign) and isinstance(n.stmt.targets[0], ast.Subscript)
                  and isinstance(n.stmt.targets[0].value, ast.Name) and n.stmt.targets[0].value.id == v.id]
        ok_store = False
        for st in stores:
            if not st.loops:
                continue
            head = cfg.nodes[st.loops[0]]
            if head.kind != "for":
                continue
            it = head.stmt.iter
            rng_ok = isinstance(it, ast.Call) and dotted(it.func) == "range" and len(it.args) == 1 and isinstance(it.args[0], ast.Name) and it.args[0].id == size_param
            tgt = head.stmt.target
            # `for i, position in enumerate(positions)` with positions an array of exactly `size` comb teeth
            if not rng_ok and isinstance(it, ast.Call) and dotted(it.func) == "enumerate" and len(it.args) == 1 and isinstance(tgt, ast.Tuple) and len(tgt.elts) == 2:
                from ..dataflow import Resolver as _R

                seq = _R(fi.node).resolve(it.args[0], head)
                ar = [c for c in ast.walk(seq) if isinstance(c, ast.Call) and (ctx.res.external_name(fi, c) or "") == "numpy.arange" and len(c.args) == 1
                      and isinstance(c.args[0], ast.Name) and c.args[0].id == size_param]
                if ar:
                    rng_ok = True
                    tgt = tgt.elts[0]
            idx_ok = isinstance(tgt, ast.Name) and isinstance(st.stmt.targets[0].slice, ast.Name) and st.stmt.targets[0].slice.id == tgt.id
            # unconditional: the store post-dominates the loop body entry (every iteration reaches it)
            body_entry = [t for (t, lab) in cfg.succ[head.id] if lab == ("iter", True)]
            uncond = all(not cfg.reaches(b, head.id, blocked=[st.id]) or b == st.id for b in body_entry)
            if rng_ok and idx_ok and uncond:
                ok_store = True
                src = st.stmt.value
                if isinstance(src, ast.Name):
                    jdefs = [d for dl in flow.defs_at.values() for d in dl if d.name == src.id]
                    mono = all((d.kind == "assign" and const_value(d.value) == 0 and not d.node.loops) or
                               (d.kind == "aug" and isinstance(d.value.op, ast.Add) and isinstance(const_value(d.value.value), int) and const_value(d.value.value) > 0) for d in jdefs)
                    R.check("C06.b", "the source index starts at 0 and only grows", mono, fi, st.stmt,
                            msg=f"{fi.short}: index `{src.id}` written into the output is not monotone (definitions: {[unparse(d.stmt)[:30] for d in jdefs]})", key="monotone-index")
                    # the running sum is the cumulative weight up to and including the current index: it starts at
                    # w[j0] with j0 the start of the index, and every increment of the index adds w[index]
                    j = src.id
                    accs = {}
                    for n2 in cfg.stmt_nodes():
                        if n2.kind == "stmt" and isinstance(n2.stmt, ast.AugAssign) and isinstance(n2.stmt.op, ast.Add) and isinstance(n2.stmt.target, ast.Name) \
                                and isinstance(n2.stmt.value, ast.Subscript) and isinstance(n2.stmt.value.slice, ast.Name) and n2.stmt.value.slice.id == j:
                            accs.setdefault(n2.stmt.target.id, []).append(n2)
                    for acc, adds in accs.items():
                        warr = adds[0].stmt.value.value
                        inits = [d for dl in flow.defs_at.values() for d in dl if d.name == acc and d.kind == "assign"]
                        j0 = [const_value(d.value) for d in jdefs if d.kind == "assign"]
                        ok_init = bool(inits) and all(isinstance(d.value, ast.Subscript) and norm_text(d.value.value) == norm_text(warr) and const_value(d.value.slice) in j0 for d in inits)
                        R.check("C06.b", "the running sum starts at the weight of the starting index", ok_init, fi, inits[0].stmt if inits else adds[0].stmt,
                                msg=f"{fi.short}: `{acc}` is initialised by `{unparse(inits[0].value) if inits else '?'}` while the index starts at {j0}: the running sum is not the cumulative "
                                    f"weight of indices 0..{j}, so copies are attributed to the wrong index", key="accumulator-init")
                        # each addition follows an increment of j in the same block (sum and index advance together)
                        for a_ in adds:
                            incs_ = [d.node for d in jdefs if d.kind == "aug" and d.node is not None]
                            paired = any(cfg.dominates(i_.id, a_.id) and i_.loops == a_.loops for i_ in incs_)
                            R.check("C06.b", "the running sum advances together with the index", paired, fi, a_.stmt,
                                    msg=f"{fi.short}: `{unparse(a_.stmt)}` is not preceded by the increment of `{j}` in the same loop body", key="accumulator-step")
        R.check("C06.b", "every output slot is assigned once, unconditionally, in `for i in range(size)`", ok_store, fi, rn.stmt,
                msg=f"{fi.short}: slots of `{v.id}` are not all assigned in a loop over range({size_param})", key="slots-assigned")


def rule_c(ctx: Context, R: Reporter, fi: FuncInfo):
    flow = flow_of(fi.node)
    draws = [s for s in ctx.rng.draws() if s.func is fi]
    ok_one = len(draws) == 1
    R.check("C06.c", "exactly one uniform draw in the systematic routine", ok_one, fi, draws[0].call if draws else fi.node,
            msg=f"{fi.short}: {len(draws)} random draws (systematic resampling uses one shared offset; per-position draws are stratified resampling)", key="one-draw")
    for d in draws:
        n = flow.node_containing(d.call)
        if n is None:
            # not a statement of the body: a default argument (or decorator), evaluated once when the function is defined
            R.check("C06.c", "the offset is a scalar uniform on [0,1), drawn outside any loop", False, fi, d.call,
                    msg=f"{fi.short}: offset draw `{unparse(d.call)}` is evaluated once, when the function is defined (default argument): every call of the process uses the same comb offset, "
                        f"so the expected number of copies of a particle is floor/ceil of n*w for that one offset instead of n*w", key="scalar-offset")
            continue
        scalar = not d.call.args and not d.call.keywords and d.name in ("numpy.random.random", "numpy.random.rand", "numpy.random.random_sample", "numpy.random.uniform")
        R.check("C06.c", "the offset is a scalar uniform on [0,1), drawn outside any loop", scalar and not n.loops, fi, d.call,
                msg=f"{fi.short}: offset draw `{unparse(d.call)}` is not a scalar U[0,1) outside loops", key="scalar-offset")
        # positions = (U + arange(size)) / size
        st = n.stmt
        size_param = fi.params[0]
        shape_ok = False
        if isinstance(st, ast.Assign):
            v = ExprResolver(fi.node).resolve(st.value, n)
            if isinstance(v, ast.BinOp) and isinstance(v.op, ast.Div) and isinstance(v.right, ast.Name) and v.right.id == size_param and isinstance(v.left, ast.BinOp) and isinstance(v.left.op, ast.Add):
                parts = [v.left.left, v.left.right]
                has_draw = any(p is not None and any(c is d.call or norm_text(c) == norm_text(d.call) for c in ast.walk(p)) and isinstance(p, ast.Call) for p in parts)
                has_ar = any(isinstance(p, ast.Call) and (ctx.res.external_name(fi, p) or "") == "numpy.arange" and len(p.args) == 1 and isinstance(p.args[0], ast.Name) and p.args[0].id == size_param for p in parts)
                shape_ok = has_draw and has_ar
        R.check("C06.c", "comb positions are (U + arange(n)) / n", shape_ok, fi, st,
                msg=f"{fi.short}: positions `{unparse(st)[:70]}` are not (U + arange({size_param})) / {size_param}", key="comb-positions")


def rule_d(ctx: Context, R: Reporter, syst: FuncInfo):
    n = 0
    for s in ctx.rng.draws():
        if s.name != "numpy.random.choice":
            continue
        fi = s.func
        if "weights" not in fi.params:
            continue
        # the resampling step: the function that dispatches between this draw and the systematic routine
        if not any(isinstance(t, FuncInfo) and t is syst for (c, tg) in ctx.cg.sites.get(fi.qualname, []) for t in tg):
            continue
        p = call_arg(s.call, 3, "p")
        if p is None:
            continue
        n += 1
        flow = flow_of(fi.node)
        at = flow.node_containing(s.call)
        pdefs = flow.reaching(at, p.id) if isinstance(p, ast.Name) else []
        p_ok = isinstance(p, ast.Name) and len(pdefs) == 1 and pdefs[0].kind == "param"
        R.check("C06.d", "multinomial draw uses p = the unmodified weights parameter", p_ok, fi, s.call,
                msg=f"{fi.short}: p=`{unparse(p)}` is not the weights handed to the step", key="p-is-weights")
        a = call_arg(s.call, 0, "a")
        pop_ok = False
        if a is not None and isinstance(p, ast.Name):
            # the whole index range: n or arange(n) with n = len(p) / p.size / p.shape[0]; the library function is resolved,
            # not matched by the name it was imported under
            cnt = a
            if isinstance(a, ast.Call) and (ctx.res.external_name(fi, a) or "") == "numpy.arange" and len(a.args) == 1 and not a.keywords:
                cnt = a.args[0]
            pop_ok = norm_text(cnt) in (f"len({p.id})", f"{p.id}.size", f"{p.id}.shape[0]")
        R.check("C06.d", "population is the whole index range of the weight vector", pop_ok, fi, s.call,
                msg=f"{fi.short}: population `{unparse(a)}` is not arange(len({unparse(p)}))", key="population")
        size = call_arg(s.call, 1, "size")
        size_ok = size is not None and norm_text(size) in ("self.n_particles", "n_particles")
        R.check("C06.d", "exactly n_particles indices are drawn", size_ok, fi, s.call,
                msg=f"{fi.short}: size=`{unparse(size)}` is not the particle count", key="size")
        rep = call_arg(s.call, 2, "replace")
        rep_ok = rep is None or const_value(rep) is True
        R.check("C06.d", "draw is with replacement", rep_ok, fi, s.call, msg=f"{fi.short}: replace=`{unparse(rep)}`", key="replace")
    # scheme names: the draw selected by "mult" is the multinomial one and the routine selected by "syst" the
    # systematic one (the documented meaning of the option values)
    from ..util import conds_holding_at as _cha, split_cond as _sc

    def _scheme_facts(fi_, call_):
        fl_ = flow_of(fi_.node)
        nd_ = fl_.node_containing(call_)
        out_ = []
        for (t_, pol_) in (_cha(fl_.cfg, nd_) if nd_ is not None else []):
            for (a_, p_) in _sc(t_, pol_):
                if isinstance(a_, ast.Compare) and len(a_.ops) == 1 and isinstance(a_.ops[0], (ast.Eq, ast.NotEq)) and isinstance(a_.comparators[0], ast.Constant) and isinstance(a_.comparators[0].value, str):
                    eq = isinstance(a_.ops[0], ast.Eq) == p_
                    out_.append((a_.comparators[0].value, eq))
        return out_

    for s in ctx.rng.draws():
        if s.name == "numpy.random.choice" and "weights" in s.func.params and any(isinstance(t, FuncInfo) and t is syst for (c, tg) in ctx.cg.sites.get(s.func.qualname, []) for t in tg):
            fs = _scheme_facts(s.func, s.call)
            bad = [v for (v, eq) in fs if (eq and v.startswith("syst")) or (not eq and v.startswith("mult"))]
            R.check("C06.d", "the multinomial draw is the one selected by resample='mult'", not bad, s.func, s.call,
                    msg=f"{s.func.short}: the multinomial draw runs under {fs}: the option values select the other scheme than documented", key="scheme-name:mult")
            for (c, tg) in ctx.cg.sites.get(s.func.qualname, []):
                if any(t is syst for t in tg):
                    fs2 = _scheme_facts(s.func, c)
                    bad2 = [v for (v, eq) in fs2 if (eq and v.startswith("mult")) or (not eq and v.startswith("syst"))]
                    R.check("C06.d", "the systematic routine is the one selected by resample='syst'", not bad2, s.func, c,
                            msg=f"{s.func.short}: the systematic routine runs under {fs2}: the option values select the other scheme than documented", key="scheme-name:syst")
    # numpy's own contracts differ: Generator/RandomState.choice accepts |sum(p) - 1| <= sqrt(eps) (the tolerance
    # the property quantifies over), multinomial(n, pvals) raises as soon as sum(pvals[:-1]) > 1 + 1e-12 and silently
    # hands the residual mass to the last category.  Raw weights passed to multinomial are outside its contract.
    for s in ctx.rng.draws():
        if s.name != "numpy.random.multinomial":
            continue
        fi = s.func
        if "weights" not in fi.params:
            continue
        if not any(isinstance(t, FuncInfo) and t is syst for (c, tg) in ctx.cg.sites.get(fi.qualname, []) for t in tg):
            continue
        pv = call_arg(s.call, 1, "pvals")
        if pv is None:
            continue
        flow = flow_of(fi.node)
        at = flow.node_containing(s.call)
        pdefs = flow.reaching(at, pv.id) if isinstance(pv, ast.Name) else []
        raw = isinstance(pv, ast.Name) and len(pdefs) == 1 and pdefs[0].kind == "param"
        if raw:
            n += 1
            R.check("C06.d", "the multinomial draw accepts every weight vector within the sqrt(eps) tolerance", False, fi, s.call,
                    msg=f"{fi.short}: `{unparse(s.call)[:70]}` hands the weights as given to numpy's multinomial, whose contract is sum(pvals[:-1]) <= 1 + 1e-12 (ValueError "
                        f"beyond that, residual mass silently given to the last index): a vector whose sum is off by up to sqrt(eps), which `choice(p=...)` and the systematic "
                        f"routine accept, is rejected or resampled with a biased last weight", key="multinomial-pvals-tolerance")
    R.floor("C06.d", "multinomial draw sites with p=weights", n, 1)


def _tolerance_value(ctx: Context, fi: FuncInfo, e: ast.expr) -> Optional[float]:
    """Numeric value of a tolerance expression: a literal, sqrt(eps) spelled with
    math/numpy, or a module constant bound to one of those."""
    import math

    EPS = 2.220446049250313e-16
    if isinstance(e, ast.Constant) and isinstance(e.value, (int, float)) and not isinstance(e.value, bool):
        return float(e.value)
    if isinstance(e, ast.Name):
        r = ctx.prog.resolve_name(fi.module, e.id)
        if e.id in fi.module.constants:
            return _tolerance_value(ctx, fi, fi.module.constants[e.id])
        if isinstance(r, tuple) and r and r[0] == "const":
            return _tolerance_value(ctx, fi, r[1].constants[r[2]])
        return None
    txt = norm_text(e)
    if "finfo" in txt and txt.endswith(".eps"):
        return EPS
    if isinstance(e, ast.Call):
        nm = (ctx.res.external_name(fi, e) or dotted(e.func))
        if nm in ("builtins.float", "float", "numpy.float64") and e.args:
            return _tolerance_value(ctx, fi, e.args[0])
        if nm in ("math.sqrt", "numpy.sqrt") and e.args:
            v = _tolerance_value(ctx, fi, e.args[0])
            return math.sqrt(v) if v is not None and v >= 0 else None
    if isinstance(e, ast.BinOp) and isinstance(e.op, (ast.Mult, ast.Div, ast.Pow)):
        l, r = _tolerance_value(ctx, fi, e.left), _tolerance_value(ctx, fi, e.right)
        if l is None or r is None:
            return None
        try:
            return l * r if isinstance(e.op, ast.Mult) else (l / r if isinstance(e.op, ast.Div) else l ** r)
        except Exception:
            return None
    return None


def rule_e(ctx: Context, R: Reporter, fi: FuncInfo):
    """C06.e  the comb is laid over weights that sum to one up to sqrt(eps): the
    routine renormalises unconditionally, or under a guard |sum(w) - 1| > T with
    T <= sqrt(eps) (the tolerance numpy's own multinomial draw accepts).  With a
    looser guard a sum off by 1e-6 is walked as is and the last index gains or
    loses copies (the floor/ceil law fails)."""
    flow = flow_of(fi.node)
    wparam = "weights" if "weights" in fi.params else (fi.params[1] if len(fi.params) > 1 else None)
    if wparam is None:
        raise AnalysisError("C06.e: weights parameter of the systematic routine not identified")
    LIMIT = 1.6e-8
    norm_defs = []
    for n in flow.cfg.stmt_nodes():
        if n.kind == "stmt" and isinstance(n.stmt, (ast.Assign, ast.AugAssign)):
            t = n.stmt.targets[0] if isinstance(n.stmt, ast.Assign) else n.stmt.target
            if isinstance(t, ast.Name) and t.id == wparam:
                v = n.stmt.value
                is_div = (isinstance(n.stmt, ast.AugAssign) and isinstance(n.stmt.op, ast.Div)) or (isinstance(v, ast.BinOp) and isinstance(v.op, ast.Div))
                den = v if isinstance(n.stmt, ast.AugAssign) else (v.right if isinstance(v, ast.BinOp) else None)
                if is_div and den is not None and "sum" in norm_text(den):
                    norm_defs.append(n)
    R.floor("C06.e", "renormalisation statements in the systematic routine", len(norm_defs), 1)
    from ..util import conds_holding_at as _cha
    from ..util import split_cond as _split

    for n in norm_defs:
        conds = [(a, p) for (t, pol) in _cha(flow.cfg, n) for (a, p) in _split(t, pol)]
        conds = [(a, p) for (a, p) in conds if "sum" in norm_text(a) or "close" in norm_text(a)]
        if not conds:
            R.check("C06.e", "weights are renormalised unless their sum is within sqrt(eps) of one", True, fi, n.stmt, key="renormalisation-guard")
            continue
        ok = True
        why = ""
        for (a, p) in conds:
            if isinstance(a, ast.Compare) and len(a.ops) == 1 and isinstance(a.ops[0], (ast.Gt, ast.GtE)) and p is True and "abs" in norm_text(a.left):
                tv = _tolerance_value(ctx, fi, a.comparators[0])
                if tv is None:
                    raise AnalysisError(f"C06.e: tolerance `{unparse(a.comparators[0])}` of the renormalisation guard is not a resolvable constant")
                if tv > LIMIT:
                    ok, why = False, f"tolerance {tv:g} > sqrt(eps)"
            elif isinstance(a, ast.Call) and (ctx.res.external_name(fi, a) or "").split(".")[-1] in ("isclose", "allclose") and p is False:
                rtol = call_arg(a, 2, "rtol")
                atol = call_arg(a, 3, "atol")
                rv = _tolerance_value(ctx, fi, rtol) if rtol is not None else 1e-5
                av = _tolerance_value(ctx, fi, atol) if atol is not None else 1e-8
                if rv is None or av is None:
                    raise AnalysisError("C06.e: tolerances of the isclose guard are not resolvable constants")
                if rv + av > LIMIT:
                    ok, why = False, f"np.isclose tolerance rtol={rv:g}, atol={av:g} > sqrt(eps)"
            else:
                raise AnalysisError(f"C06.e: renormalisation guard `{unparse(a)[:60]}` is outside the recognised forms")
        R.check("C06.e", "weights are renormalised unless their sum is within sqrt(eps) of one", ok, fi, n.stmt,
                msg=f"{fi.short}: the renormalisation `{unparse(n.stmt)[:50]}` is skipped for weight sums off by more than sqrt(eps) ({why}): such a vector is walked unnormalised and "
                    f"the last index gains or loses copies", key="renormalisation-guard")


def rule_f(ctx: Context, R: Reporter, syst: FuncInfo):
    """C06.f  a resampling routine reads its weights, it does not write them: no in-place write (augmented assignment,
    item store, out=, in-place method) reaches an array the caller passed in -- np.asarray / reshape / slicing return
    the caller's own memory.  Otherwise the second draw from the same weight vector is a draw from something else."""
    from ..fresh import inputs_untouched_rule

    from ..util import cached_result_mutations

    funcs = [syst] + [f for f in ctx.prog.functions.values() if f.cls is not None and f.cls.name == "Resampler" and f.name == "run"]
    for f in funcs:
        for (node, cf) in cached_result_mutations(ctx, f):
            R.check("C06.f", "no cached (shared) array is modified in place by a resampling routine", False, f, node,
                    msg=f"{f.short}: `{unparse(node)[:60]}` modifies in place the array returned by the cached helper {cf.short}: the change stays in the cache, so every later call with "
                        f"the same arguments starts from positions / weights that already carry the earlier calls' offsets", key=f"caller-array-write:cached:{f.short}")
    inputs_untouched_rule(ctx, R, "C06.f", funcs, "the caller's weight vector is overwritten (e.g. by its cumulative sums), so every later draw from the same array is no longer a draw "
                          "from the weights", min_funcs=2)


def rule_g(ctx: Context, R: Reporter):
    """C06.g  the pool that the drawn indices address is the pool the weights were computed for: the resampling step keeps
    no copy of the history between calls."""
    from ..util import stateless_steps_rule

    stateless_steps_rule(ctx, R, "C06.g", ("Resampler",), "the indices are valid for the weight vector but are applied to the rows of an earlier pool")


def rule_h(ctx: Context, R: Reporter, syst: FuncInfo):
    """C06.h  the number of draws requested from the systematic routine by the package itself is the length of the weight
    vector it passes (or the configured particle count), and no caller decides the count through an identity test against
    True / False: a flag that is truthy without being the literal singleton (numpy.bool_ from a comparison, np.all(..), 1)
    takes the other branch of `flag is True`, and the public posterior then returns 1 draw instead of one per sample."""
    n = 0
    for fi in ctx.prog.functions.values():
        sites = [c for (c, tg) in ctx.cg.sites.get(fi.qualname, []) if syst in [t for t in tg if isinstance(t, FuncInfo)]]
        if not sites:
            continue
        n += len(sites)
        for x in walk_no_nested(fi.node):
            if isinstance(x, ast.Compare) and len(x.ops) == 1 and isinstance(x.ops[0], (ast.Is, ast.IsNot)) and isinstance(x.comparators[0], ast.Constant) and isinstance(x.comparators[0].value, bool):
                R.check("C06.h", "the number of draws does not hinge on an identity test against a bool singleton", False, fi, x,
                        msg=f"{fi.short}: `{unparse(x)}` in a routine that requests resampling draws: a truthy flag that is not the literal True (numpy.bool_, np.all(..), 1) takes the other branch, "
                            f"so the count of returned indices is not the documented one", key=f"bool-identity:{fi.short}")
        for c in sites:
            size = call_arg(c, 0, "size")
            w = call_arg(c, 1, "weights")
            rs = ExprResolver(fi.node)
            at = flow_of(fi.node).node_containing(c)
            sz = rs.resolve(size, at) if (size is not None and at is not None) else size
            txt = norm_text(sz) if sz is not None else ""
            wt = norm_text(w) if w is not None else "?"
            ok = txt in (f"len({wt})", f"{wt}.size", f"{wt}.shape[0]") or txt.endswith("n_particles") or (isinstance(sz, ast.Name) and sz.id in fi.params)
            R.check("C06.h", f"{fi.short}: the requested number of draws is the length of the weight vector (or the configured particle count)", ok, fi, c,
                    msg=f"{fi.short}: `{unparse(c)[:70]}` requests `{unparse(sz)[:50] if sz is not None else '?'}` draws: not the length of the weights it passes nor the particle count",
                    key=f"draw-count:{fi.short}")
    R.floor("C06.h", "internal call sites of the systematic routine", n, 2)


def run(ctx: Context, R: Reporter):
    R.guard(rule_g, ctx, R)
    fi = systematic_fn(ctx)
    R.guard(rule_a, ctx, R, fi)
    R.guard(rule_b, ctx, R, fi)
    R.guard(rule_c, ctx, R, fi)
    R.guard(rule_d, ctx, R, fi)
    R.guard(rule_e, ctx, R, fi)
    R.guard(rule_f, ctx, R, fi)
    R.guard(rule_h, ctx, R, fi)


def _vectorised_comb(expr: str, direct: bool = False):
    """systematic_resample with the walking loop replaced by `indeces = <expr>` (or `return <expr>`)"""
    def apply(sources):
        rel = "tempest/tools.py"
        src = sources.get(rel)
        if src is None:
            return None
        tree = ast.parse(src)
        fn = next((n for n in ast.walk(tree) if isinstance(n, ast.FunctionDef) and n.name == "systematic_resample"), None)
        if fn is None:
            return None
        start = next((i for i, st in enumerate(fn.body) if isinstance(st, ast.Assign) and isinstance(st.targets[0], ast.Name) and st.targets[0].id == "j"), None)
        end = next((i for i, st in enumerate(fn.body) if isinstance(st, ast.Return)), None)
        if start is None or end is None or end <= start:
            return None
        new = ast.parse(f"return {expr}" if direct else f"indeces = {expr}\nreturn indeces").body
        fn.body[start:end + 1] = new
        ast.fix_missing_locations(tree)
        out = dict(sources)
        out[rel] = ast.unparse(tree) + "\n"
        return out
    return apply


def variants():
    from ..variants import chain, insert_before, insert_before_function  # noqa
    from ..variants import Variant, alpha_rename, replace_expr, replace_stmt, set_keyword

    tl = "tempest/tools.py"
    rs = "tempest/steps/resample.py"
    return [
        Variant("h-draw-count-by-identity-with-true", "bad", replace_stmt("tempest/core.py", "SamplerCore.compute_posterior", "idx = systematic_resample(len(weights), weights)",
                                                                          "n_draws = len(weights) if resample is True else int(resample)\nidx = systematic_resample(n_draws, weights)"), ["C06.h"], quick=True),
        Variant("h-posterior-draws-particle-count-of-trimmed", "bad", replace_expr("tempest/core.py", "SamplerCore.compute_posterior", "systematic_resample(len(weights), weights)", "systematic_resample(len(weights) - 1, weights)"), ["C06.h"]),
        Variant("h-benign-count-bound-first", "benign", replace_stmt("tempest/core.py", "SamplerCore.compute_posterior", "idx = systematic_resample(len(weights), weights)", "n_draws = len(weights)\nidx = systematic_resample(n_draws, weights)")),

        Variant("a-drop-bound", "bad", replace_expr(tl, "systematic_resample", "positions[i] > cumulative_sum and j < len(weights) - 1", "positions[i] > cumulative_sum"), ["C06.a"], quick=True),
        Variant("a-off-by-one-bound", "bad", replace_expr(tl, "systematic_resample", "j < len(weights) - 1", "j < len(weights)"), ["C06.a"], quick=True),
        Variant("a-le-bound", "bad", replace_expr(tl, "systematic_resample", "j < len(weights) - 1", "j <= len(weights) - 1"), ["C06.a"]),
        Variant("b-alloc-wrong", "bad", replace_expr(tl, "systematic_resample", "np.empty(size, dtype=int)", "np.empty(len(weights), dtype=int)"), ["C06.b"]),
        # the comb written with searchsorted: decided on its merits (count of positions, clamp), not by its shape
        Variant("b-benign-vectorised-comb-clamped", "benign", _vectorised_comb("np.minimum(np.searchsorted(np.cumsum(weights), positions, side='left'), len(weights) - 1)"), quick=True),
        Variant("b-benign-vectorised-comb-returned-directly", "benign", _vectorised_comb("np.minimum(np.searchsorted(np.cumsum(weights), positions, side='left'), len(weights) - 1)", direct=True)),
        Variant("a-vectorised-comb-unclamped", "bad", _vectorised_comb("np.searchsorted(np.cumsum(weights), positions, side='left')"), ["C06.a"], quick=True),
        Variant("b-vectorised-comb-wrong-count", "bad", _vectorised_comb("np.minimum(np.searchsorted(np.cumsum(weights), positions[:-1], side='left'), len(weights) - 1)"), ["C06.b"], quick=True),
        Variant("b-conditional-store", "bad", replace_stmt(tl, "systematic_resample", "indeces[i] = j", "if j > 0:\n    indeces[i] = j"), ["C06.b"], quick=True),
        Variant("c-per-position-draw", "bad", replace_expr(tl, "systematic_resample", "np.random.random()", "np.random.random(size)"), ["C06.c"], quick=True),
        Variant("c-positions-no-offset-div", "bad", replace_expr(tl, "systematic_resample", "(np.random.random() + np.arange(size)) / size", "np.random.random() + np.arange(size) / size"), ["C06.c"]),
        Variant("d-p-uniform", "bad", replace_expr(rs, "Resampler.run", "np.random.choice(np.arange(len(weights)), size=self.n_particles, replace=True, p=weights)", "np.random.choice(np.arange(len(weights)), size=self.n_particles, replace=True, p=weights ** 2 / np.sum(weights ** 2))"), ["C06.d", "ANALYSIS-ERROR"]),
        Variant("d-multinomial-counts", "bad", replace_stmt(rs, "Resampler.run", "idx_resampled = np.random.choice(np.arange(len(weights)), size=self.n_particles, replace=True, p=weights)", "idx_resampled = np.repeat(np.arange(len(weights)), np.random.multinomial(self.n_particles, weights))"), ["C06.d"]),
        Variant("d-schemes-swapped", "bad", replace_expr(rs, "Resampler.run", "self.resample == 'mult'", "self.resample != 'mult'"), ["C06.d"]),
        Variant("d-no-replace", "bad", set_keyword(rs, "Resampler.run", "np.random.choice", "replace", "False"), ["C06.d"]),
        Variant("d-population-short", "bad", replace_expr(rs, "Resampler.run", "np.arange(len(weights))", "np.arange(self.n_particles)"), ["C06.d"], quick=True),
        Variant("f-cumsum-into-callers-weights", "bad", replace_stmt(tl, "systematic_resample", "j = 0", "cdf = np.asarray(weights, dtype=float)\nnp.cumsum(cdf, out=cdf)\nj = 0"), ["C06.f"], quick=True),
        Variant("f-normalise-caller-weights-in-place", "bad", insert_before(rs, "Resampler.run", "self.state.update_current(", "weights /= np.sum(weights)"), ["C06.f"]),
        Variant("f-cached-comb-shifted-in-place", "bad", chain(insert_before_function(tl, "systematic_resample", "from functools import lru_cache\n\n\n@lru_cache(maxsize=32)\ndef _comb_teeth(size):\n    return np.arange(size) / size\n"),
                                                                  replace_stmt(tl, "systematic_resample", "positions = (np.random.random() + np.arange(size)) / size", "positions = _comb_teeth(size)\npositions += np.random.random() / size")), ["C06.f", "C06.c"]),
        Variant("f-benign-cumsum-of-copy", "benign", replace_stmt(tl, "systematic_resample", "j = 0", "cdf = np.array(weights, dtype=float)\nnp.cumsum(cdf, out=cdf)\nj = 0"), quick=True),
        Variant("g-resampler-pool-cached", "bad", replace_stmt(rs, "Resampler.run", "u = self.state.get_history('u', flat=True)", "if getattr(self, '_u_pool', None) is None or len(self._u_pool) < len(weights):\n    self._u_pool = self.state.get_history('u', flat=True)\nu = self._u_pool"), ["C06.g"]),
        Variant("benign-bound-form", "benign", replace_expr(tl, "systematic_resample", "j < len(weights) - 1", "j + 1 < len(weights)"), quick=True),
        Variant("benign-bound-local", "benign", replace_stmt(tl, "systematic_resample", "j = 0", "j = 0\nn_w = len(weights)")),
        Variant("benign-rename-j", "benign", alpha_rename(tl, "systematic_resample", "j", "k")),
    ]
