"""C14  Cluster labels and proposal modes stay coherent for every history and cadence.

  C14.a  fitted-before-predict (typestate A5): every `predict` on the shared
         clusterer is dominated by a `fit` in the same call, or guarded by a fact
         on an attribute that `fit` assigns, or preceded in the pipeline by a
         training step all of whose relevant paths establish FITTED
  C14.b  label-space agreement: mode arrays indexed by raw predicted labels must
         be built over the raw label range, not over the labels that happen to
         occur (np.unique -> rank space)
  C14.c  validity by construction + sibling agreement of the two factories
  C14.d  per-cluster fit uses the rows and weights of that same cluster
  C14.e  cap wiring: max_iterations handed to the clusterer + 1 <= n_max_clusters
"""
from __future__ import annotations

import ast
from typing import Dict, List, Optional, Set, Tuple

from ..cfg import cfg_of
from ..dataflow import Resolver as ExprResolver
from ..dataflow import flow_of
from ..engine import Context, Reporter
from ..model import AnalysisError, ClassInfo, FuncInfo, dotted, norm_text, walk_no_nested
from ..records import discover_sites
from ..util import _inline_bool_names, bound_arguments, call_arg, calls_in, calls_in_node, const_value, forced_atoms, path_facts, unparse

PROP = "C14"
EXPLANATION = (
    "Typestate analysis of the shared clusterer over the pipeline (UNFITTED --fit--> FITTED; predict legal only in "
    "FITTED): each predict site must be dominated by a fit, guarded by a fact on an attribute assigned in fit (decided "
    "by a truth table over the path's branch atoms), or preceded by a training step whose every relevant path "
    "establishes FITTED. Index-space typing of the mode arrays (raw label space vs rank among occurring labels), "
    "construction of mode statistics only through the validating constructor, sibling agreement of the two factories, "
    "same-cluster extraction and the cluster-cap wiring are decided structurally. Finiteness of fitted means and "
    "positivity of fitted degrees of freedom are numerical and not decided."
    " Also under (a): the arrays fitted and labelled by the shared clusterer are rows of the stored positions in one frame (no arithmetic on the way in)."
)
ASSUMPTIONS = ["np.linalg.cholesky raises unless its argument is symmetric positive definite", "clusterer attributes are only assigned by its own methods",
               "the trainer and resampler read the same beta in one iteration (C05.e: nothing writes beta between them)"]


def shared_clusterer(ctx: Context) -> Tuple[ClassInfo, FuncInfo, List[Tuple[ClassInfo, str]]]:
    """(clusterer class, wiring function, [(step class, attribute name)])."""
    for fi in ctx.prog.functions.values():
        uses: Dict[str, List[Tuple[ClassInfo, str]]] = {}
        for (call, tg) in ctx.cg.sites.get(fi.qualname, []):
            for t in tg:
                if isinstance(t, ClassInfo):
                    for (pname, val) in bound_arguments(call):
                        if isinstance(val, ast.Name) and pname:
                            uses.setdefault(val.id, []).append((t, pname))
        for name, lst in uses.items():
            if len({c.qualname for (c, _) in lst}) >= 2:
                types = [t for t in ctx.res.expr_types(fi, ast.Name(id=name, ctx=ast.Load())) if isinstance(t, ClassInfo)]
                for t in types:
                    if "fit" in t.methods and "predict" in t.methods:
                        return t, fi, lst
    raise AnalysisError("C14: shared clusterer wiring not found")


def fit_assigned_attrs(cl: ClassInfo) -> Set[str]:
    out = set()
    for n in walk_no_nested(cl.methods["fit"].node):
        if isinstance(n, (ast.Assign, ast.AugAssign)):
            tgts = n.targets if isinstance(n, ast.Assign) else [n.target]
            for t in tgts:
                if isinstance(t, ast.Attribute) and isinstance(t.value, ast.Name) and t.value.id == "self":
                    out.add(t.attr)
    return out


def init_constants(cl: ClassInfo) -> Dict[str, object]:
    out = {}
    init = cl.methods.get("__init__")
    if init is None:
        return out
    for n in walk_no_nested(init.node):
        if isinstance(n, ast.Assign) and len(n.targets) == 1 and isinstance(n.targets[0], ast.Attribute) and isinstance(n.targets[0].value, ast.Name) and n.targets[0].value.id == "self":
            v = n.value
            if isinstance(v, ast.Constant):
                out[n.targets[0].attr] = v.value
            elif isinstance(v, ast.List) and not v.elts:
                out[n.targets[0].attr] = []
    return out


def _unfitted_value_of_atom(atom: ast.expr, recv_text: str, inits: Dict[str, object], fit_attrs: Set[str]):
    """Truth value of a guard atom in the UNFITTED state (attributes at their
    constructor constants); None if the atom is not such a guard."""
    if isinstance(atom, ast.Compare) and len(atom.ops) == 1:
        l, r = atom.left, atom.comparators[0]
        for (a, b, flip) in ((l, r, False), (r, l, True)):
            if isinstance(a, ast.Attribute) and norm_text(a.value) == recv_text and a.attr in fit_attrs and a.attr in inits and isinstance(b, ast.Constant):
                iv, cv = inits[a.attr], b.value
                op = atom.ops[0]
                try:
                    if isinstance(op, ast.Eq):
                        return iv == cv
                    if isinstance(op, ast.NotEq):
                        return iv != cv
                    if isinstance(op, ast.Is):
                        return iv is cv
                    if isinstance(op, ast.IsNot):
                        return iv is not cv
                    if isinstance(op, (ast.Gt, ast.Lt, ast.GtE, ast.LtE)) and isinstance(iv, (int, float)) and isinstance(cv, (int, float)):
                        x, y = (cv, iv) if flip else (iv, cv)
                        return {ast.Gt: x > y, ast.Lt: x < y, ast.GtE: x >= y, ast.LtE: x <= y}[type(op)]
                except Exception:
                    return None
    if isinstance(atom, ast.Attribute) and norm_text(atom.value) == recv_text and atom.attr in fit_attrs and atom.attr in inits:
        return bool(inits[atom.attr])
    return None


def _guard_forced(facts, recv_text, inits, fit_attrs) -> Tuple[bool, str]:
    atoms, forced = forced_atoms(facts)
    if forced == "unsat":
        return True, "path condition unsatisfiable"
    if forced is None:
        return False, "too many atoms"
    for a, fv in zip(atoms, forced):
        if fv is None:
            continue
        uv = _unfitted_value_of_atom(a, recv_text, inits, fit_attrs)
        if uv is not None and uv != fv:
            return True, f"`{unparse(a)}` is {fv} here but {uv} in the unfitted state"
    return False, "no fact distinguishes FITTED from the constructor state"


def _ifexp_facts(root: ast.AST, target: ast.AST) -> List[Tuple[ast.expr, bool]]:
    """Conditions of enclosing conditional expressions / short-circuit operators."""
    out: List[Tuple[ast.expr, bool]] = []

    def visit(n, acc):
        if n is target:
            out.extend(acc)
            return True
        if isinstance(n, ast.IfExp):
            if visit(n.test, acc):
                return True
            if visit(n.body, acc + [(n.test, True)]):
                return True
            return visit(n.orelse, acc + [(n.test, False)])
        for c in ast.iter_child_nodes(n):
            if visit(c, acc):
                return True
        return False

    visit(root, [])
    return out


def _resolved(fi: FuncInfo, e: ast.expr, at) -> ast.expr:
    return ExprResolver(fi.node).resolve(_inline_bool_names(fi.node, e, at), at)


def rule_a(ctx: Context, R: Reporter):
    cl, wiring, users = shared_clusterer(ctx)
    fit_attrs = fit_assigned_attrs(cl)
    inits = init_constants(cl)
    R.analysed["C14.a:clusterer"] = cl.qualname
    R.analysed["C14.a:users"] = [f"{c.name}.{a}" for (c, a) in users]
    # pipeline order: functions calling >=2 step `run`s
    step_classes = {c.qualname: (c, a) for (c, a) in users}
    sites = []
    for (sc, attr) in users:
        for m in sc.methods.values():
            fl = flow_of(m.node)
            for nd in fl.cfg.stmt_nodes():
                for c in calls_in_node(nd):
                    if isinstance(c.func, ast.Attribute) and c.func.attr in ("predict", "predict_proba") and cl in [t for t in ctx.res.expr_types(m, c.func.value) if isinstance(t, ClassInfo)]:
                        sites.append((sc, m, nd, c))
    R.floor("C14.a", "predict sites on the shared clusterer", len(sites), 2)
    # the clusterer is fitted and queried in unit-cube coordinates only
    from ..records import Tagger

    n_args = 0
    for (sc, attr) in users:
        for m in sc.methods.values():
            fl = flow_of(m.node)
            tgr = Tagger(ctx, m)
            for nd in fl.cfg.stmt_nodes():
                for c in calls_in_node(nd):
                    if isinstance(c.func, ast.Attribute) and c.func.attr in ("fit", "predict", "predict_proba") and cl in [t for t in ctx.res.expr_types(m, c.func.value) if isinstance(t, ClassInfo)] and c.args:
                        n_args += 1
                        tag = tgr.tag(c.args[0], nd)
                        R.check("C14.a", f"{m.short}: the clusterer's {c.func.attr} receives unit-cube coordinates", tag == "u", m, c,
                                msg=f"{m.short}: `{unparse(c)[:60]}` passes an array of field '{tag}' to the clusterer, which is fitted in unit-cube coordinates `u`: labels are "
                                    f"predicted in the wrong coordinate system and refer to other clusters' modes", key=f"cluster-coords:{m.short}:{c.func.attr}:{_ord(c, m)}")
    R.floor("C14.a", "clusterer fit/predict argument sites", n_args, 3)
    # ... and in one frame: what is fitted and what is labelled are rows of the stored positions, not a shifted / rotated /
    # rescaled copy of them (a transformation applied on one side only puts labels and modes in different frames)
    n_frame = 0
    for (sc, attr) in users:
        for m in sc.methods.values():
            fl = flow_of(m.node)
            tgr = Tagger(ctx, m)
            for nd in fl.cfg.stmt_nodes():
                for c in calls_in_node(nd):
                    if not (isinstance(c.func, ast.Attribute) and c.func.attr in ("fit", "predict", "predict_proba") and cl in [t for t in ctx.res.expr_types(m, c.func.value) if isinstance(t, ClassInfo)] and c.args):
                        continue
                    n_frame += 1
                    todo = [(c.args[0], nd, 0)]
                    seen_defs = set()
                    verdict = None
                    while todo and verdict is None:
                        e, at, depth = todo.pop()

                        def outside_slices(x):
                            yield x
                            for f_, v_ in ast.iter_fields(x):
                                if isinstance(x, ast.Subscript) and f_ == "slice":
                                    continue
                                for ch in (v_ if isinstance(v_, list) else [v_]):
                                    if isinstance(ch, ast.AST):
                                        yield from outside_slices(ch)

                        for x in outside_slices(e):
                            if isinstance(x, ast.BinOp) and not isinstance(x.op, ast.MatMult) and any(tgr.tag(o, at) == "u" for o in (x.left, x.right)):
                                verdict = x
                                break
                            if isinstance(x, ast.Call) and (ctx.res.external_name(m, x) or "") in ("numpy.mod", "numpy.remainder", "numpy.add", "numpy.subtract", "numpy.multiply", "numpy.roll") \
                                    and x.args and tgr.tag(x.args[0], at) == "u":
                                verdict = x
                                break
                            if isinstance(x, ast.Name) and isinstance(x.ctx, ast.Load) and depth < 6:
                                for d in fl.reaching(at, x.id):
                                    if d.kind == "assign" and d.value is not None and id(d) not in seen_defs and d.node is not None:
                                        seen_defs.add(id(d))
                                        if d.path and isinstance(d.value, ast.Call) and any(isinstance(t, FuncInfo) for t in ctx.res.call_targets(m, d.value)):
                                            raise AnalysisError(f"C14.a: {m.short}: the clusterer's argument comes out of the helper call `{unparse(d.value)[:50]}` (frame not followed)")
                                        todo.append((d.value, d.node, depth + 1))
                                    elif d.kind == "aug" and isinstance(d.value, ast.AugAssign) and tgr.tag(d.value.target, d.node) == "u" and id(d) not in seen_defs:
                                        seen_defs.add(id(d))
                                        verdict = d.value
                    R.check("C14.a", f"{m.short}: the clusterer's {c.func.attr} receives the stored positions themselves (one frame for fitting and labelling)", verdict is None, m, c,
                            msg=f"{m.short}: the array passed to `{unparse(c)[:50]}` is a transformed copy of the positions (`{unparse(verdict)[:50] if verdict is not None else ''}`): the other users of the shared "
                                f"clusterer work in the stored frame, so walkers are labelled with modes fitted in another frame", key=f"cluster-frame:{m.short}:{c.func.attr}:{_ord(c, m)}")
    R.floor("C14.a", "clusterer argument sites checked for one frame", n_frame, 3)
    for (sc, m, nd, c) in sites:
        fl = flow_of(m.node)
        cfg = fl.cfg
        recv = norm_text(c.func.value)
        # (i) dominated by a fit on the same receiver
        fit_nodes = [n2 for n2 in cfg.stmt_nodes() for c2 in calls_in_node(n2) if isinstance(c2.func, ast.Attribute) and c2.func.attr == "fit" and norm_text(c2.func.value) == recv]
        dominated = any(cfg.dominates(f.id, nd.id) and f.id != nd.id for f in fit_nodes)
        why = ""
        ok = dominated
        facts = [(t, p) for (t, p) in path_facts(m.node, nd)] + _ifexp_facts(nd.ast, c)
        facts = [(_resolved(m, t, nd), p) for (t, p) in facts]
        if not ok:
            ok, why = _guard_forced(facts, recv, inits, fit_attrs)
        if not ok and fit_nodes:
            # `if refit: fit(...)` followed by an unconditional predict: only the paths that by-pass the fit need the guard
            from ..util import path_facts_avoiding

            pf = path_facts_avoiding(m.node, nd, [f.id for f in fit_nodes])
            if pf is None:
                ok, why = True, "every path passes a fit"
            elif pf:
                facts2 = [(_resolved(m, t, nd), p) for (t, p) in pf] + facts
                ok, why = _guard_forced(facts2, recv, inits, fit_attrs)
                if ok:
                    facts = facts2
        if not ok:
            # (iii) an earlier pipeline step establishes FITTED under the same gating facts
            ok, why = _pipeline_establishes(ctx, cl, users, sc, m, facts, inits, fit_attrs)
        R.check(
            "C14.a", f"predict in {m.short} runs on a fitted clusterer", ok, m, c,
            msg=f"{m.short}: `{unparse(c)[:60]}` can run on a clusterer that was never fitted ({why}); e.g. cluster_every > 1 reaches it before the first fit "
                f"and normalisation bounds / cluster centres are unset",
            witness={"path_facts": [(unparse(t)[:60], p) for (t, p) in facts], "reason": why}, key=f"predict-unfitted:{m.short}:{norm_text(c)[:40]}:{nd.lineno if False else ''}{_ordinal(sites, (sc, m, nd, c))}",
        )


def _ord(call: ast.Call, m: FuncInfo) -> int:
    same = [c for c in calls_in(m.node) if isinstance(c.func, ast.Attribute) and isinstance(call.func, ast.Attribute) and c.func.attr == call.func.attr and norm_text(c.func.value) == norm_text(call.func.value)]
    return same.index(call) if call in same else 0


def _ordinal(sites, s) -> int:
    same = [x for x in sites if x[1] is s[1]]
    return same.index(s)


def _pipeline_establishes(ctx, cl, users, sc, m, facts, inits, fit_attrs) -> Tuple[bool, str]:
    # find the pipeline function: calls run of >= 2 of the user step classes on self.<attr>
    for fi in ctx.prog.functions.values():
        fl = flow_of(fi.node)
        calls = []
        for nd in fl.cfg.stmt_nodes():
            for c in calls_in_node(nd):
                for t in ctx.res.call_targets(fi, c):
                    if isinstance(t, FuncInfo) and t.cls is not None and any(t.cls is u for (u, _) in users):
                        calls.append((nd, t))
        mine = [(nd, t) for (nd, t) in calls if t is m]
        others = [(nd, t) for (nd, t) in calls if t is not m]
        if not mine or not others:
            continue
        # gating facts to transplant: atoms over the shared wiring (clustering flag, current beta)
        gating = []
        for (t, p) in facts:
            txt = norm_text(t)
            if "clustering" in txt or "get_current('beta')" in txt:
                gating.append((t, p))
        for (nd_o, t_o) in others:
            if not all(fl.cfg.dominates(nd_o.id, nd_m.id) for (nd_m, _) in mine):
                continue
            ok, why = _establishes_fitted(ctx, cl, t_o, gating, inits, fit_attrs)
            if ok:
                # same object wired into both steps
                return True, f"{t_o.short} runs first and establishes FITTED"
            return False, why
    return False, "no earlier pipeline step fits the clusterer"


def _establishes_fitted(ctx, cl, f: FuncInfo, gating, inits, fit_attrs) -> Tuple[bool, str]:
    fl = flow_of(f.node)
    cfg = fl.cfg
    recvs = set()
    fit_nodes = set()
    for nd in cfg.stmt_nodes():
        for c in calls_in_node(nd):
            if isinstance(c.func, ast.Attribute) and c.func.attr == "fit" and cl in [t for t in ctx.res.expr_types(f, c.func.value) if isinstance(t, ClassInfo)]:
                fit_nodes.add(nd.id)
                recvs.add(norm_text(c.func.value))
    if not recvs:
        return False, f"{f.short} never fits the clusterer"
    recv = sorted(recvs)[0]
    try:
        paths = cfg.acyclic_paths(cfg.entry.id, cfg.exit.id, limit=4000)
    except OverflowError:
        raise AnalysisError(f"C14.a: too many paths in {f.short}")
    for p in paths:
        if any(nid in fit_nodes for (nid, _) in p):
            continue
        conds = []
        for (nid, lab) in p:
            if lab and lab[0] == "cond":
                # the condition is evaluated at the predecessor test node
                conds.append((lab[1], lab[2]))
        facts = []
        for (t, pol) in conds:
            tn = fl.node_containing(t)
            facts.append((_resolved(f, t, tn), pol))
        facts += gating
        ok, why = _guard_forced(facts, recv, inits, fit_attrs)
        if not ok:
            path_txt = [repr(cfg.nodes[nid]) for (nid, _) in p if cfg.nodes[nid].kind == "test"][:6]
            return False, f"path of {f.short} through {path_txt} neither fits nor is guarded by a fitted-state fact ({why})"
    return True, ""


# ------------------------------------------------------------------ C14.b
def mode_class(ctx: Context) -> ClassInfo:
    """By role: the class with >= 2 classmethod factories returning cls(...)
    whose constructor stores means / covariances / degrees of freedom."""
    for c in ctx.prog.classes.values():
        cms = [m for m in c.methods.values() if m.is_classmethod and any(isinstance(r, ast.Return) and isinstance(r.value, ast.Call) and dotted(r.value.func).split(".")[0] == "cls" for r in walk_no_nested(m.node))]
        if len(cms) >= 2 and "__init__" in c.methods and {"means", "covariances"} <= set(c.methods["__init__"].params):
            return c
    raise AnalysisError("C14: mode-statistics class (constructor(means, covariances, ...) + factories) not found")


def rule_b(ctx: Context, R: Reporter):
    mc = mode_class(ctx)
    # consumers: kernel subscripts by assignments
    from .c07 import kernel_base

    base = kernel_base(ctx)
    n_cons = 0
    for c in [base] + ctx.prog.subclasses(base):
        for m in c.methods.values():
            fl = flow_of(m.node)
            rs = ExprResolver(m.node)
            for s in walk_no_nested(m.node):
                if isinstance(s, ast.Subscript) and isinstance(s.ctx, ast.Load):
                    at = fl.node_containing(s)
                    sl = rs.resolve(s.slice, at) if at is not None and isinstance(s.slice, ast.expr) else s.slice
                    if "assignments" in norm_text(sl) and "assignments" not in norm_text(s.value):
                        n_cons += 1
    R.floor("C14.b", "kernel subscripts by raw cluster label", n_cons, 4)
    # producers: factories taking labels
    n_prod = 0
    for m in mc.methods.values():
        if not m.is_classmethod or "labels" not in m.params:
            continue
        fl = flow_of(m.node)
        for nd in fl.cfg.stmt_nodes():
            if nd.kind != "for":
                continue
            # a loop that appends per-mode statistics
            appends = [c for st in nd.stmt.body for c in ast.walk(st) if isinstance(c, ast.Call) and isinstance(c.func, ast.Attribute) and c.func.attr == "append"]
            if not appends:
                continue
            n_prod += 1
            it = ExprResolver(m.node).resolve(nd.stmt.iter, nd)
            is_unique = isinstance(it, ast.Call) and (ctx.res.external_name(m, it) or "") == "numpy.unique"
            is_range = isinstance(it, ast.Call) and dotted(it.func) == "range"
            R.check(
                "C14.b", "mode arrays are built over the raw label range (index space of the kernel's assignments)", is_range and not is_unique, m, nd.stmt,
                msg=f"{m.short}: per-mode statistics are appended while iterating `{unparse(it)[:50]}`: position = rank of the label among the labels that occur, "
                    f"but the kernel indexes means/covariances/dof with raw predicted labels ({n_cons} subscripts by `assignments`); a fitted cluster that attracts no "
                    f"training point shifts every later mode and the largest label runs out of range",
                witness={"iterates": unparse(it), "consumer_subscripts": n_cons}, key="rank-space-vs-label-space",
            )
            # one mode per label, on every path: nothing skips an iteration of the producer loop before its appends
            if True:
                cfg = fl.cfg
                app_nodes = {fl.node_containing(c).id for c in appends if fl.node_containing(c) is not None}
                body_first = [t for (t, lab) in cfg.succ[nd.id] if lab and lab[0] == "iter" and lab[1] is True] or [t for (t, lab) in cfg.succ[nd.id] if t != nd.id][:1]
                skips = any(cfg.reaches(b, nd.id, blocked=app_nodes) or b == nd.id for b in body_first if b not in app_nodes)
                R.check("C14.b", "every label of the range gets exactly one mode (no iteration skips its appends)", not skips, m, nd.stmt,
                        msg=f"{m.short}: an iteration of `for {unparse(nd.stmt.target)} in {unparse(it)[:40]}` can return to the loop head without appending (a `continue` / conditional "
                            f"append): later modes shift down one position while the kernel keeps indexing with raw labels", key="producer-loop-skips")
    R.floor("C14.b", "per-mode producer loops", n_prod, 1)
    # per-cluster vectors derived from the labels must span the whole label range: bincount/unique counts have the
    # length of the largest *occurring* label + 1 (or the number of occurring labels), not the number of clusters
    for c in [base] + ctx.prog.subclasses(base):
        for m in c.methods.values():
            fl = flow_of(m.node)
            rs = ExprResolver(m.node)
            for x in calls_in(m.node):
                nm = ctx.res.external_name(m, x) or ""
                if nm == "numpy.bincount" and x.args:
                    at = fl.node_containing(x)
                    a0 = rs.resolve(x.args[0], at) if at is not None else x.args[0]
                    if "assignments" in norm_text(a0) or "labels" in norm_text(a0):
                        ml = call_arg(x, 2, "minlength")
                        okm = ml is not None and ("n_clusters" in norm_text(rs.resolve(ml, at) if at is not None else ml) or "len(" in norm_text(ml))
                        R.check("C14.b", f"{m.short}: a per-cluster count vector spans all clusters", okm, m, x,
                                msg=f"{m.short}: `{unparse(x)[:60]}` has length max(label)+1, not n_clusters: when the highest-numbered cluster holds no active particle the vector is "
                                    f"shorter than the per-cluster arrays it is combined with (shape error in a valid run)", key=f"bincount-minlength:{m.short}")


# ------------------------------------------------------------------ C14.c
def _factory_sequence(ctx: Context, m: FuncInfo, _depth: int = 0) -> List[str]:
    """Ordered role sequence of a factory: normalise, resample, fit, dof-guard,
    construct.  Calls of helpers of the same class / module are spliced in."""
    fl = flow_of(m.node)
    seq = []
    for nd in sorted(fl.cfg.stmt_nodes(), key=lambda n: n.lineno):
        if _depth < 2:
            for c in calls_in_node(nd):
                for t in ctx.res.call_targets(m, c):
                    if isinstance(t, FuncInfo) and t is not m and ((t.cls is not None and t.cls is m.cls and not t.is_classmethod) or (t.cls is None and t.module is m.module)) and not t.name.startswith("fit_"):
                        seq += _factory_sequence(ctx, t, _depth + 1)
        s = nd.stmt
        if nd.kind == "stmt" and isinstance(s, ast.Assign) and isinstance(s.value, ast.BinOp) and isinstance(s.value.op, ast.Div):
            r = s.value.right
            if isinstance(r, ast.Call) and (ctx.res.external_name(m, r) or "") == "numpy.sum" and norm_text(r.args[0]) == norm_text(s.value.left) and "weights" in norm_text(s.value.left):
                seq.append("normalise")
        for c in calls_in_node(nd):
            nm = ctx.res.external_name(m, c) or ""
            if nm == "numpy.random.choice":
                p = call_arg(c, 3, "p")
                rep = call_arg(c, 2, "replace")
                from ..dataflow import expr_leaves as _leaves

                derives = False
                if p is not None:
                    lv, _v = _leaves(m.node, p, nd)
                    derives = "weights" in norm_text(p) or any(l.kind == "param" and "weight" in l.text for l in lv)
                seq.append("resample(p=weights)" if derives and (rep is None or const_value(rep) is True) else "resample(?)")
            for t in ctx.res.call_targets(m, c):
                if isinstance(t, FuncInfo) and t.cls is None and t.name.startswith("fit_"):
                    seq.append("fit")
                if isinstance(t, ClassInfo) and t is m.cls:
                    seq.append("construct")
            if dotted(c.func) == "cls":
                seq.append("construct")
        if nd.kind == "test":
            if any(isinstance(c, ast.Call) and (ctx.res.external_name(m, c) or "") in ("numpy.isfinite", "numpy.isinf", "numpy.isnan") for c in ast.walk(nd.ast)):
                seq.append("dof-guard")
    # collapse consecutive duplicates
    out = []
    for x in seq:
        if not out or out[-1] != x:
            out.append(x)
    return out


def rule_c(ctx: Context, R: Reporter):
    mc = mode_class(ctx)
    init = mc.methods["__init__"]
    calls = {ctx.res.external_name(init, c) for c in calls_in(init.node)}
    R.check("C14.c", "constructor factorises the covariances (Cholesky raises unless SPD)", "numpy.linalg.cholesky" in calls and "numpy.linalg.inv" in calls, init, init.node,
            msg=f"{init.short}: no Cholesky/inverse of the covariances at construction; invalid scale matrices reach the kernel", key="ctor-cholesky")
    chol = [c for c in calls_in(init.node) if ctx.res.external_name(init, c) == "numpy.linalg.cholesky"]
    for c in chol:
        R.check("C14.c", "Cholesky is applied to the stored covariances", "covariances" in norm_text(c.args[0]) if c.args else False, init, c,
                msg=f"{init.short}: `{unparse(c)}`", key="chol-arg")
    raises = [n for n in walk_no_nested(init.node) if isinstance(n, ast.Raise)]
    R.check("C14.c", "constructor validates shapes (means/covariances/dof agree on K and n_dim)", len(raises) >= 2, init, init.node,
            msg=f"{init.short}: only {len(raises)} shape validation(s)", key="ctor-shape-validation")
    # every creation goes through the constructor: no object.__new__/copy tricks; factories return cls(...)
    facs = [m for m in mc.methods.values() if m.is_classmethod]
    R.floor("C14.c", "factories", len(facs), 2)
    seqs = {}
    for m in facs:
        rets = [r for r in walk_no_nested(m.node) if isinstance(r, ast.Return) and r.value is not None]
        ok = all(isinstance(r.value, ast.Call) and dotted(r.value.func) in ("cls", mc.name) for r in rets) and bool(rets)
        R.check("C14.c", f"{m.short} returns an instance built by the validating constructor", ok, m, rets[0] if rets else m.node,
                msg=f"{m.short}: returns `{unparse(rets[0].value)[:50] if rets else None}`", key=f"factory-returns-ctor:{m.name}")
        seqs[m.name] = _factory_sequence(ctx, m)
    want = ["normalise", "resample(p=weights)", "fit", "dof-guard", "construct"]
    for name, seq in seqs.items():
        core = [x for x in seq if x in want or x.startswith("resample")]
        # per-cluster factory normalises twice (global, then per cluster)
        dedup = []
        for x in core:
            if not dedup or dedup[-1] != x:
                dedup.append(x)
        R.check("C14.c", f"factory {name} follows normalise -> weighted resample -> Student-t fit -> non-finite-dof fallback -> construct", dedup == want, mc.methods[name], mc.methods[name].node,
                msg=f"{mc.name}.{name}: role sequence {dedup} differs from {want} (its sibling factories: { {k: v for k, v in seqs.items() if k != name} })", key=f"factory-sequence:{name}")
    # other creation sites
    n_sites = 0
    for fi in ctx.prog.functions.values():
        for (call, tg) in ctx.cg.sites.get(fi.qualname, []):
            if mc in tg or any(isinstance(t, FuncInfo) and t.cls is mc and t.is_classmethod for t in tg):
                n_sites += 1
    R.floor("C14.c", "creation sites of mode statistics", n_sites, 3)
    # who-may-write: the fitted quantities and the factors derived from them in the constructor are never
    # re-bound or written in place from outside the class (the inverse / Cholesky factor would no longer
    # belong to the stored covariance, the location would no longer be the fitted one)
    fields = set()
    for n in walk_no_nested(init.node):
        if isinstance(n, ast.Assign):
            for t in n.targets:
                if isinstance(t, ast.Attribute) and isinstance(t.value, ast.Name) and t.value.id == "self":
                    fields.add(t.attr)
    n_w = 0
    for fi in ctx.prog.functions.values():
        if fi.cls is mc:
            continue
        fl = flow_of(fi.node)
        for n in walk_no_nested(fi.node):
            tgts = n.targets if isinstance(n, ast.Assign) else ([n.target] if isinstance(n, (ast.AugAssign, ast.AnnAssign)) else [])
            outs = [k.value for c in ([n] if isinstance(n, ast.Call) else []) for k in c.keywords if k.arg == "out"]
            for t in list(tgts) + outs:
                base = t
                while isinstance(base, ast.Subscript):
                    base = base.value
                if isinstance(base, ast.Attribute) and base.attr in fields and not (isinstance(base.value, ast.Name) and base.value.id == "self"):
                    at = fl.node_containing(n)
                    types = ctx.res.expr_types(fi, base.value, at)
                    if mc in types or (not types and "mode" in norm_text(base.value)):
                        n_w += 1
                        R.check("C14.c", "mode statistics are written only by their validating constructor", False, fi, n,
                                msg=f"{fi.short}: `{unparse(n)[:70]}` changes `{base.attr}` of a fitted {mc.name} after construction: the mode handed to the kernel is no longer the one "
                                    f"fitted from the cluster's particles (and the precomputed inverse / Cholesky factors no longer match)", key=f"mode-attr-write:{fi.short}:{base.attr}")
    R.check("C14.c", "no function outside the mode class writes its fitted attributes", n_w == 0, init, init.node, key="mode-attr-writers")


# ------------------------------------------------------------------ C14.d
def rule_d(ctx: Context, R: Reporter):
    mc = mode_class(ctx)
    n = 0
    for m in mc.methods.values():
        if not m.is_classmethod or "labels" not in m.params:
            continue
        sites = [s for s in discover_sites(ctx, m) if {"u", "weights"} <= s.fields()]
        for s in sites:
            n += 1
            fl = flow_of(m.node)
            # the index derives from labels == loop label
            idx_defs = [d for d in fl.reaching(s.moves[0].node, s.index_name)]
            ok = False
            for d in idx_defs:
                if d.value is None:
                    continue
                dv = ExprResolver(m.node).resolve(d.value, d.node)
                for c in ast.walk(dv):
                    if isinstance(c, ast.Compare) and len(c.ops) == 1 and isinstance(c.ops[0], ast.Eq):
                        names = {x.id for x in ast.walk(c) if isinstance(x, ast.Name)}
                        loopvars = {fl.cfg.nodes[h].stmt.target.id for h in d.node.loops if fl.cfg.nodes[h].kind == "for" and isinstance(fl.cfg.nodes[h].stmt.target, ast.Name)}
                        if "labels" in names and names & loopvars:
                            ok = True
            R.check("C14.d", "per-cluster rows and weights are selected by the same `labels == label` index", ok, m, s.moves[0].stmt,
                    msg=f"{m.short}: index `{s.index_name}` is not derived from `labels == <loop label>`", key=f"cluster-index:{m.name}")
            # the fit consumes the u selected (through the resampling index) and the dof/mean/cov appended come from that fit
        if not sites:
            n += 1
            R.check("C14.d", "per-cluster extraction moves u and weights with one index", False, m, m.node,
                    msg=f"{m.short}: no site selecting both u and weights of a cluster with one index", key=f"cluster-site:{m.name}")
    R.floor("C14.d", "per-cluster extraction sites", n, 1)


# ------------------------------------------------------------------ C14.f
def rule_f(ctx: Context, R: Reporter):
    """The labels handed to a mode-statistics factory are the shared clusterer's
    predictions for exactly the rows handed over with them (same array, same
    call): `mode k` is then fitted from the particles that predict() assigns to
    k, which is how the mutation step will address it."""
    cl, wiring, users = shared_clusterer(ctx)
    mc = mode_class(ctx)
    facs = [m for m in mc.methods.values() if m.is_classmethod and "labels" in m.params]
    n = 0
    for (sc, attr) in users:
        for m in sc.methods.values():
            fl = flow_of(m.node)
            for nd in fl.cfg.stmt_nodes():
                for c in calls_in_node(nd):
                    tg = [t for t in ctx.res.call_targets(m, c) if isinstance(t, FuncInfo)]
                    fac = next((t for t in tg if t in facs), None)
                    if fac is None:
                        continue
                    ps = [p for p in fac.params if p not in ("cls", "self")]
                    lab = call_arg(c, ps.index("labels"), "labels")
                    rows = call_arg(c, 0, ps[0])
                    n += 1
                    ok = False
                    why = "labels argument not resolvable"
                    if isinstance(lab, ast.Name) and isinstance(rows, ast.Name):
                        ds = fl.reaching(nd, lab.id)
                        why = f"`{lab.id}` has {len(ds)} reaching definitions"
                        if len(ds) == 1 and ds[0].kind == "assign" and ds[0].value is not None and not ds[0].path:
                            v = ds[0].value
                            why = f"`{lab.id} = {unparse(v)[:50]}`"
                            if isinstance(v, ast.Call) and isinstance(v.func, ast.Attribute) and v.func.attr == "predict" and cl in [t for t in ctx.res.expr_types(m, v.func.value) if isinstance(t, ClassInfo)]:
                                a0 = v.args[0] if v.args else None
                                same = isinstance(a0, ast.Name) and a0.id == rows.id and {id(d) for d in fl.reaching(ds[0].node, a0.id)} == {id(d) for d in fl.reaching(nd, rows.id)}
                                ok = same
                                why = "" if same else f"predict() is given `{unparse(a0) if a0 is not None else '?'}`, the factory `{rows.id}`"
                    if isinstance(lab, ast.Call) and isinstance(rows, ast.Name) and isinstance(lab.func, ast.Attribute) and lab.func.attr == "predict" \
                            and cl in [t for t in ctx.res.expr_types(m, lab.func.value) if isinstance(t, ClassInfo)]:
                        # predict(rows) written in the call itself
                        a0 = lab.args[0] if lab.args else None
                        ok = isinstance(a0, ast.Name) and a0.id == rows.id
                        why = "" if ok else f"predict() is given `{unparse(a0) if a0 is not None else '?'}`, the factory `{rows.id}`"
                    R.check("C14.f", f"{m.short}: factory labels are predict() of the shared clusterer on the rows passed with them", ok, m, c,
                            msg=f"{m.short}: `{unparse(c)[:60]}`: {why}; labels that are not predict(u) of the fitted clusterer (e.g. the training labels of fit(), which "
                                f"need not agree with predict()) make mode k describe particles that mutation will not assign to k", key=f"factory-labels:{m.short}")
    R.floor("C14.f", "factory calls with a labels argument in the clusterer's users", n, 1)


# ------------------------------------------------------------------ C14.g
def rule_g(ctx: Context, R: Reporter):
    """The labels stored under `assignments` together with new unit-cube rows are
    predict() of the shared clusterer on exactly those rows (or a constant vector
    when clustering is off): label i then belongs to row i."""
    cl, wiring, users = shared_clusterer(ctx)
    n = 0
    for (sc, attr) in users:
        for m in sc.methods.values():
            fl = flow_of(m.node)
            writes = [a for a in ctx.state.in_func(m, include_nested=False) if a.mode == "write"]
            by_call = {}
            for a in writes:
                by_call.setdefault(id(a.call), []).append(a)
            for accs in by_call.values():
                keys = {a.key: a for a in accs}
                if "assignments" not in keys or "u" not in keys:
                    continue
                n += 1
                a_as, a_u = keys["assignments"], keys["u"]
                at = fl.node_containing(a_as.call)

                def leaves(e, at0, depth=0):
                    """Value expressions the label vector can be (through names and conditional expressions)."""
                    if depth > 6:
                        return [(e, at0)]
                    if isinstance(e, ast.IfExp):
                        return leaves(e.body, at0, depth + 1) + leaves(e.orelse, at0, depth + 1)
                    if isinstance(e, ast.Name):
                        out = []
                        for d in fl.reaching(at0, e.id):
                            if d.kind == "assign" and d.value is not None and not d.path:
                                out += leaves(d.value, d.node, depth + 1)
                            else:
                                out.append((e, at0))
                        return out
                    return [(e, at0)]

                for (v, vat) in leaves(a_as.value, at):
                    if isinstance(v, ast.Call) and (ctx.res.external_name(m, v) or "") in ("numpy.zeros", "numpy.zeros_like", "numpy.full"):
                        continue
                    ok = False
                    why = f"`{unparse(v)[:50]}`"
                    if isinstance(v, ast.Call) and isinstance(v.func, ast.Attribute) and v.func.attr == "predict" and cl in [t for t in ctx.res.expr_types(m, v.func.value) if isinstance(t, ClassInfo)]:
                        a0 = v.args[0] if v.args else None
                        if isinstance(a0, ast.Name) and isinstance(a_u.value, ast.Name):
                            ok = a0.id == a_u.value.id and {id(d) for d in fl.reaching(vat, a0.id)} == {id(d) for d in fl.reaching(at, a_u.value.id)}
                            why = f"predict() is given `{a0.id}`, the rows stored are `{a_u.value.id}`"
                        elif a0 is not None and norm_text(a0) == norm_text(a_u.value):
                            ok = True
                    R.check("C14.g", f"{m.short}: stored labels are predict() of the stored rows", ok, m, v,
                            msg=f"{m.short}: key `assignments` receives {why} next to `u = {unparse(a_u.value)[:30]}`: unless it is predict() of exactly those rows, label i does not "
                                f"belong to particle i (e.g. labels of the distinct resampled particles in sorted order against rows in draw order)", key=f"labels-of-stored-rows:{m.short}")
    R.floor("C14.g", "state writes storing rows together with labels", n, 1)
    # must-write: the step that labels the active set does so on *every* path of its run method: the training
    # step before it may have refitted the clusterer (labels permuted, fewer or more modes), so labels left over
    # from the previous iteration do not refer to the modes the kernel is about to receive
    n_lab = 0
    for (sc, attr) in users:
        for m in sc.methods.values():
            ws = [a for a in ctx.state.in_func(m, include_nested=False) if a.mode == "write" and a.key == "assignments"]
            if not ws:
                continue
            fl = flow_of(m.node)
            cfg = fl.cfg
            wn = [fl.node_containing(a.call) for a in ws]
            wn = [x.id for x in wn if x is not None]
            n_lab += 1
            skip = cfg.reaches(cfg.entry.id, cfg.exit.id, blocked=wn)
            p = cfg.find_path(cfg.entry.id, cfg.exit.id, blocked=wn) if skip else None
            last = None
            if p:
                for i_ in p:
                    nd_ = cfg.nodes[i_]
                    if getattr(nd_, "stmt", None) is not None:
                        last = nd_.stmt
            R.check("C14.g", f"{m.short} relabels the active particles on every path", not skip, m, last if last is not None else m.node,
                    msg=f"{m.short}: a path through the step (ending at `{unparse(last)[:40] if last is not None else '?'}`) leaves the key `assignments` untouched: the labels kept from the "
                        f"previous iteration meet modes fitted in this one (permuted / fewer clusters after a refit)", key=f"labels-must-write:{m.short}")
    R.floor("C14.g", "labelling steps", n_lab, 1)


# ------------------------------------------------------------------ C14.e
def rule_e(ctx: Context, R: Reporter):
    from ..util import conds_holding_at, is_none_test

    cl, wiring, users = shared_clusterer(ctx)
    n = 0
    for fi in ctx.prog.functions.values():
        for (call, tg) in ctx.cg.sites.get(fi.qualname, []):
            if cl not in tg:
                continue
            mi = call_arg(call, None, "max_iterations")
            if mi is None:
                R.check("C14.e", "the cluster cap is wired into the clusterer", False, fi, call, msg=f"{fi.short}: clusterer built without max_iterations", key="cap-wired")
                continue
            flow = flow_of(fi.node)
            at = flow.node_containing(call)
            # candidate (expression, cap-is-None?) pairs: conditional expression or definitions under an if/else on the cap
            cands = []
            if isinstance(mi, ast.IfExp):
                nt = is_none_test(mi.test)
                if nt is not None and "n_max_clusters" in norm_text(nt[0]):
                    cands.append((mi.body, nt[1]))
                    cands.append((mi.orelse, not nt[1]))
            elif isinstance(mi, ast.Name):
                for d in flow.reaching(at, mi.id):
                    if d.value is None or d.node is None:
                        continue
                    if isinstance(d.value, ast.IfExp) and is_none_test(d.value.test) is not None and "n_max_clusters" in norm_text(is_none_test(d.value.test)[0]):
                        nt = is_none_test(d.value.test)
                        cands.append((d.value.body, nt[1]))
                        cands.append((d.value.orelse, not nt[1]))
                        continue
                    for (t, pol) in conds_holding_at(flow.cfg, d.node):
                        nt = is_none_test(t)
                        if nt is not None and "n_max_clusters" in norm_text(nt[0]):
                            cands.append((d.value, nt[1] == pol))
            branch = [e for (e, cap_none) in cands if not cap_none]
            if not branch:
                raise AnalysisError(f"C14.e: max_iterations expression `{unparse(mi)}` in {fi.short} is not selected by an `n_max_clusters is None` test")
            n += 1
            for b in branch:
                lin = _lin_in(b, "n_max_clusters")
                ok = lin is not None and lin[0] == 1 and lin[1] + 1 <= 0
                R.check("C14.e", "max_iterations + 1 <= n_max_clusters (each accepted split adds one cluster to the initial one)", ok, fi, call,
                        msg=f"{fi.short}: max_iterations = `{unparse(b)}`; with one initial cluster and one split per iteration the model can reach "
                            f"{unparse(b)} + 1 clusters, above the configured cap", key="cap-arith")
    R.floor("C14.e", "clusterer constructions with a cap", n, 1)


def _lin_in(e: ast.expr, sym: str) -> Optional[Tuple[int, int]]:
    v = const_value(e)
    if isinstance(v, int) and not isinstance(v, bool):
        return (0, v)
    if sym in norm_text(e) and isinstance(e, (ast.Attribute, ast.Name)):
        return (1, 0)
    if isinstance(e, ast.BinOp) and isinstance(e.op, (ast.Add, ast.Sub)):
        a, b = _lin_in(e.left, sym), _lin_in(e.right, sym)
        if a is None or b is None:
            return None
        s = 1 if isinstance(e.op, ast.Add) else -1
        return (a[0] + s * b[0], a[1] + s * b[1])
    return None



# ------------------------------------------------------------------ C14.h
def _class_attr_values(ctx: Context, cls: ClassInfo, attr: str) -> List[ast.expr]:
    """every expression assigned to self.<attr> in the class or its bases"""
    out = []
    for c in [cls] + ctx.prog.bases(cls):
        for m in c.methods.values():
            for n in walk_no_nested(m.node):
                if isinstance(n, ast.Assign):
                    for t in n.targets:
                        if isinstance(t, ast.Attribute) and isinstance(t.value, ast.Name) and t.value.id == "self" and t.attr == attr:
                            out.append(n.value)
    return out


def _occurring_only(ctx: Context, m: FuncInfo, e: ast.expr, at, _depth: int = 0) -> bool:
    """does the sequence `e` enumerate only the labels that occur (np.unique of labels, a filtered
    comprehension, or an attribute / local built from one)?"""
    if _depth > 3:
        return False
    rs = ExprResolver(m.node)
    r = rs.resolve(e, at) if at is not None else e
    for x in ast.walk(r):
        if isinstance(x, ast.Call) and (ctx.res.external_name(m, x) or "") == "numpy.unique":
            return True
        if isinstance(x, (ast.ListComp, ast.GeneratorExp)) and any(g.ifs for g in x.generators) and _depth == 0 and x is r:
            return True
    if isinstance(r, ast.Attribute) and isinstance(r.value, ast.Name) and r.value.id == "self" and m.cls is not None:
        for v in _class_attr_values(ctx, m.cls, r.attr):
            for x in ast.walk(v):
                if isinstance(x, ast.Call) and "unique" in dotted(x.func).split(".")[-1:]:
                    return True
            if isinstance(v, (ast.ListComp, ast.GeneratorExp)) and any(g.ifs for g in v.generators):
                return True
    return False


def _rank_typed(ctx: Context, classes, m: FuncInfo, fl, name: str, at, _depth: int = 0) -> Optional[str]:
    """reason why the local `name` at `at` is a rank among occurring labels, or None (label space / unknown)"""
    for d in fl.reaching(at, name):
        if d.kind == "for":
            it = d.value
            its = ExprResolver(m.node).resolve(it, d.node)
            f = dotted(its.func) if isinstance(its, ast.Call) else ""
            if f == "enumerate" and its.args and d.path and d.path[0] == 0:
                if _occurring_only(ctx, m, its.args[0], d.node):
                    return f"position in `{unparse(it)[:50]}`, which lists only the clusters that occur"
            elif f == "range" and its.args and isinstance(its.args[-1], ast.Call) and dotted(its.args[-1].func) == "len" and its.args[-1].args:
                if _occurring_only(ctx, m, its.args[-1].args[0], d.node):
                    return f"position below `{unparse(its.args[-1])[:50]}`, the number of clusters that occur"
        elif d.kind == "param" and _depth < 2 and m.cls is not None:
            # the argument handed in at the internal call sites of this method
            pos = m.params.index(name) - (0 if m.is_staticmethod else 1) if name in m.params else None
            for c in classes:
                for mm in c.methods.values():
                    for call in calls_in(mm.node):
                        if isinstance(call.func, ast.Attribute) and call.func.attr == m.name and isinstance(call.func.value, ast.Name) and call.func.value.id == "self":
                            a = call_arg(call, pos, name) if pos is not None else None
                            if isinstance(a, ast.Name):
                                fl2 = flow_of(mm.node)
                                at2 = fl2.node_containing(call)
                                if at2 is not None:
                                    w = _rank_typed(ctx, classes, mm, fl2, a.id, at2, _depth + 1)
                                    if w:
                                        return w + f" (passed by {mm.short})"
    return None


def rule_h(ctx: Context, R: Reporter):
    """Index-space typing inside the kernel: a per-mode array (an alias of a mode-statistics array, or
    an attribute that is elsewhere subscripted by `assignments[...]`) is subscripted only by values of
    the *label* space -- an assignment, a counter over range(number of modes) or over a per-mode array --
    never by the rank of a label among the labels that occur (enumerate / range(len(...)) over
    np.unique(assignments) or a filtered list)."""
    from .c03 import _mode_attr_sources
    from .c07 import kernel_base

    base = kernel_base(ctx)
    classes = [base] + ctx.prog.subclasses(base)
    mode_attrs: Set[str] = set()
    for c in classes:
        mode_attrs |= {k.split(".", 1)[1] for k in _mode_attr_sources(ctx, c)}
    subs = []
    for c in classes:
        for m in c.methods.values():
            fl = flow_of(m.node)
            rs = ExprResolver(m.node)
            for s in walk_no_nested(m.node):
                if isinstance(s, ast.Subscript) and isinstance(s.value, ast.Attribute) and isinstance(s.value.value, ast.Name) and s.value.value.id == "self" \
                        and isinstance(s.slice, ast.expr) and not isinstance(s.slice, (ast.Slice, ast.Tuple)):
                    at = fl.node_containing(s)
                    sl = rs.resolve(s.slice, at) if at is not None else s.slice
                    subs.append((c, m, fl, s, at, sl))
                    if "assignments" in norm_text(sl) and s.value.attr != "assignments":
                        mode_attrs.add(s.value.attr)
    n_label = n_seen = 0
    for (c, m, fl, s, at, sl) in subs:
        if s.value.attr not in mode_attrs:
            continue
        n_seen += 1
        if "assignments" in norm_text(sl):
            n_label += 1
            continue
        if not isinstance(s.slice, ast.Name) or at is None:
            continue
        rank_why = _rank_typed(ctx, classes, m, fl, s.slice.id, at)
        R.check("C14.h", "the kernel subscripts per-mode arrays in label space", rank_why is None, m, s,
                msg=f"{m.short}: `{unparse(s)[:50]}` indexes a per-mode array with the {rank_why}; the proposal and the assignments use raw labels, so as soon as a cluster "
                    f"with a smaller label holds no walker the density / step size of a different mode is applied to this cluster's walkers",
                key=f"rank-index:{s.value.attr}")
    R.floor("C14.h", "kernel subscripts of per-mode arrays", n_seen, 4)
    R.analysed["C14.h:label-typed subscripts"] = n_label

def rule_i(ctx: Context, R: Reporter):
    """C14.i  one clusterer object is shared by the training and the labelling step: outside the constructors,
    whoever re-binds the clusterer attribute of one step re-binds it on every step, to the same value, in the
    same function (a helper that swaps a stand-in into both steps but puts the live model back on one of them
    leaves labels and modes to come from two different fits)."""
    cl, wiring, users = shared_clusterer(ctx)
    attr_by_cls = {c.qualname: a for (c, a) in users}
    attrs = set(attr_by_cls.values())
    n = 0
    for fi in ctx.prog.functions.values():
        if fi.name == "__init__" and fi.cls is not None and fi.cls.qualname in attr_by_cls:
            continue
        if fi is wiring:
            continue
        sets = {}
        for x in walk_no_nested(fi.node):
            if isinstance(x, ast.Assign):
                for t in x.targets:
                    if isinstance(t, ast.Attribute) and t.attr in attrs and not (isinstance(t.value, ast.Name) and t.value.id == "self" and fi.cls is not None and fi.cls.qualname not in attr_by_cls and False):
                        owner = norm_text(t.value)
                        sets.setdefault(owner, []).append((norm_text(x.value), x))
        if not sets:
            continue
        # owners that are step objects: typed by the resolver, or named like the wiring's attributes
        step_owners = {}
        for owner, lst in sets.items():
            at = flow_of(fi.node).node_containing(lst[0][1])
            types = [t for t in ctx.res.expr_types(fi, lst[0][1].targets[0].value, at) if isinstance(t, ClassInfo)]
            if any(t.qualname in attr_by_cls for t in types) or (not types and any(u.name.lower() in owner.lower() for (u, _) in users)):
                step_owners[owner] = lst
        if not step_owners:
            continue
        n += 1
        vals = {v for lst in step_owners.values() for (v, _) in lst}
        ok = len(step_owners) >= len(users) and len(vals) == 1
        first = next(iter(step_owners.values()))[0][1]
        R.check("C14.i", "the clusterer is re-bound on every step that holds it, to one object", ok, fi, first,
                msg=f"{fi.short}: re-binds the clusterer of {sorted(step_owners)} (values {sorted(vals)}) but the steps that share it are {[u.name for (u, _) in users]}: afterwards "
                    f"training and labelling use different models", key=f"shared-clusterer-rebound:{fi.short}")
    R.check("C14.i", "the clusterer attribute of the steps is re-bound consistently or not at all", True, wiring, wiring.node, key="shared-clusterer-scan")
    R.analysed["C14.i:functions re-binding the clusterer"] = n


def rule_j(ctx: Context, R: Reporter):
    """C14.j  numpy contract in the mode statistics (and the fit behind them): a matrix rebuilt from its
    eigendecomposition uses the eigenvectors as columns (A = V diag(w) V^T).  V^T diag(w) V is still symmetric positive
    definite, so nothing raises, but its principal axes are rotated away from the cluster the mode was fitted to."""
    from ..util import eigh_reconstruction_errors

    n = 0
    for fi in ctx.prog.functions.values():
        if fi.module.relpath.split("/")[-1] not in ("modes.py", "student.py"):
            continue
        n += 1
        for (node, why) in eigh_reconstruction_errors(fi.node):
            R.check("C14.j", "a scale matrix rebuilt from its eigendecomposition is V diag(w) V^T", False, fi, node,
                    msg=f"{fi.short}: `{unparse(node)[:70]}`: {why}: the rebuilt scale matrix is rotated, so the mode no longer describes the scatter of the cluster it was fitted from",
                    key=f"eigh-rows:{fi.short}")
    R.check("C14.j", "eigendecomposition reconstructions scanned", True, None, None, key="eigh-scan")
    R.floor("C14.j", "functions of the mode statistics / fit scanned", n, 6)


def rule_k(ctx: Context, R: Reporter):
    """C14.k  the two users of the shared clusterer agree on when there is a single mode: the condition under which the
    training step fits the one global mode (ModeStatistics.from_global, K = 1) is the condition under which the
    resampling step hands out the label 0 to every walker.  Decided as the equivalence of two boolean functions over
    the atoms of the branch conditions (truth table); an atom that only one side consults makes them differ, e.g.
    'the pool is too small now' on one side and 'the clusterer was ever fitted' on the other."""
    import itertools

    from ..util import bool_skeleton, path_facts

    tr = [f for f in ctx.prog.functions.values() if f.cls is not None and f.cls.name == "Trainer" and f.name == "run"]
    rs = [f for f in ctx.prog.functions.values() if f.cls is not None and f.cls.name == "Resampler" and f.name == "run"]
    if len(tr) != 1 or len(rs) != 1:
        raise AnalysisError("C14.k: training / resampling step not identified")
    tr, rs = tr[0], rs[0]
    atoms: List[ast.expr] = []

    def conj(facts):
        fns = [(bool_skeleton(e, atoms), pol) for (e, pol) in facts]
        return lambda val, fns=fns: all(f(val) == pol for (f, pol) in fns)

    # training step: paths to a from_global call, excluding the placeholder returned before any particle exists
    tflow = flow_of(tr.node)
    t_terms = []
    for nd in tflow.cfg.stmt_nodes():
        for c in calls_in_node(nd):
            if isinstance(c.func, ast.Attribute) and c.func.attr == "from_global" and nd.kind == "stmt" and not isinstance(nd.stmt, ast.Return):
                t_terms.append(conj(path_facts(tr.node, nd, inline_bools=True)))
    # the same conditions seen from the particle-fitting side (from_particles) -- needed to know the reachable region
    t_part = []
    for nd in tflow.cfg.stmt_nodes():
        for c in calls_in_node(nd):
            if isinstance(c.func, ast.Attribute) and c.func.attr == "from_particles" and nd.kind == "stmt":
                t_part.append(conj(path_facts(tr.node, nd, inline_bools=True)))
    if not t_terms or not t_part:
        raise AnalysisError("C14.k: from_global / from_particles sites of the training step not found")
    # resampling step: the stored assignments are zeros ...
    rflow = flow_of(rs.node)
    r_zero, r_pred = [], []
    for a in ctx.state.in_func(rs, include_nested=False):
        if a.mode != "write" or a.key != "assignments" or a.value is None:
            continue
        at = rflow.node_containing(a.call)
        v = a.value
        base = path_facts(rs.node, at, inline_bools=True) if at is not None else []
        cands = []
        if isinstance(v, ast.Name) and at is not None:
            for d in rflow.reaching(at, v.id):
                if d.value is not None and d.node is not None:
                    cands.append((d.value, path_facts(rs.node, d.node, inline_bools=True)))
        else:
            cands.append((v, base))
        for (e, facts) in cands:
            if isinstance(e, ast.IfExp):
                parts = [(e.body, facts + [(e.test, True)]), (e.orelse, facts + [(e.test, False)])]
            else:
                parts = [(e, facts)]
            for (x, fx) in parts:
                txt = norm_text(x)
                if "predict(" in txt:
                    r_pred.append(conj(fx))
                elif "zeros(" in txt and any("predict(" in norm_text(y) for (y, _) in parts + [(z, None) for (z, _) in cands]):
                    r_zero.append(conj(fx))
    if not r_pred or not r_zero:
        raise AnalysisError("C14.k: the label assignment of the resampling step (predict / zeros) not found")
    if len(atoms) > 10:
        raise AnalysisError("C14.k: too many atoms in the branch conditions")
    bad = None
    for val in itertools.product([False, True], repeat=len(atoms)):
        tg, tp = any(t(val) for t in t_terms), any(t(val) for t in t_part)
        rz, rp = any(t(val) for t in r_zero), any(t(val) for t in r_pred)
        if not (tg or tp) or not (rz or rp):
            continue  # not a combination in which both steps reach their fitting / labelling code
        if (tg and rp and not rz) or (tp and rz and not rp and not tg):
            bad = {unparse(a)[:40]: v for a, v in zip(atoms, val)}
            break
    R.check("C14.k", "single global mode in the training step <=> all-zero labels in the resampling step", bad is None, tr, tr.node,
            msg=f"Trainer.run / Resampler.run: under {bad} the training step fits " + ("the single global mode (K = 1) while the resampling step labels walkers with clusterer.predict"
                if bad and any(True for _ in [0]) else "") + ": labels can refer to modes that were not trained (or to an older mixture of the shared clusterer)", key="single-mode-agreement")
    R.analysed["C14.k:atoms"] = [unparse(a)[:40] for a in atoms]


def rule_l(ctx: Context, R: Reporter):
    """C14.l  wiring of the shared clusterer: every step that is constructed with `clustering=<expr>` and the shared
    clusterer gets a clusterer object whenever its own clustering flag can be true -- the flag passed to each user
    implies the condition under which the clusterer was built (truth table over the atoms), and all users get the same
    flag.  Otherwise a step told to cluster calls predict()/fit() on None, or two steps disagree on whether labels
    are meaningful."""
    import itertools

    from ..dataflow import Resolver as _Res
    from ..util import bool_skeleton, path_facts

    cl, wiring, users = shared_clusterer(ctx)
    flow = flow_of(wiring.node)
    rs = _Res(wiring.node)
    # construction site(s) of the clusterer and their path conditions
    build_terms = []
    atoms: List[ast.expr] = []
    for nd in flow.cfg.stmt_nodes():
        for c in calls_in_node(nd):
            if cl in [t for t in ctx.res.call_targets(wiring, c) if isinstance(t, ClassInfo)]:
                facts = path_facts(wiring.node, nd, inline_bools=True)
                fns = [(bool_skeleton(e, atoms), pol) for (e, pol) in facts]
                build_terms.append(lambda val, fns=fns: all(f(val) == pol for (f, pol) in fns))
    if not build_terms:
        raise AnalysisError("C14.l: construction of the shared clusterer not found")
    flags = []
    for (call, tg) in ctx.cg.sites.get(wiring.qualname, []):
        ucls = [t for t in tg if isinstance(t, ClassInfo) and any(t is u for (u, _) in users)]
        if not ucls:
            continue
        kw = call_arg(call, None, "clustering")
        if kw is None:
            continue
        at = flow.node_containing(call)
        e = rs.resolve(kw, at) if at is not None else kw
        flags.append((ucls[0], call, e, bool_skeleton(e, atoms)))
    R.floor("C14.l", "steps constructed with the shared clusterer and a clustering flag", len(flags), 2)
    if len(atoms) > 10:
        raise AnalysisError("C14.l: too many atoms")
    for (u, call, e, fn) in flags:
        bad = None
        for val in itertools.product([False, True], repeat=len(atoms)):
            if fn(val) and not any(b(val) for b in build_terms):
                bad = {unparse(a)[:40]: v for a, v in zip(atoms, val)}
                break
        R.check("C14.l", f"{u.name} is told to cluster only when the shared clusterer exists", bad is None, wiring, call,
                msg=f"{wiring.short}: {u.name} is constructed with clustering=`{unparse(e)[:50]}`, which can be true while no clusterer was built (under {bad}): the step then calls "
                    f"predict()/fit() on None in the first annealing iteration -- a configuration the constructor accepted does not run", key=f"clusterer-wiring:{u.name}")
    same = len({norm_text(e) for (_, _, e, _) in flags}) <= 1
    R.check("C14.l", "all users of the shared clusterer get the same clustering flag", same, wiring, flags[0][1] if flags else wiring.node,
            msg=f"{wiring.short}: the users of the shared clusterer are constructed with different clustering flags {[unparse(e)[:40] for (_, _, e, _) in flags]}: one step labels walkers with a "
                f"mixture the other did not train", key="clusterer-wiring:same-flag")


def run(ctx: Context, R: Reporter):
    R.guard(rule_l, ctx, R)
    R.guard(rule_j, ctx, R)
    R.guard(rule_k, ctx, R)
    R.guard(rule_i, ctx, R)
    R.guard(rule_h, ctx, R)
    R.guard(rule_a, ctx, R)
    R.guard(rule_b, ctx, R)
    R.guard(rule_c, ctx, R)
    R.guard(rule_d, ctx, R)
    R.guard(rule_e, ctx, R)
    R.guard(rule_f, ctx, R)
    R.guard(rule_g, ctx, R)


def variants():
    from ..variants import Variant, alpha_rename, delete_stmt, edit, insert_before, replace_expr, replace_stmt

    tr = "tempest/steps/train.py"
    md = "tempest/modes.py"
    core = "tempest/core.py"
    from ..variants import insert_before as _ib2

    eig_fix = "w_, V_ = np.linalg.eigh(self.covariances)\nself.covariances = np.einsum('{spec}', V_, np.maximum(w_, 1e-300), V_)"
    return [
        Variant("a-fit-in-rotated-frame", "bad", _ib2(tr, "Trainer.run", "self.clusterer.fit(u, weights_trimmed)", "u = (u - 0.25) % 1.0"), ["C14.a"], quick=True),
        Variant("a-fit-in-rescaled-frame-in-place", "bad", _ib2(tr, "Trainer.run", "self.clusterer.fit(u, weights_trimmed)", "u *= 0.5"), ["C14.a"]),
        Variant("a-benign-fit-on-contiguous-copy", "benign", _ib2(tr, "Trainer.run", "self.clusterer.fit(u, weights_trimmed)", "u = np.ascontiguousarray(u)")),

        Variant("l-no-clusterer-for-single-cluster-cap", "bad", replace_expr(core, "SamplerCore.__init__", "config.clustering", "config.clustering and config.n_max_clusters != 1", nth=0), ["C14.l"], quick=True),
        Variant("k-resampler-labels-if-ever-fitted", "bad", replace_expr("tempest/steps/resample.py", "Resampler.run", "self.clusterer.predict(u_resampled) if self.clustering else np.zeros(self.n_particles, dtype=int)",
                                                                        "self.clusterer.predict(u_resampled) if self.clustering and self.clusterer.n_clusters_ > 0 else np.zeros(self.n_particles, dtype=int)"), ["C14.k"], quick=True),
        Variant("k-trainer-global-mode-for-small-pools", "bad", replace_expr(tr, "Trainer.run", "self.clustering and refit", "self.clustering and refit and len(trim_idx) > 8"), ["C14.k"]),
        Variant("k-benign-resampler-branches-flipped", "benign", replace_expr("tempest/steps/resample.py", "Resampler.run", "self.clusterer.predict(u_resampled) if self.clustering else np.zeros(self.n_particles, dtype=int)",
                                                                             "np.zeros(self.n_particles, dtype=int) if not self.clustering else self.clusterer.predict(u_resampled)")),
        Variant("j-eigen-floor-rows", "bad", _ib2(md, "ModeStatistics.__init__", "self.inv_covariances = np.linalg.inv(self.covariances)", eig_fix.format(spec="kji,kj,kjl->kil")), ["C14.j"], quick=True),
        Variant("j-benign-eigen-floor-columns", "benign", _ib2(md, "ModeStatistics.__init__", "self.inv_covariances = np.linalg.inv(self.covariances)", eig_fix.format(spec="kij,kj,klj->kil"))),
        Variant("f-training-labels", "bad", replace_stmt(tr, "Trainer.run", "labels = self.clusterer.predict(u)", "labels = self.clusterer.labels_"), ["C14.f"], quick=True),
        Variant("f-predict-other-rows", "bad", replace_stmt(tr, "Trainer.run", "labels = self.clusterer.predict(u)", "labels = self.clusterer.predict(self.state.get_history('u', flat=True))[trim_idx]"), ["C14.f"]),
        Variant("a-drop-never-fitted", "bad", replace_expr(tr, "Trainer.run", "iter_val % self.cluster_every == 0 or iter_val == 0 or never_fitted", "iter_val % self.cluster_every == 0 or iter_val == 0"), ["C14.a"], quick=True),
        Variant("a-predict-before-fit", "bad", _swap_fit_predict(tr), ["C14.a"]),
        Variant("c-no-cholesky", "bad", delete_stmt(md, "ModeStatistics.__init__", "self.chol_covariances = np.linalg.cholesky(self.covariances)"), ["C14.c"]),
        Variant("c-global-no-guard", "bad", edit(md, "ModeStatistics.from_global", _drop_dof_guard), ["C14.c"]),
        Variant("c-global-unweighted-resample", "bad", replace_expr(md, "ModeStatistics.from_global", "np.random.choice(n_particles, size=n_resample, replace=True, p=weights)", "np.random.choice(n_particles, size=n_resample, replace=True)"), ["C14.c"], quick=True),
        Variant("d-weights-other-index", "bad", replace_stmt(md, "ModeStatistics.from_particles", "weights_cluster = weights[idx_cluster]", "weights_cluster = weights[:len(idx_cluster)]"), ["C14.d"], quick=True),
        Variant("e-cap-off-by-one", "bad", replace_expr(core, "SamplerCore.__init__", "config.n_max_clusters - 1", "config.n_max_clusters"), ["C14.e"], quick=True),
        Variant("h-adapt-by-rank", "bad", edit("tempest/mcmc.py", "BaseMCMCRunner.run", _adapt_by_rank), ["C14.h"], quick=True),
        Variant("h-benign-enumerate-modes", "benign", edit("tempest/mcmc.py", "BaseMCMCRunner.run", _adapt_enum_modes)),
        Variant("i-rebind-one-step-only", "bad", insert_before("tempest/core.py", "SamplerCore.save_sampler_state", "d = self.state.to_dict()", "self.trainer.clusterer = self.trainer.clusterer"), ["C14.i"], quick=True),
        Variant("i-benign-rebind-both", "benign", insert_before("tempest/core.py", "SamplerCore.save_sampler_state", "d = self.state.to_dict()", "shared = self.trainer.clusterer\nself.trainer.clusterer = shared\nself.resampler.clusterer = shared")),
        Variant("g-carry-over-skips-labels", "bad", insert_before("tempest/steps/resample.py", "Resampler.run", "u = self.state.get_history('u', flat=True)", "if self.state.get_current('u') is not None and beta == self.state.get_last_history('beta'):\n    return"), ["C14.g"], quick=True),
        Variant("c-clip-means-after-fit", "bad", insert_before(tr, "Trainer.run", "return mode_stats", "mode_stats.means = np.clip(mode_stats.means, 1e-4, 1 - 1e-4)"), ["C14.c"], quick=True),
        Variant("benign-rename-refit", "benign", alpha_rename(tr, "Trainer.run", "refit", "do_fit"), quick=True),
        Variant("benign-rename-labels", "benign", alpha_rename(tr, "Trainer.run", "labels", "lab")),
    ]


def _adapt_loop(node):
    for n in ast.walk(node):
        if isinstance(n, ast.For) and "_adapt_sigma" in ast.unparse(n) and isinstance(n.target, ast.Name):
            return n
    return None


def _adapt_by_rank(node, tree):
    lp = _adapt_loop(node)
    if lp is None:
        return False
    c = lp.target.id
    new = ast.parse(f"for {c}, _lab in enumerate(np.unique(self.assignments)):\n    pass").body[0]

    class T(ast.NodeTransformer):
        def visit_Compare(self, x):
            if ast.unparse(x) == f"self.assignments == {c}":
                return ast.parse(f"self.assignments == _lab", mode="eval").body
            return x

    new.body = [T().visit(st) for st in lp.body]
    lp.target, lp.iter, lp.body = new.target, new.iter, new.body
    return True


def _adapt_enum_modes(node, tree):
    lp = _adapt_loop(node)
    if lp is None:
        return False
    c = lp.target.id
    new = ast.parse(f"for {c}, _s in enumerate(self.sigmas):\n    pass").body[0]
    lp.target, lp.iter = new.target, new.iter
    return True


def _drop_dof_guard(node, tree):
    from ..variants import replace_in_body

    return replace_in_body(node, lambda st: isinstance(st, ast.If) and "isfinite" in ast.unparse(st.test), lambda st: [])


def _swap_fit_predict(tr):
    from ..variants import edit

    def fn(node, tree):
        for n in ast.walk(node):
            if isinstance(n, ast.If):
                body = n.body
                fi = next((i for i, s in enumerate(body) if "clusterer.fit" in ast.unparse(s)), None)
                pi = next((i for i, s in enumerate(body) if "clusterer.predict" in ast.unparse(s)), None)
                if fi is not None and pi is not None and fi < pi:
                    body[fi], body[pi] = body[pi], body[fi]
                    return True
        return False

    return edit(tr, "Trainer.run", fn)
