"""C09  Seeded runs are reproducible; the library never resets the global RNG.

RNG effect analysis (A6).  All randomness in tempest goes through numpy's
module-level functions, so an effect analysis over those names is exact.

  C09.r1  the user's seed is used: on the fresh-start path of the run driver a
          call that reaches `np.random.seed(<config.random_state>)` is passed
          before the sampling loop (and is not on the resume path only)
  C09.r2  no constant reseed: for every seeding site (np.random.seed/set_state,
          RandomState/default_rng constructors) the provenance of the seed along
          every call chain is None or a user-supplied value, never a literal;
          inside the per-iteration pipeline it is None only
  C09.r3  single entropy source: no `random`, time/os/secrets-derived entropy
  C09.r4  census of draw sites (evidence; floor)
  C09.r7  nothing touches the random stream at import / definition time (default
          arguments, decorators, class bodies, module level)
"""
from __future__ import annotations

import ast
from typing import List

from ..cfg import cfg_of
from ..dataflow import flow_of
from ..engine import Context, Reporter
from ..model import AnalysisError, ClassInfo, FuncInfo, dotted, norm_text, walk_no_nested
from ..provenance import Origin, Tracer
from ..util import call_arg, conds_holding_at, is_none_test, nodes_calling, unparse

PROP = "C09"
EXPLANATION = (
    "RNG effect analysis over the resolved program: every call of numpy's global seeding/generator-construction "
    "functions is enumerated and the provenance of its seed argument is traced interprocedurally (parameters through "
    "all call sites and defaults, self.attr through constructor assignments, dataclass fields through constructor "
    "keywords). Decides: the configured random_state reaches a seeding call that is passed before the first draw of a "
    "fresh run; no seeding call can receive a literal; inside the iteration pipeline no seeding call receives a "
    "non-None value; no foreign entropy source is used. Does not decide bit-identity of floating-point results "
    "across BLAS builds, nor that user callables are deterministic."
    " Also (r7) nothing touches the random stream at import / definition time, and on the run driver's resume path the checkpoint load reaches a seeding call fed from the checkpoint; counters are followed to their literal start in seed provenance."
)
ASSUMPTIONS = [
    "all random draws go through numpy.random module functions (census listed in the evidence; any other source is reported)",
    "user-supplied likelihood/prior callables are deterministic",
]


def run_driver(ctx: Context):
    """The function that either loads a checkpoint or starts fresh and then runs
    the sampling loop (found by role)."""
    out = []
    for fi in ctx.prog.functions.values():
        cfg = cfg_of(fi.node)
        loops = [n for n in cfg.stmt_nodes() if n.kind == "test" and isinstance(n.stmt, ast.While)]
        if not loops:
            continue
        loads = nodes_calling(ctx.cg, fi, lambda g: any(ctx.res.external_name(g, c) in ("dill.load", "pickle.load") for c in ast.walk(g.node) if isinstance(c, ast.Call)))
        draws_in_loop = False
        draw_funcs = {s.func.qualname for s in ctx.rng.draws()}
        for (n, call, hit) in nodes_calling(ctx.cg, fi, lambda g: g.qualname in draw_funcs):
            if n.loops:
                draws_in_loop = True
        if loads and draws_in_loop:
            out.append((fi, loops, loads))
    return out


def iteration_roots(ctx: Context) -> List[FuncInfo]:
    """Functions called from inside the sampling loop of the run driver."""
    roots = []
    for (fi, loops, loads) in run_driver(ctx):
        cfg = cfg_of(fi.node)
        flow = flow_of(fi.node)
        for (call, tg) in ctx.cg.sites.get(fi.qualname, []):
            n = flow.node_containing(call)
            if n is not None and (n.loops or n.id in [l.id for l in loops]):
                for t in tg:
                    if isinstance(t, FuncInfo):
                        roots.append(t)
    return roots


def rule_r1(ctx: Context, R: Reporter, T: Tracer):
    drivers = run_driver(ctx)
    R.floor("C09.r1", "run drivers", len(drivers), 1)
    seeds = ctx.rng.seeds()
    # seed sites whose argument can be the configured random_state (a user origin that is a config field / public ctor param)
    user_seed_funcs = {}
    stored_seed_funcs = {}
    for s in seeds:
        arg = call_arg(s.call, 0, "seed")
        if arg is None:
            continue
        at = flow_of(s.func.node).node_containing(s.call)
        origs = T.origins(s.func, arg, at)
        cfg_classes = [c.name for c in ctx.prog.classes.values() if c.is_dataclass]
        from_config = [o for o in origs if o.kind == "user" and any(ch.startswith(tuple(f"{c}(" for c in cfg_classes)) for ch in o.chain)]
        dead = False
        for (t, pol) in conds_holding_at(flow_of(s.func.node).cfg, at):
            # truthiness of the seed (`if seed:`) treats the valid seed 0 as "no seed"
            if norm_text(t) == norm_text(arg) and pol:
                R.check("C09.r1", "the seed guard is a None test, not a truthiness test", False, s.func, t,
                        msg=f"{s.func.short}: `if {unparse(t)}:` skips seeding for random_state=0, a valid seed: runs with seed 0 are not reproducible", key="seed-truthiness-guard")
            nt = is_none_test(t)
            if nt is not None and norm_text(nt[0]) == norm_text(arg) and nt[1] == pol:
                dead = True  # guarded by `<seed> is None`: seeds with None only
        if from_config and not dead and not any(o.kind == "checkpoint" for o in origs):
            user_seed_funcs[s.func.qualname] = s
        if not dead and any(o.kind == "checkpoint" for o in origs):
            stored_seed_funcs[s.func.qualname] = s
    for (fi, loops, loads) in drivers:
        cfg = cfg_of(fi.node)
        seed_nodes = [n for (n, call, hit) in nodes_calling(ctx.cg, fi, lambda g: g.qualname in user_seed_funcs)]
        load_ids = [n.id for (n, _, _) in loads]
        ok = bool(seed_nodes)
        witness = {}
        if ok:
            # every path entry -> loop header that avoids the checkpoint load passes a seeding node
            for l in loops:
                if cfg.reaches(cfg.entry.id, l.id, blocked=[n.id for n in seed_nodes] + load_ids):
                    ok = False
                    p = cfg.find_path(cfg.entry.id, l.id, blocked=[n.id for n in seed_nodes] + load_ids)
                    witness = {"path_without_seed": [repr(cfg.nodes[i]) for i in (p or [])][:10]}
            if any(n.loops for n in seed_nodes):
                ok = False
                witness = {"seed_inside_loop": True}
        # the resume path: the checkpoint load itself re-applies a seed (the recorded one), so that a seeded run that is
        # resumed continues identically whatever the state of the ambient stream
        resume_seed_nodes = {n.id for (n, call, hit) in nodes_calling(ctx.cg, fi, lambda g: g.qualname in stored_seed_funcs or g.qualname in user_seed_funcs)}
        for (ln, _, _) in loads:
            ok_r = ln.id in resume_seed_nodes
            R.check("C09.r1", "the resume path re-applies the recorded seed before the loop continues", ok_r, fi, ln.stmt if ln.stmt is not None else fi.node,
                    msg=f"{fi.short}: the checkpoint load `{unparse(ln.ast)[:60] if ln.ast is not None else '?'}` reaches no seeding call with the recorded / configured seed: a seeded run resumed through "
                        f"this driver continues on whatever the ambient stream happens to be, so two resumes of the same checkpoint differ "
                        f"(seeding sites fed from a checkpoint: {[s.loc for s in stored_seed_funcs.values()]})", key=f"seed-on-resume:{fi.short}")
        R.check(
            "C09.r1", "the configured random_state seeds the global stream before the first draw of a fresh run", ok, fi, fi.node,
            msg=f"{fi.short}: no call on the fresh-start path reaches np.random.seed(<config.random_state>) before the sampling loop; "
                f"random_state is stored but never used, so equal seeds give different runs "
                f"(seed sites with user provenance: {[s.loc for s in user_seed_funcs.values()]})",
            witness=witness, key=f"seed-before-loop:{fi.short}",
        )


def rule_r2(ctx: Context, R: Reporter, T: Tracer):
    sites = [s for s in ctx.rng.sites if s.kind in ("seed", "generator")]
    R.floor("C09.r2", "seeding sites", len(sites), 2)
    iter_reach = {f.qualname for f in ctx.cg.reachable(iteration_roots(ctx))}
    for s in sites:
        arg = call_arg(s.call, 0, "seed")
        at = flow_of(s.func.node).node_containing(s.call)
        if arg is None:
            if s.kind == "generator":
                R.check("C09.r2", "no OS-entropy generator", False, s.func, s.call,
                        msg=f"{s.func.short}: `{unparse(s.call)}` creates a generator seeded from OS entropy: runs are not reproducible")
            continue
        origs = T.origins(s.func, arg, at)
        lits = [o for o in origs if o.kind == "literal"]
        for o in lits:
            R.check(
                "C09.r2", "seed provenance is never a literal", False, o.func, _enclosing_call(o) or o.node,
                msg=f"literal seed {o.detail} at {o.loc()} reaches `{unparse(s.call)}` ({s.loc}) via {' -> '.join(o.chain) or 'direct argument'}: "
                    f"the process-wide stream is reset to a fixed value, so later draws no longer depend on the seed in force",
                witness={"seed_site": s.loc, "chain": list(o.chain), "literal": o.detail},
            )
        # a snapshot of the stream taken by the library itself and put back later rewinds the stream: everything drawn
        # in between is replayed by whoever draws next (two unseeded runs in a row become bit-identical)
        snaps = [o for o in origs if o.kind == "call" and "get_state" in (o.detail or "") + " " + repr(o)]
        if snaps and s.name.endswith("set_state"):
            R.check("C09.r2", "the library never rewinds the process-wide stream to a snapshot it took itself", False, s.func, s.call,
                    msg=f"{s.func.short}: `{unparse(s.call)}` restores a snapshot taken by `get_state()` at {snaps[0].loc()}: the draws made in between are handed out again to the next "
                        f"consumer, so successive (unseeded) runs replay the same innovations", key=f"stream-rewind:{s.func.short}")
            continue
        unknown = [o for o in origs if o.kind in ("unknown", "call")]
        if unknown:
            raise AnalysisError(f"C09.r2: provenance of seed argument at {s.loc} not decidable: {unknown[:3]}")
        # seed(None) re-seeds the process-wide stream from OS entropy: where the argument may be None the call must
        # sit under an `is not None` guard on that argument
        if s.kind == "seed" and any(o.kind == "none" for o in origs):
            from ..util import conds_holding_at as _cha
            from ..util import split_cond as _split

            sflow = flow_of(s.func.node)
            guarded = False
            for (t, pol) in (_cha(sflow.cfg, at) if at is not None else []):
                for (a, p) in _split(t, pol):
                    if isinstance(a, ast.Compare) and len(a.ops) == 1 and isinstance(a.comparators[0], ast.Constant) and a.comparators[0].value is None \
                            and _same_value(s.func, a.left, arg, at) and ((isinstance(a.ops[0], ast.IsNot) and p) or (isinstance(a.ops[0], ast.Is) and not p)):
                        guarded = True
            R.check("C09.r2", "a seeding call whose argument may be None is guarded by `is not None`", guarded, s.func, s.call,
                    msg=f"{s.func.short}: `{unparse(s.call)}` can run with None (origins {[repr(o) for o in origs if o.kind == 'none'][:2]}): numpy then re-seeds the global stream from OS "
                        f"entropy, so a seeded run is no longer reproducible and the stream no longer depends on the seed in force", key=f"seed-none-guard:{s.func.short}")
        in_iter = s.func.qualname in iter_reach
        if in_iter:
            # chains that start at the pipeline's own call sites: the seed must be None on all of them
            TS = Tracer(ctx, scope=iter_reach)
            scoped = [o for o in TS.origins(s.func, arg, at) if o.kind != "none"]
            R.check(
                "C09.r2", "inside the iteration pipeline no seeding call receives a value", not scoped, s.func, s.call,
                msg=f"`{unparse(s.call)}` at {s.loc} is reached from the iteration pipeline with a non-None seed ({scoped[:2]}): "
                    f"every iteration would replay the same innovations",
                key=f"iter-seed:{s.func.short}",
            )
        R.check("C09.r2", f"seed argument of `{unparse(s.call)}` has only None/user/checkpoint provenance", not lits, s.func, s.call,
                msg=f"{len(lits)} literal origin(s), see above", key=f"provenance:{s.func.short}:{norm_text(s.call)}")


def _same_value(fi, e1: ast.expr, e2: ast.expr, at) -> bool:
    """Textually equal, or equal after inlining uniquely defined locals."""
    if norm_text(e1) == norm_text(e2):
        return True
    from ..dataflow import Resolver as _Res

    r = _Res(fi.node)
    return norm_text(r.resolve(e1, at)) == norm_text(r.resolve(e2, at))


def _enclosing_call(o: Origin):
    """The call expression whose keyword/argument is the literal (for a stable, specific key)."""
    if o.func is None or o.node is None:
        return None
    for n in ast.walk(o.func.node):
        if isinstance(n, ast.Call):
            if any(a is o.node for a in n.args) or any(k.value is o.node for k in n.keywords):
                return n
    return None


def _chain_from_iteration(o: Origin, iter_reach) -> bool:
    # a user origin is "from the iteration" when the function holding the origin node is itself inside the pipeline
    return o.func.qualname in iter_reach and "parameter" not in o.detail


def rule_r3(ctx: Context, R: Reporter):
    bad = [s for s in ctx.rng.sites if s.kind == "foreign-entropy"]
    for s in bad:
        R.check("C09.r3", "single entropy source", False, s.func, s.call,
                msg=f"{s.func.short}: `{unparse(s.call)}` ({s.name}) draws entropy outside the seeded numpy stream")
    # stdlib `random` import anywhere
    for m in ctx.prog.modules.values():
        for alias, tgt in m.imports.items():
            if tgt == "random" or tgt.startswith("random.") or tgt.split(".")[0] == "secrets":
                R.check("C09.r3", "no import of an unseeded entropy module", False, None, None,
                        msg=f"{m.relpath} imports `{tgt}`", key=f"import:{m.relpath}:{tgt}", loc=m.relpath)
    R.check("C09.r3", f"scanned {len(ctx.rng.sites)} RNG-related call sites for foreign entropy", not bad, None, None, key="scan", loc="tempest/")


def rule_r4(ctx: Context, R: Reporter):
    draws = ctx.rng.draws()
    R.floor("C09.r4", "draw sites on the global stream", len(draws), 8)
    R.analysed["C09.r4:draw_sites"] = [f"{d.name} {d.loc}" for d in draws]
    for d in draws:
        R.check("C09.r4", f"draw site {d.name} uses the process-wide stream", d.name.startswith("numpy.random."), d.func, d.call,
                key=f"draw:{d.func.short}:{norm_text(d.call)[:60]}")


def rule_r5(ctx: Context, R: Reporter):
    """No random variate outlives a seeding call: the result of a draw is never cached in process-lifetime
    storage (an attribute of an object instantiated at module level, a class attribute, a module global);
    such a buffer survives np.random.seed(), so the first draws of the next seeded run come from the
    previous stream, and no draw happens at import time."""
    module_singletons = {}
    for m in ctx.prog.modules.values():
        for nm, v in m.constants.items():
            if isinstance(v, ast.Call):
                r = ctx.prog.resolve_name(m, dotted(v.func)) if dotted(v.func) else None
                if isinstance(r, ClassInfo):
                    module_singletons[r.qualname] = f"{m.relpath}: {nm} = {unparse(v)[:40]}"
        # import-time draws
        for st in m.tree.body:
            if isinstance(st, (ast.FunctionDef, ast.AsyncFunctionDef, ast.ClassDef)):
                continue
            for c in ast.walk(st):
                if isinstance(c, ast.Call):
                    d = dotted(c.func)
                    head = d.split(".")[0] if d else ""
                    full = (m.imports.get(head, head) + d[len(head):]) if d else ""
                    if full.startswith("numpy.random.") and full.split(".")[-1] not in ("seed",):
                        R.check("C09.r5", "no draw at import time", False, None, None, msg=f"{m.relpath}:{c.lineno}: `{unparse(c)[:50]}` consumes the global stream when the module is imported",
                                key=f"import-time-draw:{m.relpath}:{norm_text(c)[:40]}", loc=f"{m.relpath}:{c.lineno}")
    n = 0
    for s in ctx.rng.draws():
        fi = s.func
        n += 1
        # the statement holding the draw
        st = None
        for x in walk_no_nested(fi.node):
            if isinstance(x, (ast.Assign, ast.AugAssign, ast.AnnAssign)) and any(y is s.call for y in ast.walk(x)):
                st = x
        globals_ = {g for x in walk_no_nested(fi.node) if isinstance(x, ast.Global) for g in x.names}
        why = None
        if st is not None:
            tgts = st.targets if isinstance(st, ast.Assign) else [st.target]
            for t in tgts:
                for tt in ([t] if not isinstance(t, (ast.Tuple, ast.List)) else t.elts):
                    base = tt
                    while isinstance(base, ast.Subscript):
                        base = base.value
                    if isinstance(base, ast.Attribute) and isinstance(base.value, ast.Name):
                        if base.value.id == "self" and fi.cls is not None and fi.cls.qualname in module_singletons:
                            why = f"`{unparse(tt)[:30]}` of an object created at import time ({module_singletons[fi.cls.qualname]})"
                        elif base.value.id == "cls" or (fi.cls is not None and base.value.id == fi.cls.name):
                            why = f"the class attribute `{unparse(tt)[:30]}`"
                    elif isinstance(base, ast.Name) and base.id in globals_:
                        why = f"the module global `{base.id}`"
        R.check("C09.r5", "no random variate is cached in storage that outlives a seeding call", why is None, fi, s.call,
                msg=f"{fi.short}: the result of `{unparse(s.call)[:50]}` is kept in {why}: the buffer survives np.random.seed(), so a run seeded afterwards starts with variates of "
                    f"the previous stream -- equal seeds no longer give equal runs in one process", key=f"draw-cached:{fi.short}:{norm_text(s.call)[:40]}")
    # a memoised function (functools.lru_cache / cache) must not draw, directly or through what it calls: a cache hit
    # returns the stored result and skips the draws, so the position of the stream after the call depends on what
    # earlier runs in the same process left in the cache
    drawing = {s.func.qualname for s in ctx.rng.draws()}
    n_memo = 0
    for fi in ctx.prog.functions.values():
        if not any(dotted(d.func if isinstance(d, ast.Call) else d).split(".")[-1] in ("lru_cache", "cache") for d in fi.node.decorator_list):
            continue
        n_memo += 1
        reach = [g for g in ctx.cg.reachable([fi]) if g.qualname in drawing]
        R.check("C09.r5", "a memoised function does not consume the random stream", not reach, fi, fi.node,
                msg=f"{fi.short} is memoised for the life of the process but draws from the global stream (through {reach[0].short if reach else ''}): a cache hit skips those draws, so a "
                    f"second seeded run in the same process consumes fewer random numbers and every later draw differs -- equal seeds no longer give equal runs",
                key=f"draw-cached:memoised:{fi.short}")
    R.analysed["C09.r5:memoised functions inspected"] = n_memo
    R.floor("C09.r5", "draw sites inspected for process-lifetime caching", n, 8)


def rule_r6(ctx: Context, R: Reporter):
    """C09.r6  the seed is used as given: wherever the value that reaches a seeding call is stored or re-bound
    (`self.random_state = E`, `object.__setattr__(self, "random_state", E)`, a keyword `random_state=E`), E is the
    seed itself, an integer conversion of it, or None -- no arithmetic (a modulus, a hash, abs, a bit mask):
    a many-to-one map makes distinct seeds produce identical runs."""
    names = set()
    for s in ctx.rng.seeds():
        arg = call_arg(s.call, 0, "seed")
        if arg is None:
            continue
        x = arg
        while isinstance(x, ast.Call) and x.args:
            x = x.args[0]
        if isinstance(x, ast.Attribute):
            names.add(x.attr)
        elif isinstance(x, ast.Subscript) and isinstance(x.slice, ast.Constant) and isinstance(x.slice.value, str):
            names.add(x.slice.value)
        elif isinstance(x, ast.Name):
            names.add(x.id)
    names = {n for n in names if "state" in n or "seed" in n}
    if not names:
        raise AnalysisError("C09.r6: name of the seed-carrying value not identified")

    def transparent(e: ast.expr) -> bool:
        if e is None or (isinstance(e, ast.Constant) and e.value is None):
            return True
        if isinstance(e, (ast.Name, ast.Attribute)):
            return True
        if isinstance(e, ast.Subscript):
            return transparent(e.value)
        if isinstance(e, ast.IfExp):
            return transparent(e.body) and transparent(e.orelse)
        if isinstance(e, ast.Call) and dotted(e.func) in ("int", "np.int64", "np.uint32", "operator.index", "getattr") and e.args:
            return transparent(e.args[0])
        if isinstance(e, ast.Call) and isinstance(e.func, ast.Attribute) and e.func.attr == "get":
            return True
        return False

    n = 0
    for fi in ctx.prog.functions.values():
        for x in walk_no_nested(fi.node):
            val = None
            what = None
            if isinstance(x, ast.Assign):
                for t in x.targets:
                    if (isinstance(t, ast.Attribute) and t.attr in names) or (isinstance(t, ast.Name) and t.id in names) or \
                            (isinstance(t, ast.Subscript) and isinstance(t.slice, ast.Constant) and t.slice.value in names):
                        val, what = x.value, unparse(t)
            elif isinstance(x, ast.Call) and dotted(x.func) in ("object.__setattr__", "setattr") and len(x.args) == 3 and isinstance(x.args[1], ast.Constant) and x.args[1].value in names:
                val, what = x.args[2], f"field {x.args[1].value}"
            elif isinstance(x, ast.Call):
                for k in x.keywords:
                    if k.arg in names:
                        n += 1
                        R.check("C09.r6", "the seed is passed on unchanged", transparent(k.value), fi, x,
                                msg=f"{fi.short}: `{k.arg}={unparse(k.value)[:50]}` transforms the seed on its way to the seeding call: a many-to-one map (modulus, hash, mask) "
                                    f"makes distinct seeds give identical runs", key=f"seed-transformed:{fi.short}:kw")
            if what is not None:
                n += 1
                R.check("C09.r6", "the seed is stored unchanged", transparent(val), fi, x,
                        msg=f"{fi.short}: `{what}` is set to `{unparse(val)[:60]}`: the seed is transformed before it reaches the seeding call; a many-to-one map (modulus, hash, "
                            f"mask) makes distinct seeds give identical runs (e.g. s and s + 2**31 - 1)", key=f"seed-transformed:{fi.short}")
    R.floor("C09.r6", "places where the seed is stored or passed by name", n, 2)
    # the seed written into a checkpoint (and used to re-seed on load) is the configured one; decided on the form in
    # which loops over literal tables are written out (`for attr in ("random_state", ...): d[attr] = getattr(self, attr, None)`)
    from .. import normalize as _nz
    from ..engine import Context as _Ctx
    from ..model import Program as _Prog

    cx = ctx
    try:
        nsrc, what = _nz.normalize_sources(ctx.prog.sources)
        if any("literal-table" in w for w in what):
            cx = _Ctx(_Prog(None, sources=nsrc))
    except Exception:  # the normaliser must never turn into an alarm
        cx = ctx
    T = Tracer(cx)
    n_ck = 0
    for fi in cx.prog.functions.values():
        for x in walk_no_nested(fi.node):
            if isinstance(x, ast.Assign) and len(x.targets) == 1 and isinstance(x.targets[0], ast.Subscript) and isinstance(x.targets[0].slice, ast.Constant) and x.targets[0].slice.value in names:
                n_ck += 1
                at = flow_of(fi.node).node_containing(x)
                origs = T.origins(fi, x.value, at)
                ok = any(o.kind == "user" for o in origs) and not any(o.kind in ("unknown", "literal") for o in origs)
                R.check("C09.r6", "the seed recorded in a checkpoint is the configured seed", ok, fi, x,
                        msg=f"{fi.short}: `{unparse(x)[:70]}` records {[repr(o)[:60] for o in origs][:3]} as the seed: it is not the configured random_state (e.g. an attribute that "
                            f"does not exist on this object, read with a None default), so a run resumed from the checkpoint is not re-seeded / not reproducible", key=f"checkpoint-seed:{fi.short}")
    R.analysed["C09.r6:checkpoint seed stores"] = n_ck


def rule_r7(ctx: Context, R: Reporter):
    """C09.r7  nothing touches the random stream when the package is imported or a function is defined: no draw, seeding
    or generator construction in a default argument, a decorator, a class body or at module level.  Such a value is
    produced before the user's seed is applied (not reproducible across processes) and then shared by every call."""
    n = 0
    kinds = ("draw", "seed", "generator", "other-numpy-random")
    for s_ in ctx.rng.sites:
        if s_.kind not in kinds:
            continue
        fn = s_.func.node
        outside = [x for e in list(fn.args.defaults) + [k for k in fn.args.kw_defaults if k is not None] + list(fn.decorator_list) for x in ast.walk(e)]
        n += 1
        if any(x is s_.call for x in outside):
            R.check("C09.r7", "no use of the random stream at definition / import time", False, s_.func, s_.call,
                    msg=f"{s_.func.short}: `{unparse(s_.call)[:60]}` sits in a default argument / decorator: it is evaluated once at import, before any seed is applied, and the same value is "
                        f"used by every call -- two processes with the same random_state differ, and the value never changes between calls", key=f"definition-time:{s_.func.short}")
    for m in ctx.prog.modules.values():
        def top(node):
            for ch in ast.iter_child_nodes(node):
                if isinstance(ch, (ast.FunctionDef, ast.AsyncFunctionDef, ast.Lambda)):
                    continue
                yield ch
                yield from top(ch)
        for x in top(m.tree):
            if isinstance(x, ast.Call):
                d = dotted(x.func)
                head = d.split(".")[0] if d else ""
                full = (m.imports.get(head, head) + d[len(head):]) if d else ""
                if full.startswith("numpy.random.") or full.startswith("random."):
                    R.check("C09.r7", "no use of the random stream at definition / import time", False, None, x,
                            msg=f"{m.relpath}:{x.lineno}: `{unparse(x)[:60]}` runs at import time (module / class body): it is evaluated before any seed is applied", key=f"import-time:{m.relpath}:{norm_text(x)[:40]}",
                            loc=f"{m.relpath}:{x.lineno}")
    R.check("C09.r7", f"{n} stream-touching call sites are all statements of function bodies", True, None, None, key="definition-time-scan", loc="tempest/")
    R.floor("C09.r7", "stream-touching call sites examined", n, 8)


def run(ctx: Context, R: Reporter):
    T = Tracer(ctx)
    R.guard(rule_r6, ctx, R)
    R.guard(rule_r5, ctx, R)
    R.guard(rule_r1, ctx, R, T)
    R.guard(rule_r2, ctx, R, T)
    R.guard(rule_r3, ctx, R)
    R.guard(rule_r4, ctx, R)
    R.guard(rule_r7, ctx, R)


def _add_default(relpath, defpath, name, default_src):
    from ..variants import edit

    def fn(node, tree):
        node.args.args.append(ast.arg(arg=name))
        node.args.defaults.append(ast.parse(default_src, mode="eval").body)
        return True

    return edit(relpath, defpath, fn)


def variants():
    from ..variants import Variant, alpha_rename, chain, delete_stmt, insert_after, insert_before, insert_before_function, replace_expr, replace_stmt

    core = "tempest/core.py"
    cl = "tempest/cluster.py"
    return [
        Variant("r7-offset-in-default-argument", "bad", chain(replace_expr("tempest/tools.py", "systematic_resample", "(np.random.random() + np.arange(size)) / size", "(offset + np.arange(size)) / size"),
                                                               _add_default("tempest/tools.py", "systematic_resample", "offset", "np.random.random()")), ["C09.r7", "C06.c"], quick=True),
        Variant("r7-module-level-jitter", "bad", insert_before_function("tempest/tools.py", "systematic_resample", "_JITTER = np.random.random()\n"), ["C09.r7"], quick=True),
        Variant("r7-benign-module-level-constant", "benign", insert_before_function("tempest/tools.py", "systematic_resample", "_HALF = np.float64(0.5)\n")),
        Variant("r1-load-does-not-reseed", "bad", replace_stmt(core, "SamplerCore.load_sampler_state", "np.random.seed(d['random_state'])", "pass"), ["C09.r1"], quick=True),
        Variant("r1-drop-seed", "bad", delete_stmt(core, "SamplerCore._initialize_fresh", "np.random.seed(self.config.random_state)"), ["C09.r1"], quick=True),
        Variant("r1-seed-only-on-resume", "bad", replace_expr(core, "SamplerCore._initialize_fresh", "self.config.random_state is not None", "self.config.random_state is None"), ["C09.r1", "ANALYSIS-ERROR"]),
        Variant("r2-literal-in-hgmm", "bad", replace_expr(cl, "HierarchicalGaussianMixture.fit", "GaussianMixture(n_components=2, covariance_type=self.covariance_type, n_init=self.n_init)", "GaussianMixture(n_components=2, covariance_type=self.covariance_type, n_init=self.n_init, random_state=42)"), ["C09.r2"], quick=True),
        Variant("r2-literal-default", "bad", replace_expr(cl, "GaussianMixture.__init__", "None", "0"), ["C09.r2"], note="default random_state=0"),
        Variant("r2-seed-in-mutate", "bad", insert_before("tempest/steps/mutate.py", "Mutator.run", "beta = self.state.get_current('beta')", "np.random.seed(12345)"), ["C09.r2"], quick=True),
        Variant("r2-seed-resample-literal", "bad", replace_expr("tempest/steps/resample.py", "Resampler.run", "systematic_resample(self.n_particles, weights=weights)", "systematic_resample(self.n_particles, weights=weights, random_state=0)"), ["C09.r2"]),
        Variant("r2-default-rng-literal", "bad", insert_before("tempest/modes.py", "ModeStatistics.from_global", "u = np.asarray(u)", "rng = np.random.default_rng(7)"), ["C09.r2"]),
        Variant("r2-reseed-each-iteration", "bad", insert_before(core, "SamplerCore.execute_iteration", "weights = self.reweighter.run()", "np.random.seed(self.config.random_state)"), ["C09.r2"], quick=True),
        Variant("r3-stdlib-random", "bad", insert_before("tempest/steps/mutate.py", "Mutator.run", "beta = self.state.get_current('beta')", "import random\njitter = random.random()"), ["C09.r3"]),
        Variant("r3-time-seed", "bad", insert_before(core, "SamplerCore._initialize_fresh", "self.state.set_current('iter', 0)", "import time\nnp.random.seed(int(time.time()))"), ["C09.r3", "C09.r2", "ANALYSIS-ERROR"]),
        Variant("r2-stream-rewind", "bad", chain(insert_before(core, "SamplerCore.run_sampling", "self.n_total = int(n_total)", "_stream = np.random.get_state()"), insert_after(core, "SamplerCore.run_sampling", "self.pbar.close()", "np.random.set_state(_stream)")), ["C09.r2"], quick=True),
        Variant("r5-memoised-function-draws", "bad", chain(insert_before_function("tempest/tools.py", "systematic_resample", "from functools import lru_cache\n\n\n@lru_cache(maxsize=8)\ndef _offset(size):\n    return np.random.random() / size\n"),
                                                             replace_expr("tempest/tools.py", "systematic_resample", "(np.random.random() + np.arange(size)) / size", "_offset(size) + np.arange(size) / size")), ["C09.r5"], quick=True),
        Variant("r5-benign-memoised-pure-function", "benign", chain(insert_before_function("tempest/tools.py", "systematic_resample", "from functools import lru_cache\n\n\n@lru_cache(maxsize=8)\ndef _teeth(size):\n    return tuple(k / size for k in range(size))\n"),
                                                                   insert_after("tempest/tools.py", "systematic_resample", "positions = (np.random.random() + np.arange(size)) / size", "teeth = _teeth(size)"))),
        Variant("r5-global-buffer", "bad", replace_stmt("tempest/steps/mutate.py", "Mutator.run", "u = np.random.rand(self.n_particles, self.n_dim)", "global _U\n_U = np.random.rand(self.n_particles, self.n_dim)\nu = _U"), ["C09.r5"], quick=True),
        Variant("r6-seed-folded", "bad", insert_before("tempest/config.py", "SamplerConfig.__post_init__", "self.validate()", "if self.random_state is not None:\n    object.__setattr__(self, 'random_state', int(self.random_state) % 2147483647)"), ["C09.r6"], quick=True),
        Variant("r6-benign-int-conversion", "benign", insert_before("tempest/config.py", "SamplerConfig.__post_init__", "self.validate()", "if self.random_state is not None:\n    object.__setattr__(self, 'random_state', int(self.random_state))")),
        Variant("benign-hoist-seed", "benign", replace_stmt(core, "SamplerCore._initialize_fresh", "np.random.seed(self.config.random_state)", "seed = self.config.random_state\nnp.random.seed(seed)"), quick=True),
        Variant("benign-seed-in-run", "benign", insert_before(core, "SamplerCore.run_sampling", "self.n_total = int(n_total)", "pass")),
    ]
