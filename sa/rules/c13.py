"""C13  Likelihood evaluation strategy is transparent; calls are counted exactly.

  C13.a  order-preserving dispatch: the distribute callable is builtin `map` or an
         attribute named `map`; its result is consumed positionally, once
  C13.b  exhaustive pool dispatch (contradiction rule): no path on which the pool
         value may still be an int reaches an attribute access on it
  C13.c  exact accounting: every call site of the likelihood wrapper is paired
         with one increment of the call counter by the row count of its
         argument on every path; the kernel's total is added to key `calls`
         exactly once; inside the wrapper every path evaluates the user function
         through exactly one dispatch (no probing call)
"""
from __future__ import annotations

import ast
from typing import Dict, List, Optional, Set, Tuple

from ..cfg import cfg_of
from ..dataflow import Resolver as ExprResolver
from ..dataflow import flow_of
from ..engine import Context, Reporter
from ..model import AnalysisError, ClassInfo, FuncInfo, dotted, norm_text, walk_no_nested
from ..records import Tagger
from ..util import call_arg, calls_in, calls_in_node, const_value, forced_atoms, path_facts, split_cond, unparse

PROP = "C13"
EXPLANATION = (
    "Decides three structural clauses: (a) results of the user likelihood are assembled only through order-preserving "
    "`map` callables and consumed positionally; (b) by a truth table over the branch atoms of the dispatcher, an "
    "attribute access on the pool value is reachable only where `isinstance(pool, int)` is known false; (c) by CFG path "
    "enumeration, each path through a likelihood-wrapper call site increments the call counter exactly once by the "
    "batch's row count, the kernel total is added to `calls` exactly once per iteration, and each path of the wrapper "
    "evaluates the user function through exactly one dispatch. Bit-identity of vectorised vs scalar user code and "
    "pools that violate the map contract are not decided."
)
ASSUMPTIONS = ["a pool object's .map preserves input order (multiprocess.Pool.map contract)", "the user likelihood is pointwise identical across evaluation modes"]


def wrapper_fn(ctx: Context) -> FuncInfo:
    """The likelihood wrapper: the method whose body calls the configured user
    likelihood (attribute `log_likelihood` of the config) in all its branches."""
    cands = []
    for fi in ctx.prog.functions.values():
        n = 0
        for c in calls_in(fi.node):
            if _is_user_like_ref(c.func):
                n += 1
            elif any(_is_user_like_ref(a) for a in c.args):
                n += 1
        if n >= 2:
            cands.append(fi)
    if len(cands) != 1:
        raise AnalysisError(f"C13: likelihood wrapper not identified uniquely ({[c.short for c in cands]})")
    return cands[0]


def _is_user_like_ref(e: ast.AST) -> bool:
    d = dotted(e) if isinstance(e, (ast.Attribute, ast.Name)) else ""
    return d.endswith("config.log_likelihood")


def _callable_sources(wrapper: FuncInfo, c: ast.Call) -> List[ast.expr]:
    """Expressions the callee of `c` can be: the function expression itself, or -- for a local name such as
    `distribute = map if ... else self._dispatch()` -- every value that reaches it."""
    f = c.func
    if isinstance(f, ast.Name):
        flow = flow_of(wrapper.node)
        at = flow.node_containing(c)
        ds = flow.reaching(at, f.id) if at is not None else []
        out: List[ast.expr] = []
        for d in ds:
            if d.kind == "assign" and d.value is not None and not d.path:
                v = d.value
                out += [v.body, v.orelse] if isinstance(v, ast.IfExp) else [v]
        return out or [f]
    return [f]


def dispatcher_fn(ctx: Context, wrapper: FuncInfo) -> FuncInfo:
    for c in calls_in(wrapper.node):
        for src in _callable_sources(wrapper, c):
            if isinstance(src, ast.Call):
                for t in ctx.res.call_targets(wrapper, src):
                    if isinstance(t, FuncInfo):
                        return t
    raise AnalysisError("C13: dispatcher (callable-returning helper used by the wrapper) not found")


_IDENTITY = {"numpy.asarray", "numpy.asanyarray", "numpy.atleast_2d", "numpy.ascontiguousarray", "numpy.array", "builtins.list", "builtins.tuple", "builtins.iter"}


def _is_batch_param(ctx: Context, wrapper: FuncInfo, e: Optional[ast.expr], at) -> bool:
    """`e` is the wrapper's batch parameter, possibly through value-preserving
    conversions (asarray, atleast_2d, list).  A selection / reordering is a
    violation; anything else is undecided."""
    if e is None:
        return False
    rx = ExprResolver(wrapper.node).resolve(e, at)
    while isinstance(rx, ast.Call) and (ctx.res.external_name(wrapper, rx) or "") in _IDENTITY and rx.args:
        rx = rx.args[0]
    if isinstance(rx, ast.Name):
        flow = flow_of(wrapper.node)
        ds = flow.reaching(at, rx.id)
        if rx.id in wrapper.params and all(d.kind == "param" for d in ds):
            return True
        # re-bound parameter: every definition must itself be a conversion of the parameter
        if ds and all(d.kind == "assign" and d.value is not None and not d.path and _is_batch_param(ctx, wrapper, d.value, d.node) for d in ds if d.kind != "param"):
            return True
        return False
    if any(isinstance(x, (ast.Subscript, ast.ListComp, ast.GeneratorExp)) for x in ast.walk(rx)) or any(
            isinstance(x, ast.Call) and dotted(x.func).split(".")[-1] in ("unique", "sorted", "sort", "permutation", "choice", "take", "compress", "reversed", "flip", "set", "delete")
            for x in ast.walk(rx)):
        return False
    raise AnalysisError(f"C13.a: cannot decide whether `{unparse(rx)[:60]}` is the batch handed to {wrapper.short}")


def _is_rowwise_call(ctx: Context, wrapper: FuncInfo, c: ast.Call, parents) -> bool:
    """`f(xi)` with the likelihood as the callee and `xi` the variable of an enclosing comprehension / for loop that runs
    over the wrapper's batch: the point-by-point evaluation written out -- the same thing as `map(f, x)`, not a
    whole-batch call with a wrong argument."""
    if not (_is_user_like_ref(c.func) and len(c.args) == 1 and not c.keywords and isinstance(c.args[0], ast.Name)):
        return False
    v = c.args[0].id
    flow = flow_of(wrapper.node)
    at = flow.node_containing(c)
    q = parents.get(id(c))
    while q is not None:
        gens = q.generators if isinstance(q, (ast.ListComp, ast.GeneratorExp, ast.SetComp)) else []
        for g in gens:
            if isinstance(g.target, ast.Name) and g.target.id == v and not g.ifs:
                try:
                    return _is_batch_param(ctx, wrapper, g.iter, at)
                except AnalysisError:
                    return False
        if isinstance(q, ast.For) and isinstance(q.target, ast.Name) and q.target.id == v and any(c is y for b in q.body for y in ast.walk(b)):
            try:
                return _is_batch_param(ctx, wrapper, q.iter, flow.node_containing(q.iter) or at)
            except AnalysisError:
                return False
        q = parents.get(id(q))
    return False


def rule_a(ctx: Context, R: Reporter, wrapper: FuncInfo, disp: FuncInfo):
    flow = flow_of(disp.node)
    rets = [n for n in flow.cfg.stmt_nodes() if n.kind == "stmt" and isinstance(n.stmt, ast.Return) and n.stmt.value is not None]
    R.floor("C13.a", "returns of the dispatcher", len(rets), 2)
    for rn in rets:
        v = rn.stmt.value
        ok = (isinstance(v, ast.Name) and v.id == "map") or (isinstance(v, ast.Attribute) and v.attr == "map")
        R.check("C13.a", "dispatch callable is an order-preserving map", ok, disp, rn.stmt,
                msg=f"{disp.short}: returns `{unparse(v)}`; only builtin map or a pool's .map keep results in input order (imap_unordered / map_async / as_completed do not)",
                key=f"dispatch:{norm_text(v)}")
    # consumption in the wrapper: list(dispatch(f, x)) or list(map(f, x))
    n = 0
    for c in calls_in(wrapper.node):
        if any(_is_user_like_ref(a) for a in c.args):
            n += 1
            srcs = _callable_sources(wrapper, c)
            fn_ok = bool(srcs) and all((isinstance(x, ast.Name) and x.id == "map") or (isinstance(x, ast.Call) and any(t is disp for t in ctx.res.call_targets(wrapper, x))) for x in srcs)
            R.check("C13.a", "the user likelihood is mapped by builtin map or the dispatcher's callable", fn_ok, wrapper, c,
                    msg=f"{wrapper.short}: `{unparse(c)[:70]}` maps the likelihood with an unknown callable", key=f"mapper:{norm_text(c.func)[:40]}")
            first = c.args[0] if c.args else None
            R.check("C13.a", "argument order is (likelihood, points)", first is not None and _is_user_like_ref(first) and len(c.args) == 2, wrapper, c,
                    msg=f"{wrapper.short}: `{unparse(c)[:70]}`", key=f"mapper-args:{norm_text(c.func)[:40]}")
            # the callable may be builtin map (serial evaluation, an integer pool of one process) or a pool's map: only the
            # two positional arguments are common to both; a keyword (chunksize=...) makes the serial case raise
            R.check("C13.a", "the mapping callable is called with (function, points) only", not c.keywords, wrapper, c,
                    msg=f"{wrapper.short}: `{unparse(c)[:70]}` passes keyword(s) {[k.arg for k in c.keywords]} to the mapping callable, which is builtin `map` whenever evaluation is "
                        f"serial (pool=1, or a pool object's map otherwise): builtin map takes no keyword arguments, so a configuration the constructor accepted raises TypeError at the "
                        f"first likelihood evaluation", key=f"mapper-keywords:{norm_text(c.func)[:40]}")
            # the mapped points are the batch the wrapper was given: same rows, same order
            pts = c.args[1] if len(c.args) == 2 else None
            wflow = flow_of(wrapper.node)
            wn = wflow.node_containing(c)
            batch_ok = _is_batch_param(ctx, wrapper, pts, wn)
            R.check("C13.a", "the mapped points are the wrapper's batch argument itself", batch_ok, wrapper, c,
                    msg=f"{wrapper.short}: `{unparse(c)[:70]}` maps the likelihood over `{unparse(pts) if pts is not None else '?'}`, not over the batch it was given: a permuted, "
                        f"de-duplicated or sub-selected batch changes what the user function sees (and how often) depending on the evaluation mode", key=f"mapper-batch:{norm_text(c.func)[:40]}")
    # what the obligation quantifies over is the callables that can map the likelihood (builtin map, the
    # dispatcher's result), whether they are written as two call sites or as one call of a local name
    n_callables = sum(len(_callable_sources(wrapper, c)) for c in calls_in(wrapper.node) if any(_is_user_like_ref(a) for a in c.args))
    R.floor("C13.a", "mapping callables in the wrapper", n_callables, 1)
    # laziness: builtin map (also what the dispatcher returns for a pool of <= 1 processes) yields a one-shot iterator;
    # the result must be materialised before it is subscripted, measured or iterated a second time
    disp_may_be_lazy = any(isinstance(rn.stmt.value, ast.Name) and rn.stmt.value.id == "map" for rn in rets)
    parents = {}
    for x in ast.walk(wrapper.node):
        for ch in ast.iter_child_nodes(x):
            parents[id(ch)] = x
    for c in calls_in(wrapper.node):
        if not any(_is_user_like_ref(a) for a in c.args):
            continue
        srcs_ = _callable_sources(wrapper, c)
        lazy = any((isinstance(x, ast.Name) and x.id == "map") or (isinstance(x, ast.Call) and disp_may_be_lazy) for x in srcs_)
        if not lazy:
            continue
        par = parents.get(id(c))
        if isinstance(par, ast.Call) and dotted(par.func) in ("list", "tuple", "np.array", "np.asarray", "numpy.array", "np.fromiter") and par.args and par.args[0] is c:
            R.check("C13.a", "a lazily mapped result is materialised before use", True, wrapper, c, key=f"materialised:{norm_text(c.func)[:40]}")
            continue
        bad_use = None
        if isinstance(par, ast.Assign) and len(par.targets) == 1 and isinstance(par.targets[0], ast.Name):
            nm_ = par.targets[0].id
            wfl = flow_of(wrapper.node)
            dn = wfl.node_containing(par)
            iters = 0
            for u in ast.walk(wrapper.node):
                if isinstance(u, ast.Name) and u.id == nm_ and isinstance(u.ctx, ast.Load):
                    un = wfl.node_containing(u)
                    if un is None or dn is None or not any(d.node is dn for d in wfl.reaching(un, nm_)):
                        continue
                    up = parents.get(id(u))
                    if isinstance(up, ast.Subscript) and up.value is u:
                        bad_use = bad_use or f"`{unparse(up)[:30]}` subscripts it"
                    elif isinstance(up, ast.Call) and dotted(up.func) == "len":
                        bad_use = bad_use or f"`{unparse(up)[:30]}` measures it"
                    elif isinstance(up, ast.comprehension) or (isinstance(up, ast.For) and up.iter is u):
                        iters += 1
                    elif isinstance(up, (ast.BoolOp, ast.If, ast.IfExp, ast.UnaryOp)):
                        bad_use = bad_use or f"`{unparse(up)[:30]}` tests its truth value (an iterator is always true)"
            if bad_use is None and iters > 1:
                bad_use = f"it is iterated {iters} times"
        elif par is not None and not isinstance(par, (ast.For, ast.comprehension)):
            bad_use = None
        R.check("C13.a", "a lazily mapped result is materialised before use", bad_use is None, wrapper, c,
                msg=f"{wrapper.short}: `{unparse(c)[:60]}` may be a one-shot iterator (builtin map" + (", which the dispatcher returns for a serial pool" if isinstance(c.func, ast.Call) else "")
                    + f") and is not wrapped in list(...): {bad_use} -- TypeError / empty second pass for that evaluation mode only", key=f"materialised:{norm_text(c.func)[:40]}")
    # direct (vectorised) call: on the batch itself
    for c in calls_in(wrapper.node):
        if _is_user_like_ref(c.func) and _is_rowwise_call(ctx, wrapper, c, parents):
            continue  # point-by-point form: checked with the map sites below
        if _is_user_like_ref(c.func):
            a0 = c.args[0] if c.args else None
            wflow = flow_of(wrapper.node)
            wn = wflow.node_containing(c)
            ok = _is_batch_param(ctx, wrapper, a0, wn) and len(c.args) == 1 and not c.keywords
            R.check("C13.a", "the vectorised call receives the wrapper's batch argument itself", ok, wrapper, c,
                    msg=f"{wrapper.short}: `{unparse(c)[:70]}` does not pass the batch it was given", key="vector-batch")
    # mode precedence: a vectorised likelihood is called once on the whole batch whatever else is configured;
    # every pointwise map site is reachable only when `vectorize` is false
    wcfg = flow_of(wrapper.node).cfg
    from ..util import conds_holding_at as _cha

    def _facts(node):
        out = []
        for (t, pol) in _cha(wcfg, node):
            for (atom, p) in split_cond(t, pol):
                out.append((norm_text(ExprResolver(wrapper.node).resolve(atom, node)), p))
        return out

    for c in calls_in(wrapper.node):
        nd_ = flow_of(wrapper.node).node_containing(c)
        if nd_ is None:
            continue
        if any(_is_user_like_ref(a) for a in c.args) or _is_rowwise_call(ctx, wrapper, c, parents):
            fs = _facts(nd_)
            ok = any(txt.endswith("config.vectorize") and p is False for (txt, p) in fs)
            R.check("C13.a", "pointwise map sites are reached only when `vectorize` is false", ok, wrapper, c,
                    msg=f"{wrapper.short}: `{unparse(c)[:60]}` is reachable with config.vectorize set (conditions here: {fs}): a vectorised likelihood is then called one point at a "
                        f"time (a valid option combination misbehaves)", key=f"mode-precedence:{norm_text(c.func)[:40]}")
        elif _is_user_like_ref(c.func):
            fs = _facts(nd_)
            ok = any(txt.endswith("config.vectorize") and p is True for (txt, p) in fs) and not any("pool" in txt for (txt, p) in fs)
            R.check("C13.a", "the whole-batch call is selected by `vectorize` alone", ok, wrapper, c,
                    msg=f"{wrapper.short}: `{unparse(c)[:60]}` is guarded by {fs}: the vectorised path must not depend on the pool setting", key="mode-precedence:vector")
    # the evaluation strategy consumes no random numbers
    rng_sites = [s_ for s_ in ctx.rng.draws() + ctx.rng.seeds() if s_.func in (wrapper, disp)]
    R.check("C13.a", "the likelihood wrapper and dispatcher consume no random numbers", not rng_sites, wrapper, rng_sites[0].call if rng_sites else wrapper.node,
            msg=f"{wrapper.short}: `{unparse(rng_sites[0].call)[:60] if rng_sites else ''}` draws from / seeds the global generator inside the evaluation wrapper: the random stream "
                f"then depends on which evaluation mode (pool / vectorised / plain) is configured", key="wrapper-no-rng")
    # results consumed positionally: no sorted()/set()/dict over results
    for c in calls_in(wrapper.node):
        nm = dotted(c.func)
        if nm in ("sorted", "set", "frozenset", "reversed", "np.sort", "np.unique", "random.shuffle", "np.random.permutation", "np.random.shuffle") and c.args and "results" in {x.id for x in ast.walk(c.args[0]) if isinstance(x, ast.Name)}:
            R.check("C13.a", "results are consumed in input order", False, wrapper, c, msg=f"{wrapper.short}: `{unparse(c)[:60]}` reorders the results")


def rule_b(ctx: Context, R: Reporter, disp: FuncInfo):
    flow = flow_of(disp.node)
    cfg = flow.cfg
    n = 0
    for nd in cfg.stmt_nodes():
        roots = [nd.ast] if nd.ast is not None and nd.kind in ("stmt", "test") else []
        for root in roots:
            for a in ast.walk(root):
                # attribute access X.attr where X is the pool value (config.pool or a local alias)
                if not (isinstance(a, ast.Attribute) and isinstance(a.ctx, ast.Load)):
                    continue
                base = a.value
                bt = norm_text(base)
                if not (bt.endswith("config.pool") or bt == "pool"):
                    continue
                if bt == "pool":
                    ds = flow.reaching(nd, "pool")
                    if not ds or any(d.value is None or not norm_text(d.value).endswith("config.pool") for d in ds):
                        continue  # a freshly constructed Pool object
                    bt = norm_text(ds[0].value)
                n += 1
                rs_ = ExprResolver(disp.node)
                facts = [(rs_.resolve(t, nd), pol) for (t, pol) in path_facts(disp.node, nd)]
                atoms, forced = forced_atoms(facts)
                ok = False
                why = "no isinstance(int) fact on this path"
                if forced == "unsat":
                    ok = True
                elif forced is not None:
                    for at_, fv in zip(atoms, forced):
                        if isinstance(at_, ast.Call) and dotted(at_.func) == "isinstance" and len(at_.args) == 2 and norm_text(at_.args[0]).endswith("config.pool") and "int" in norm_text(at_.args[1]):
                            if fv is False:
                                ok = True
                            else:
                                why = f"`{unparse(at_)}` is not known false here (path facts: {[(unparse(t)[:40], p) for (t, p) in facts]})"
                R.check(
                    "C13.b", "attribute access on the pool only where it cannot be an int", ok, disp, a,
                    msg=f"{disp.short}: `{unparse(a)}` is reached on a path where the pool may still be an int ({why}): e.g. pool=1 raises AttributeError",
                    key=f"int-pool-attr:{norm_text(a)}",
                )
    R.floor("C13.b", "attribute accesses on the pool value", n, 1)


def counter_increments(fi: FuncInfo) -> List[ast.AugAssign]:
    return [n for n in walk_no_nested(fi.node) if isinstance(n, ast.AugAssign) and isinstance(n.op, ast.Add) and isinstance(n.target, ast.Attribute) and "calls" in n.target.attr]


def rule_c(ctx: Context, R: Reporter, wrapper: FuncInfo):
    # (1) inside the wrapper: every entry->return path evaluates the user function through exactly one dispatch
    flow = flow_of(wrapper.node)
    cfg = flow.cfg
    eval_nodes = set()
    per_head: Dict[int, List[int]] = {}
    parents_c = {}
    for x_ in ast.walk(wrapper.node):
        for ch_ in ast.iter_child_nodes(x_):
            parents_c[id(ch_)] = x_
    for nd in cfg.stmt_nodes():
        for c in calls_in_node(nd):
            if _is_user_like_ref(c.func) or any(_is_user_like_ref(a) for a in c.args):
                # the point-by-point evaluation written as an explicit loop over the batch is one dispatch: it is counted
                # at the loop head (every path through the loop, zero rows included), not once per trip through the body
                if _is_user_like_ref(c.func) and nd.loops and _is_rowwise_call(ctx, wrapper, c, parents_c):
                    head = cfg.nodes[nd.loops[-1]]
                    if head.kind == "for" and isinstance(head.stmt.target, ast.Name) and c.args and isinstance(c.args[0], ast.Name) and head.stmt.target.id == c.args[0].id:
                        per_head.setdefault(head.id, []).append(nd.id)
                        continue
                eval_nodes.add(nd.id)
    for hid, body_nodes in per_head.items():
        others = [n_ for n_ in eval_nodes if hid in cfg.nodes[n_].loops]
        if len(body_nodes) == 1 and not others:
            eval_nodes.add(hid)  # exactly one evaluation per row: the loop is the dispatch
        else:
            eval_nodes.update(body_nodes)  # several evaluations per row: each one counts on the path through the body
    rets = [n for n in cfg.stmt_nodes() if n.kind == "stmt" and isinstance(n.stmt, ast.Return)]
    paths = cfg.acyclic_paths(cfg.entry.id, cfg.exit.id)
    counts = set()
    worst = None
    for p in paths:
        k = sum(1 for (nid, lab) in p if nid in eval_nodes)
        counts.add(k)
        if k != 1:
            worst = [repr(cfg.nodes[nid]) for (nid, lab) in p][:10]
    R.check("C13.c", "each path of the wrapper evaluates the user likelihood through exactly one dispatch", counts == {1}, wrapper, wrapper.node,
            msg=f"{wrapper.short}: paths evaluate the user function {sorted(counts)} times (a probing/duplicate call changes the number of evaluations and, for stateful pools, the stream)",
            witness={"path": worst, "paths": len(paths)}, key="one-dispatch-per-path")
    R.analysed["C13.c:wrapper_paths"] = len(paths)
    # (1b) who may evaluate the user likelihood: only the wrapper (an evaluation elsewhere -- a shape probe,
    # a warm-up call -- is never counted and is not subject to the dispatch rules)
    for fi2 in ctx.prog.functions.values():
        if fi2 is wrapper:
            continue
        for c in calls_in(fi2.node):
            if _is_user_like_ref(c.func) or any(_is_user_like_ref(a) for a in c.args):
                R.check("C13.c", "the configured user likelihood is evaluated only inside the likelihood wrapper", False, fi2, c,
                        msg=f"{fi2.short}: `{unparse(c)[:60]}` evaluates the user's likelihood outside {wrapper.short}: these evaluations are not added to the call counter "
                            f"(and by-pass the vectorise / pool dispatch)", key=f"user-likelihood-outside-wrapper:{fi2.short}")
    # (2) call sites of the wrapper (through attributes wired to it) and their accounting
    n_sites = 0
    for fi in ctx.prog.functions.values():
        if fi is wrapper:
            continue
        tg = Tagger(ctx, fi)
        fl = flow_of(fi.node)
        c2 = fl.cfg
        sites = [(nd, c) for nd in c2.stmt_nodes() for c in calls_in_node(nd) if tg.role_of_call(c) == "likelihood" and dotted(c.func).split(".")[-1] in ("log_likelihood",)]
        if not sites:
            continue
        incs = counter_increments(fi)
        key_incs = [a for a in ctx.state.in_func(fi, include_nested=False) if a.mode == "write" and a.key == "calls"]
        for (nd, c) in sites:
            n_sites += 1
            arg = c.args[0] if c.args else None
            # rows of the argument
            rows = _row_count(ctx, fi, arg, nd)
            if incs:
                inc_nodes = [fl.node_containing(i) for i in incs]
                # exactly one increment on every path through the call site to exit, none on paths avoiding it
                one = all(x is not None for x in inc_nodes) and len(inc_nodes) == 1 and c2.postdominates(inc_nodes[0].id, nd.id) or \
                    (len(inc_nodes) == 1 and not c2.reaches(nd.id, c2.exit.id, blocked=[inc_nodes[0].id]))
                every_path_has_call = all(not c2.reaches(c2.entry.id, i.id, blocked=[s[0].id for s in sites]) for i in inc_nodes if i is not None)
                amount = norm_text(incs[0].value) if incs else None
                R.check("C13.c", f"{fi.short}: one counter increment on every path through the likelihood call", bool(one) and every_path_has_call, fi, c,
                        msg=f"{fi.short}: the likelihood call `{unparse(c)[:50]}` is not paired with exactly one `{unparse(incs[0])[:40]}` on every path", key=f"pair:{fi.short}")
                R.check("C13.c", f"{fi.short}: the increment equals the number of evaluated rows", rows is not None and amount == rows, fi, incs[0],
                        msg=f"{fi.short}: counter grows by `{amount}` but `{unparse(arg)}` has `{rows}` rows", key=f"amount:{fi.short}")
            elif key_incs:
                # direct update of the state key
                ok_any = False
                for a in key_incs:
                    wn = fl.node_containing(a.call)
                    if wn is None or not c2.reaches(nd.id, wn.id):
                        continue
                    rx = ExprResolver(fi.node).resolve(a.value, wn)
                    if isinstance(rx, ast.BinOp) and isinstance(rx.op, ast.Add):
                        parts = [rx.left, rx.right]
                        cur = [p for p in parts if isinstance(p, ast.Call) and isinstance(p.func, ast.Attribute) and p.func.attr == "get_current" and const_value(call_arg(p, 0, "key")) == "calls"]
                        oth = [p for p in parts if p not in cur]
                        if len(cur) == 1 and len(oth) == 1 and rows is not None and norm_text(oth[0]) == rows:
                            # the write is on every path from the call to exit, inside every loop that repeats the call, and
                            # no other evaluation (or a repetition of this one) happens before it
                            write_ids = [x.id for x in (fl.node_containing(a2.call) for a2 in key_incs) if x is not None]
                            repeated = not set(nd.loops) <= set(wn.loops)
                            again = any(nd2.id != nd.id and c2.reaches(nd.id, nd2.id, blocked=write_ids) for (nd2, _c) in sites)
                            if not c2.reaches(nd.id, c2.exit.id, blocked=[wn.id]) and not repeated and not again:
                                ok_any = True
                R.check("C13.c", f"{fi.short}: `calls` grows by the number of evaluated rows on every path through the likelihood call", ok_any, fi, c,
                        msg=f"{fi.short}: after `{unparse(c)[:50]}` ({rows} rows) the key `calls` is not updated as calls + {rows} on every path", key=f"key-amount:{fi.short}")
            else:
                R.check("C13.c", f"{fi.short}: likelihood call is accounted", False, fi, c, msg=f"{fi.short}: `{unparse(c)[:50]}` has no call accounting", key=f"unaccounted:{fi.short}")
    R.floor("C13.c", "likelihood-wrapper call sites", n_sites, 2)
    # (3) the kernel total reaches key `calls` exactly once
    from .c07 import kernel_base

    base = kernel_base(ctx)
    run = base.methods.get("run")
    init = base.methods.get("__init__")
    counter_attr = None
    for m in base.methods.values():
        for i in counter_increments(m):
            counter_attr = i.target.attr
    if counter_attr is None:
        raise AnalysisError("C13.c: kernel call counter not found")
    # initialised to 0 and modified only by the paired increment
    assigns = ctx.res.attr_assignments(base, counter_attr)
    for sc in ctx.prog.subclasses(base):
        assigns = assigns + ctx.res._attr_values.get((sc.qualname, counter_attr), [])
    plain = [(m, st, v) for (m, st, v) in assigns if not isinstance(v, ast.AugAssign)]
    augs = [(m, st, v) for (m, st, v) in assigns if isinstance(v, ast.AugAssign)]
    R.check("C13.c", "kernel counter starts at 0 in the constructor", len(plain) == 1 and plain[0][0].name == "__init__" and const_value(plain[0][2]) == 0, base.methods["__init__"], plain[0][1] if plain else base.node,
            msg=f"{base.name}.{counter_attr} initialisations: {[(m.short, unparse(st)) for (m, st, v) in plain]}", key="counter-init")
    R.check("C13.c", "kernel counter is modified at exactly one place", len(augs) == 1, base.methods["__init__"], augs[0][1] if augs else base.node,
            msg=f"{base.name}.{counter_attr} is updated at {len(augs)} places: {[(m.short, unparse(st)) for (m, st, v) in augs]}", key="counter-single-update")
    # the evaluation helper is called exactly once per kernel iteration
    if run is not None:
        rf = flow_of(run.node)
        ev_sites = []
        for nd in rf.cfg.stmt_nodes():
            for c in calls_in_node(nd):
                if any(isinstance(t, FuncInfo) and counter_increments(t) for t in ctx.res.call_targets(run, c)):
                    ev_sites.append(nd)
        ok = len(ev_sites) == 1 and len(ev_sites[0].loops) == 1
        R.check("C13.c", "one batch evaluation per kernel iteration", ok, run, ev_sites[0].stmt if ev_sites else run.node,
                msg=f"{run.short}: {len(ev_sites)} evaluation sites / loop depth {[len(e.loops) for e in ev_sites]}", key="one-eval-per-iteration")
        rets = [r for r in walk_no_nested(run.node) if isinstance(r, ast.Return) and isinstance(r.value, ast.Tuple)]
        pos = None
        for r in rets:
            for i, e in enumerate(r.value.elts):
                if isinstance(e, ast.Attribute) and e.attr == counter_attr:
                    pos = i
        R.check("C13.c", "the kernel returns its call counter", pos is not None, run, rets[0] if rets else run.node, msg=f"{run.short}: self.{counter_attr} is not returned", key="counter-returned")
        # consumer
        for fi in ctx.prog.functions.values():
            fl = flow_of(fi.node)
            for nd in fl.cfg.stmt_nodes():
                if nd.kind == "stmt" and isinstance(nd.stmt, ast.Assign) and isinstance(nd.stmt.targets[0], ast.Tuple) and isinstance(nd.stmt.value, ast.Call) and pos is not None \
                        and len(nd.stmt.targets[0].elts) == len(rets[0].value.elts):
                    reach = [t for t in ctx.res.call_targets(fi, nd.stmt.value) if isinstance(t, FuncInfo)]
                    if not any(run in ctx.cg.reachable([t]) for t in reach) or (fi.cls is not None and (fi.cls is base or ctx.prog.is_subclass(fi.cls, base))):
                        continue
                    var = nd.stmt.targets[0].elts[pos]
                    writes = [a for a in ctx.state.in_func(fi, include_nested=False) if a.mode == "write" and a.key == "calls"]
                    good = []
                    for a in writes:
                        wn = fl.node_containing(a.call)
                        if wn is None or not fl.cfg.reaches(nd.id, wn.id):
                            continue
                        rx = ExprResolver(fi.node).resolve(a.value, wn)
                        if isinstance(rx, ast.BinOp) and isinstance(rx.op, ast.Add):
                            parts = [rx.left, rx.right]
                            cur = [p for p in parts if isinstance(p, ast.Call) and isinstance(p.func, ast.Attribute) and p.func.attr == "get_current" and const_value(call_arg(p, 0, "key")) == "calls"]
                            oth = [p for p in parts if p not in cur]
                            if len(cur) == 1 and len(oth) == 1 and isinstance(var, ast.Name) and isinstance(oth[0], ast.Name) and oth[0].id == var.id and not wn.loops:
                                good.append(wn)
                    ok = len(good) == 1 and not fl.cfg.reaches(nd.id, fl.cfg.exit.id, blocked=[good[0].id])
                    after = [a for a in writes if fl.node_containing(a.call) is not None and fl.cfg.reaches(nd.id, fl.node_containing(a.call).id)]
                    R.check("C13.c", "the kernel's call total is added to `calls` exactly once", ok and len(after) == 1, fi, nd.stmt,
                            msg=f"{fi.short}: kernel result position {pos} (`{unparse(var)}`) is not added to key `calls` exactly once ({len(good)} matching updates, {len(after)} writes of `calls` after the kernel)",
                            key=f"kernel-total:{fi.short}")


def _row_count(ctx: Context, fi: FuncInfo, arg: Optional[ast.expr], nd) -> Optional[str]:
    """Symbolic number of rows of the array handed to the likelihood."""
    if not isinstance(arg, ast.Name):
        return None
    fl = flow_of(fi.node)
    ds = fl.reaching(nd, arg.id)
    rows = set()
    for d in ds:
        if d.kind == "param":
            # rows of a parameter: resolved at the internal call site(s)
            callers = ctx.cg.callers.get(fi.qualname, [])
            params = [p for p in fi.params if p not in ("self", "cls")]
            idx = params.index(arg.id) if arg.id in params else 0
            for (cf, call) in callers:
                a = call_arg(call, idx, arg.id)
                r = _row_count(ctx, cf, a, flow_of(cf.node).node_containing(call))
                rows.add(r)
            continue
        v = d.value
        if v is None:
            rows.add(None)
            continue
        r = None
        if isinstance(v, ast.Call) and not (ctx.res.external_name(fi, v) or "").startswith("numpy."):
            from ..chain import enter_call

            ent = enter_call(ctx, fi, v, d.path)
            if ent is not None:
                if isinstance(ent.value, ast.Name):
                    rows.add(_row_count(ctx, ent.fi, ent.value, ent.node))
                    continue
                v = ent.value
                fi_v = ent.fi
        if isinstance(v, ast.Call):
            nm = ctx.res.external_name(fi, v) or ""
            a0_ = v.args[0] if v.args else None
            # np.array(list(map(f, it))) / np.array([*map(f, it)]): one row per element of `it`
            if nm in ("numpy.array", "numpy.asarray") and isinstance(a0_, ast.Call) and dotted(a0_.func) in ("list", "tuple") and len(a0_.args) == 1 and isinstance(a0_.args[0], ast.Call) \
                    and dotted(a0_.args[0].func) == "map" and len(a0_.args[0].args) == 2:
                it0 = a0_.args[0].args[1]
                a0_ = ast.ListComp(elt=ast.Constant(value=0), generators=[ast.comprehension(target=ast.Name(id="_", ctx=ast.Store()), iter=it0, ifs=[], is_async=0)])
            if nm in ("numpy.array", "numpy.asarray") and v.args and isinstance(a0_, ast.ListComp):
                comp = a0_
                g = comp.generators[0]
                it = g.iter
                if isinstance(it, ast.Call) and dotted(it.func) == "range" and len(it.args) == 1:
                    r = _res_text(fi, it.args[0], d.node)
                elif isinstance(it, ast.Name):
                    r = _rows_of_name(ctx, fi, it, d.node)
        rows.add(r)
    if len(rows) == 1:
        return rows.pop()
    return None


def _res_text(fi: FuncInfo, e: ast.expr, at) -> str:
    """text of a size expression with plain local aliases (n = self.n_particles) written out"""
    if at is not None and isinstance(e, ast.Name):
        try:
            return norm_text(ExprResolver(fi.node).resolve(e, at))
        except Exception:
            pass
    return norm_text(e)


def _rows_of_name(ctx: Context, fi: FuncInfo, name: ast.Name, nd) -> Optional[str]:
    from ..chain import defs_of, enter_call

    out = set()
    for lk in defs_of(ctx, fi, nd, name.id):
        v = lk.value
        fi2 = lk.fi
        # a helper that allocates and fills the proposal array: follow its returned name
        if isinstance(v, ast.Call) and (ctx.res.external_name(fi2, v) or "") not in ("numpy.empty_like", "numpy.zeros_like"):
            ent = enter_call(ctx, fi2, v)
            if ent is not None and isinstance(ent.value, ast.Name):
                out.add(_rows_of_name(ctx, ent.fi, ent.value, ent.node))
                continue
        fi = fi2
        if isinstance(v, ast.Call) and (ctx.res.external_name(fi2, v) or "") in ("numpy.random.rand", "numpy.random.random", "numpy.random.uniform", "numpy.zeros", "numpy.empty", "numpy.ones") and v.args:
            a0 = v.args[0]
            if isinstance(a0, ast.Tuple) and a0.elts:
                a0 = a0.elts[0]
            size_kw = next((k.value for k in v.keywords if k.arg == "size"), None)
            if (ctx.res.external_name(fi2, v) or "") == "numpy.random.uniform" and size_kw is not None:
                a0 = size_kw.elts[0] if isinstance(size_kw, ast.Tuple) else size_kw
            out.add(_res_text(fi2, a0, lk.node if hasattr(lk, 'node') else None))
            continue
        if isinstance(v, ast.Call) and (ctx.res.external_name(fi, v) or "") in ("numpy.empty_like", "numpy.zeros_like") and v.args:
            a = v.args[0]
            # rows of self.u = n_walkers when (n_walkers, n_dim) = x.shape and u, x are parallel arrays
            if isinstance(a, ast.Attribute) and isinstance(a.value, ast.Name) and a.value.id == "self" and fi.cls is not None:
                for (m, st, val) in ctx.res.attr_assignments(fi.cls, "n_walkers"):
                    if isinstance(st, ast.Assign) and isinstance(st.value, ast.Attribute) and st.value.attr == "shape":
                        out.add("self.n_walkers")
            continue
        out.add(None)
    return out.pop() if len(out) == 1 else None


def rule_e(ctx: Context, R: Reporter):
    """C13.e  objects shipped to pool workers survive pickling unchanged: for every
    class with a custom `__setstate__` (or `__getstate__`), every key the
    restoring method reads from the state mapping is an attribute the class
    assigns (constructor or `__getstate__` output), and every attribute assigned in
    the constructor is restored.  A misspelt key silently drops the user's
    likelihood arguments on the worker side only."""
    n = 0
    for cls in ctx.prog.classes.values():
        ss = cls.methods.get("__setstate__")
        gs = cls.methods.get("__getstate__")
        if ss is None:
            continue
        n += 1
        init = cls.methods.get("__init__")
        attrs = set()
        for m in ([init] if init else []):
            for x in walk_no_nested(m.node):
                if isinstance(x, ast.Assign):
                    for t in x.targets:
                        if isinstance(t, ast.Attribute) and isinstance(t.value, ast.Name) and t.value.id == "self":
                            attrs.add(t.attr)
        sp = [p for p in ss.params if p != "self"]
        if not sp:
            continue
        st = sp[0]
        read = set()
        whole = False
        for x in walk_no_nested(ss.node):
            if isinstance(x, ast.Subscript) and isinstance(x.value, ast.Name) and x.value.id == st and isinstance(x.slice, ast.Constant) and isinstance(x.slice.value, str):
                read.add(x.slice.value)
            if isinstance(x, ast.Call) and isinstance(x.func, ast.Attribute) and x.func.attr in ("get", "pop") and isinstance(x.func.value, ast.Name) and x.func.value.id == st \
                    and x.args and isinstance(x.args[0], ast.Constant) and isinstance(x.args[0].value, str):
                read.add(x.args[0].value)
            if isinstance(x, ast.Call) and isinstance(x.func, ast.Attribute) and x.func.attr == "update" and "__dict__" in norm_text(x.func.value) and x.args and isinstance(x.args[0], ast.Name) and x.args[0].id == st:
                whole = True
        produced = set(attrs)
        if gs is not None:
            for x in walk_no_nested(gs.node):
                if isinstance(x, ast.Dict):
                    produced |= {k.value for k in x.keys if isinstance(k, ast.Constant) and isinstance(k.value, str)}
        unknown = sorted(read - produced)
        R.check("C13.e", f"{cls.name}.__setstate__ reads only keys that exist in the pickled state", not unknown, ss, ss.node,
                msg=f"{ss.short}: reads state key(s) {unknown} that no constructor attribute / __getstate__ entry provides (attributes: {sorted(produced)}): the value is silently "
                    f"replaced by the fallback in every unpickled copy (pool workers), not in the parent process", key=f"setstate-keys:{cls.name}")
        if not whole and gs is None:
            restored = set()
            for x in walk_no_nested(ss.node):
                if isinstance(x, ast.Assign):
                    for t in x.targets:
                        if isinstance(t, ast.Attribute) and isinstance(t.value, ast.Name) and t.value.id == "self":
                            restored.add(t.attr)
            missing = sorted(attrs - restored)
            R.check("C13.e", f"{cls.name}.__setstate__ restores every constructor attribute", not missing, ss, ss.node,
                    msg=f"{ss.short}: does not restore {missing}", key=f"setstate-restores:{cls.name}")
    R.analysed["C13.e:classes_with_setstate"] = n
    if n == 0:
        R.check("C13.e", "no class customises unpickling (default pickling keeps every attribute)", True, None, None, key="setstate-none", loc="tempest/")


def rule_f(ctx: Context, R: Reporter, wrapper: FuncInfo, disp: FuncInfo):
    """C13.f  who-may-read the pool option: the evaluation strategy is transparent only if nothing but the
    evaluation machinery looks at it -- the dispatcher, the wrapper, the checkpoint writer (which detaches
    it while pickling) and pure forwarding (a keyword argument, a value of an exported dictionary).  Any
    other read lets an algorithmic quantity (particle count, schedule, ...) depend on the pool."""
    n = 0
    allowed_funcs = {wrapper.qualname, disp.qualname}
    for fi in ctx.prog.functions.values():
        if any((ctx.res.external_name(fi, c) or "") in ("dill.dumps", "dill.dump", "pickle.dumps", "pickle.dump") for c in calls_in(fi.node)):
            allowed_funcs.add(fi.qualname)
    for fi in ctx.prog.functions.values():
        parents = {}
        for x in ast.walk(fi.node):
            for ch in ast.iter_child_nodes(x):
                parents[id(ch)] = x
        for x in walk_no_nested(fi.node):
            is_read = isinstance(x, ast.Attribute) and x.attr in ("pool", "vectorize") and isinstance(x.ctx, ast.Load)
            if not is_read:
                continue
            n += 1
            par = parents.get(id(x))
            forwarding = isinstance(par, ast.keyword) or (isinstance(par, ast.Dict) and any(v is x for v in par.values)) or (isinstance(par, ast.Return) and par.value is x)
            ok = fi.qualname in allowed_funcs or forwarding
            if x.attr == "vectorize" and fi.cls is not None and fi.cls.is_dataclass:
                ok = True  # the configuration's own validation (vectorised likelihood with blobs is rejected)
            R.check("C13.f", "the evaluation options (pool, vectorize) are read only by the evaluation machinery (or forwarded untouched)", ok, fi, x,
                    msg=f"{fi.short}: reads `{unparse(x)}` (in `{unparse(par)[:60] if par is not None else ''}`) outside the likelihood wrapper / dispatcher / checkpoint writer: something "
                        f"other than how the likelihood is evaluated now depends on the evaluation option `{x.attr}`, so runs that differ only in that option differ under one seed",
                    key=f"{x.attr}-read:{fi.short}")
    R.floor("C13.f", "reads of the pool option", n, 5)


def rule_g(ctx: Context, R: Reporter, wrapper: FuncInfo, disp: FuncInfo):
    """C13.g  worker pools live for one evaluation (or are the user's): a pool the library creates is never kept in
    process-lifetime storage -- a module-level container, a global, a class attribute.  Forked workers keep the
    module globals of the moment they were started, so a cached pool evaluates a later run's likelihood against
    stale data and the pooled run differs from the serial one."""
    POOLS = ("Pool", "ThreadPool", "ProcessPoolExecutor", "ThreadPoolExecutor", "get_context")
    n = 0
    for fi in ctx.prog.functions.values():
        globals_ = {g for x in walk_no_nested(fi.node) if isinstance(x, ast.Global) for g in x.names}
        modconsts = set(fi.module.constants)
        for st in walk_no_nested(fi.node):
            if not isinstance(st, ast.Assign):
                continue
            if not any(isinstance(c, ast.Call) and dotted(c.func).split(".")[-1] in POOLS for c in ast.walk(st.value)):
                continue
            n += 1
            why = None
            for t in st.targets:
                for tt in (t.elts if isinstance(t, (ast.Tuple, ast.List)) else [t]):
                    base = tt
                    while isinstance(base, ast.Subscript):
                        base = base.value
                    if isinstance(base, ast.Name) and (base.id in globals_ or (isinstance(tt, ast.Subscript) and base.id in modconsts)):
                        why = f"the module-level `{base.id}`"
                    elif isinstance(base, ast.Attribute) and isinstance(base.value, ast.Name) and (base.value.id == "cls" or (fi.cls is not None and base.value.id == fi.cls.name)):
                        why = f"the class attribute `{unparse(base)}`"
            R.check("C13.g", "a pool created by the library is not cached for the life of the process", why is None, fi, st,
                    msg=f"{fi.short}: `{unparse(st)[:70]}` keeps the worker pool in {why}: its workers were forked with the module state of that moment and are reused by later "
                        f"batches, runs and samplers, so a pooled evaluation can differ from the serial one", key=f"pool-cached:{fi.short}")
    n_calls = sum(1 for fi in ctx.prog.functions.values() for c in calls_in(fi.node) if dotted(c.func).split(".")[-1] in POOLS)
    R.floor("C13.g", "pool creation calls", n_calls, 1)


def run(ctx: Context, R: Reporter):
    w = wrapper_fn(ctx)
    d = dispatcher_fn(ctx, w)
    R.guard(rule_a, ctx, R, w, d)
    R.guard(rule_b, ctx, R, d)
    R.guard(rule_c, ctx, R, w)
    R.guard(rule_e, ctx, R)
    R.guard(rule_f, ctx, R, w, d)
    R.guard(rule_g, ctx, R, w, d)


def variants():
    from ..variants import Variant, alpha_rename, chain, delete_stmt, insert_after, insert_before, replace_expr, replace_if, replace_stmt

    core = "tempest/core.py"
    mc = "tempest/mcmc.py"
    mu = "tempest/steps/mutate.py"
    return [
        Variant("a-shuffled-pool-batch", "bad", replace_stmt(core, "SamplerCore._log_like", "results = list(self._get_distribute_func()(self.config.log_likelihood, x))", "order = np.random.permutation(len(x))\nshuf = list(self._get_distribute_func()(self.config.log_likelihood, x[order]))\nresults = [None] * len(shuf)\nfor pos, j in enumerate(order):\n    results[j] = shuf[pos]"), ["C13.a"], quick=True),
        Variant("a-dedup-batch", "bad", replace_stmt(core, "SamplerCore._log_like", "results = list(map(self.config.log_likelihood, x))", "pts, inv = np.unique(x, axis=0, return_inverse=True)\nres0 = list(map(self.config.log_likelihood, pts))\nresults = [res0[i] for i in inv]"), ["C13.a"]),
        Variant("a-asarray-batch-benign", "benign", replace_stmt(core, "SamplerCore._log_like", "results = list(map(self.config.log_likelihood, x))", "xs = np.asarray(x)\nresults = list(map(self.config.log_likelihood, xs))")),
        # the point-by-point evaluation written out as a comprehension / loop is the same thing as map(f, x)
        Variant("a-benign-rowwise-comprehension", "benign", replace_stmt(core, "SamplerCore._log_like", "results = list(map(self.config.log_likelihood, x))", "results = [self.config.log_likelihood(xi) for xi in x]"), quick=True),
        Variant("a-benign-rowwise-loop", "benign", replace_stmt(core, "SamplerCore._log_like", "results = list(map(self.config.log_likelihood, x))", "results = []\nfor xi in x:\n    results.append(self.config.log_likelihood(xi))")),
        Variant("c-rowwise-loop-with-probe-call", "bad", replace_stmt(core, "SamplerCore._log_like", "results = list(map(self.config.log_likelihood, x))", "self.config.log_likelihood(x[0])\nresults = []\nfor xi in x:\n    results.append(self.config.log_likelihood(xi))"), ["C13.c"]),
        Variant("c-rowwise-loop-evaluates-twice-per-row", "bad", replace_stmt(core, "SamplerCore._log_like", "results = list(map(self.config.log_likelihood, x))", "results = []\nfor xi in x:\n    self.config.log_likelihood(xi)\n    results.append(self.config.log_likelihood(xi))"), ["C13.c"]),
        Variant("a-rowwise-comprehension-on-vectorised-path", "bad", replace_stmt(core, "SamplerCore._log_like", "return (self.config.log_likelihood(x), None)", "return (np.array([self.config.log_likelihood(xi) for xi in x]), None)"), ["C13.a"], quick=True),
        Variant("a-rowwise-comprehension-over-reordered-batch", "bad", replace_stmt(core, "SamplerCore._log_like", "results = list(map(self.config.log_likelihood, x))", "results = [self.config.log_likelihood(xi) for xi in x[::-1]]"), ["C13.a"], quick=True),
        Variant("a-pool-before-vectorize", "bad", chain(replace_expr(core, "SamplerCore._log_like", "self.config.vectorize", "self.config.pool is not None and not self.config.vectorize"), ), ["C13.a"]),
        Variant("a-imap-unordered", "bad", replace_expr(core, "SamplerCore._get_distribute_func", "self.config.pool.map", "self.config.pool.imap_unordered"), ["C13.a"], quick=True),
        Variant("a-pool-imap-unordered", "bad", replace_expr(core, "SamplerCore._get_distribute_func", "pool.map", "pool.imap_unordered"), ["C13.a"]),
        Variant("b-int-fallthrough", "bad", chain(replace_if(core, "SamplerCore._get_distribute_func", "self.config.pool <= 1", "pass"), replace_expr(core, "SamplerCore._get_distribute_func", "isinstance(self.config.pool, int)", "isinstance(self.config.pool, int) and self.config.pool > 1")), ["C13.b"], quick=True),
        Variant("c-probe-call", "bad", insert_before(core, "SamplerCore._log_like", "results = list(map(self.config.log_likelihood, x))", "probe = self.config.log_likelihood(x[0])"), ["C13.c"], quick=True),
        Variant("c-count-on-one-branch", "bad", replace_stmt(mc, "BaseMCMCRunner._evaluate_likelihood", "self.n_calls += self.n_walkers", "if self.blobs is None:\n    self.n_calls += self.n_walkers"), ["C13.c"], quick=True),
        Variant("c-count-one", "bad", replace_stmt(mc, "BaseMCMCRunner._evaluate_likelihood", "self.n_calls += self.n_walkers", "self.n_calls += 1"), ["C13.c"]),
        Variant("c-warmup-miscount", "bad", replace_expr(mu, "Mutator.run", "self.state.get_current('calls') + self.n_particles", "self.state.get_current('calls') + 1"), ["C13.c"]),
        Variant("c-warmup-redraw-uncounted", "bad", insert_after(mu, "Mutator.run", "logl, blobs = self.log_likelihood(x)", "while np.all(np.isinf(logl)):\n    u = np.random.rand(self.n_particles, self.n_dim)\n    x = np.array([self.prior_transform(u[i]) for i in range(self.n_particles)])\n    logl, blobs = self.log_likelihood(x)"), ["C13.c"], quick=True),
        Variant("c-total-added-twice", "bad", insert_after(mu, "Mutator.run", "self.state.set_current('calls', calls)", "self.state.set_current('calls', calls + mcmc_calls)"), ["C13.c"]),
        Variant("c-total-dropped", "bad", replace_stmt(mu, "Mutator.run", "calls = self.state.get_current('calls') + mcmc_calls", "calls = self.state.get_current('calls')"), ["C13.c"]),
        Variant("g-pool-cached-globally", "bad", replace_stmt(core, "SamplerCore._get_distribute_func", "pool = Pool(self.config.pool)", "global _POOL\n_POOL = pool = Pool(self.config.pool)"), ["C13.g"], quick=True),
        Variant("f-pool-sized-default", "bad", replace_stmt("tempest/config.py", "SamplerConfig.__post_init__", "object.__setattr__(self, 'n_particles', 2 * self.n_dim)", "object.__setattr__(self, 'n_particles', 2 * self.n_dim + (self.pool if isinstance(self.pool, int) else 0))"), ["C13.f"], quick=True),
        Variant("a-chunksize-keyword-to-mapper", "bad", replace_expr(core, "SamplerCore._log_like", "self._get_distribute_func()(self.config.log_likelihood, x)", "self._get_distribute_func()(self.config.log_likelihood, x, chunksize=4)"), ["C13.a"], quick=True),
        Variant("a-lazy-results", "bad", replace_expr(core, "SamplerCore._log_like", "list(self._get_distribute_func()(self.config.log_likelihood, x))", "self._get_distribute_func()(self.config.log_likelihood, x)"), ["C13.a"], quick=True),
        Variant("a-benign-tuple-results", "benign", replace_expr(core, "SamplerCore._log_like", "list(self._get_distribute_func()(self.config.log_likelihood, x))", "tuple(self._get_distribute_func()(self.config.log_likelihood, x))")),
        Variant("benign-rename-results", "benign", alpha_rename(core, "SamplerCore._log_like", "results", "vals"), quick=True),
        Variant("benign-rename-mcmc-calls", "benign", alpha_rename(mu, "Mutator.run", "mcmc_calls", "n_new")),
    ]
