"""C05  Temperature schedule is monotone, bounded and ESS-controlled.

  C05.a  coherent (beta, weights, ESS, logZ): on every path of the reweighting
         step that reaches the finalising call, weights and ESS were computed at
         exactly the beta that is recorded and logZ is the evidence component of
         the weight function at that beta (path-sensitive "evaluated-at" typing)
  C05.b  bisection return coherence: the auxiliary data returned with a beta was
         produced by the metric function at that beta
  C05.c  bracket invariants: the ESS-limit search only returns a beta that is the
         current one, or one for which `ESS(beta) >= target` was observed true on
         the path; the two-mode bisection moves the bracket end prescribed by the
         declared monotonicity (ESS decreasing, volume variation increasing)
  C05.d  containment: bracket variables are only assigned midpoints of the
         current bracket; returned values are bracket members; the first
         iteration writes the literal 0.0 -> beta stays in [beta_prev, 1]
  C05.e  who-may-write beta/ess/iter + pipeline order and wiring
"""
from __future__ import annotations

import ast
from typing import Dict, List, Optional, Set, Tuple

from ..cfg import cfg_of
from ..dataflow import Resolver as ExprResolver
from ..dataflow import flow_of
from ..engine import Context, Reporter
from ..model import AnalysisError, ClassInfo, FuncInfo, dotted, norm_text, walk_no_nested
from ..pathinterp import Event, Interp, V, all_at, all_kinds
from ..util import call_arg, calls_in, calls_in_node, conds_holding_at, const_value, is_none_test, split_cond, unparse
from .c12 import _weights_fn

PROP = "C05"
EXPLANATION = (
    "Path-sensitive abstract interpretation of the reweighting step with an 'evaluated-at' domain: every value derived "
    "from compute_logw_and_logz(B) carries the identity of B; at each finalising call the recorded beta, the weights, "
    "the ESS and logZ must carry the same identity (C05.a/b), through the bisection helpers and closures (inlined, "
    "loops unrolled once). The ESS-limit search may only return a beta for which ESS >= target was observed on the "
    "path, and the two-mode bisection must move the bracket end prescribed by the monotonicity table (C05.c). Bracket "
    "variables are only assigned midpoints of the bracket and returns are bracket members (C05.d: beta in "
    "[beta_prev, 1], exact and IEEE). Only the reweighting step and the initialisers write beta/ess/iter, and the "
    "pipeline runs reweight -> train -> resample -> mutate -> commit exactly once each with the right data wiring "
    "(C05.e). The numerical ESS floor and convergence of the bisection are not decided."
)
ASSUMPTIONS = ["ESS is non-increasing and the volume metric non-decreasing in beta (the declared monotonicity the bisection relies on)",
               "compute_logw_and_logz and effective_sample_size compute what C04/C20 decide about them"]


def finalizer(ctx: Context) -> FuncInfo:
    """The function that writes keys beta, logz and ess from its parameters."""
    for fi in ctx.prog.functions.values():
        ws = {a.key: a for a in ctx.state.in_func(fi, include_nested=False) if a.mode == "write"}
        if {"beta", "logz", "ess"} <= set(ws) and all(isinstance(ws[k].value, ast.Name) and ws[k].value.id in fi.params for k in ("beta", "logz", "ess")):
            return fi
    raise AnalysisError("C05: finalising function (writes beta/logz/ess from its parameters) not found")


def reweight_run(ctx: Context, fin: FuncInfo) -> FuncInfo:
    cands = [f for f in ctx.prog.functions.values() if f.cls is fin.cls and f is not fin and any(fin in [t for t in tg if isinstance(t, FuncInfo)] for (c, tg) in ctx.cg.sites.get(f.qualname, []))]
    if len(cands) != 1:
        raise AnalysisError(f"C05: reweighting run method not identified ({[c.short for c in cands]})")
    return cands[0]


def rule_ab(ctx: Context, R: Reporter, fin: FuncInfo, run: FuncInfo, wfn: FuncInfo):
    it = Interp(ctx, wfn)
    results = it.run_function(run)
    R.analysed["C05.a:paths_of_run"] = len(results)
    key_params = {}
    for a in ctx.state.in_func(fin, include_nested=False):
        if a.mode == "write" and isinstance(a.value, ast.Name):
            key_params[a.key] = a.value.id
    # which parameter carries the weights: the one that is returned (normalised)
    wparam = None
    for r in walk_no_nested(fin.node):
        if isinstance(r, ast.Return) and r.value is not None:
            rx = ExprResolver(fin.node).resolve(r.value, flow_of(fin.node).node_containing(r))
            for n in ast.walk(rx):
                if isinstance(n, ast.Name) and n.id in fin.params and n.id not in key_params.values():
                    wparam = n.id
    if wparam is None:
        raise AnalysisError("C05.a: weights parameter of the finalising function not identified")
    # the recorded values are the received ones: no parameter is re-bound before it is written
    fflow = flow_of(fin.node)
    for a in ctx.state.in_func(fin, include_nested=False):
        if a.mode == "write" and a.key in ("beta", "logz", "ess") and isinstance(a.value, ast.Name):
            wn = fflow.node_containing(a.call)
            rebound = [d for d in fflow.reaching(wn, a.value.id) if d.kind != "param"]
            R.check("C05.a", f"the finalising function records `{a.key}` as received", not rebound, fin, a.call,
                    msg=f"{fin.short}: `{a.value.id}` is re-bound ({'; '.join(norm_text(d.stmt)[:60] for d in rebound if d.stmt is not None)}) before it is written to `{a.key}`: "
                        f"the recorded {a.key} is no longer the value at which the weights, ESS and logZ passed in were computed",
                    key=f"finalizer-records-param:{a.key}")
    seen: Dict[tuple, Tuple[bool, str, Event]] = {}
    n_calls = 0
    for (rv, events, facts) in results:
        for ev in events:
            if ev.kind != "call" or ev.callee is not fin:
                continue
            n_calls += 1
            b = ev.args.get(key_params["beta"])
            w = ev.args.get(wparam)
            e = ev.args.get(key_params["ess"])
            z = ev.args.get(key_params["logz"])
            if b is None or w is None or e is None or z is None:
                raise AnalysisError("C05.a: finalising call with unbound arguments")
            bs = b.sym
            problems = []
            # a value of which nothing is known (no temperature, no kind: it came out of code the interpreter does not
            # follow -- an object attribute, a memo entry) is not evidence of a mismatch
            opaque = [nm_ for (nm_, v_) in (("weights", w), ("ESS", e)) if not all_at(v_) and not all_kinds(v_) and getattr(v_, "src", "") == "opaque"]
            if opaque:
                raise AnalysisError(f"C05.a: the {' / '.join(opaque)} handed to `{unparse(ev.call)[:50]}` cannot be traced to an evaluation of the weight function "
                                    f"(values read from objects or containers the path interpreter does not follow)")
            if all_at(w) != frozenset({bs}) or "logz" in all_kinds(w):
                problems.append(f"weights were computed at {set(all_at(w)) or 'no temperature'}")
            if all_at(e) != frozenset({bs}):
                problems.append(f"ESS was computed at {set(all_at(e)) or 'no temperature'}")
            if all_at(z) != frozenset({bs}) or all_kinds(z) != frozenset({"logz"}):
                problems.append(f"logZ is {z!r}")
            k = (ev.node.id, tuple(problems))
            if k not in seen:
                seen[k] = (not problems, "; ".join(problems), ev, bs)
    R.floor("C05.a", "finalising calls reached on enumerated paths", n_calls, 4)
    # every way out of the reweighting step records the iteration: no return that by-passes the finalising call
    rflow = flow_of(run.node)
    rcfg = rflow.cfg
    fin_nodes = [nd.id for nd in rcfg.stmt_nodes() for c in calls_in_node(nd) if fin in [t for t in ctx.res.call_targets(run, c) if isinstance(t, FuncInfo)]]
    # ... or an inline recording of all three keys (the first-iteration branch)
    by_call = {}
    for a in ctx.state.in_func(run, include_nested=False):
        if a.mode == "write" and a.key in ("beta", "logz", "ess"):
            by_call.setdefault(id(a.call), (a.call, set()))[1].add(a.key)
    for (c, keys) in by_call.values():
        if keys == {"beta", "logz", "ess"}:
            n0 = rflow.node_containing(c)
            if n0 is not None:
                fin_nodes.append(n0.id)
                # that branch records nominal values without looking at the pool: it is the branch for an *empty* pool,
                # so it must be guarded by the pool's emptiness (history length == 0), not by a counter that can be reset
                # while the pool is kept (a second run() on the same sampler, load_state() followed by run())
                from ..util import path_facts as _pf

                def _empty_pool_fact(t, pol) -> bool:
                    txt = norm_text(t)
                    if "get_history_length" in txt or ("len(" in txt and "get_history" in txt):
                        if isinstance(t, ast.Compare) and len(t.ops) == 1 and const_value(t.comparators[0]) == 0:
                            return (isinstance(t.ops[0], (ast.Eq, ast.LtE)) and pol) or (isinstance(t.ops[0], (ast.NotEq, ast.Gt)) and not pol)
                        if isinstance(t, ast.Compare) and len(t.ops) == 1 and const_value(t.comparators[0]) == 1:
                            return (isinstance(t.ops[0], ast.Lt) and pol) or (isinstance(t.ops[0], ast.GtE) and not pol)
                        if isinstance(t, ast.Call):
                            return not pol  # `if not state.get_history_length():`
                        if isinstance(t, ast.UnaryOp) and isinstance(t.op, ast.Not):
                            return pol
                    return False

                facts0 = []
                for (t, pol) in _pf(run.node, n0, inline_bools=True):
                    facts0 += split_cond(t, pol)
                ok0 = any(_empty_pool_fact(t, pol) for (t, pol) in facts0)
                R.check("C05.a", "the nominal first-iteration record (beta=0, logZ=0, nominal ESS, uniform weights) is written only for an empty pool", ok0, run, c,
                        msg=f"{run.short}: `{unparse(c)[:50]}` records nominal values without consulting the pool, but the branch is not guarded by the pool being empty (conditions here: "
                            f"{[(unparse(t)[:30], p) for (t, p) in facts0][:3]}): when the iteration counter is reset while the history is kept (a second run() on the same sampler, "
                            f"load_state() then run()) a populated pool is treated as empty -- the recorded ESS / logZ and the weights handed on ignore it", key="first-iteration-guard")
    for nd in rcfg.stmt_nodes():
        if nd.kind == "stmt" and isinstance(nd.stmt, ast.Return):
            if nd.id in fin_nodes:
                ok = True
            else:
                ok = not rcfg.reaches(rcfg.entry.id, nd.id, blocked=fin_nodes)
            R.check("C05.a", "every return of the reweighting step has recorded beta / logZ / ESS through the finalising function", ok, run, nd.stmt,
                    msg=f"{run.short}: `{unparse(nd.stmt)[:60]}` can be reached without calling {fin.short}: on that path (e.g. an iteration that does not advance) the recorded "
                        f"temperature, evidence and ESS are left over from the previous iteration while new weights are handed on", key=f"return-finalised:{norm_text(nd.stmt)[:40]}")
    by_node: Dict[int, List] = {}
    for (k, (ok, msg, ev, bs)) in seen.items():
        by_node.setdefault(ev.node.id, []).append((ok, msg, ev, bs))
    for nid, lst in by_node.items():
        bad = [x for x in lst if not x[0]]
        ev = lst[0][2]
        R.check(
            "C05.a", "recorded beta, weights, ESS and logZ refer to the same temperature on every path", not bad, run, ev.call,
            msg=f"{run.short}: on some path to `{unparse(ev.call)[:60]}` the recorded beta is {bad[0][3] if bad else ''} but {bad[0][1] if bad else ''}: "
                f"training/resampling weights, the recorded ESS or logZ belong to a different temperature than the recorded one",
            witness={"problems": [x[1] for x in bad][:4]}, key=f"coherent-tuple:{norm_text(ev.call)[:60]}",
        )
    # C05.b: every bisection-like helper (returns (beta, aux) with aux from a callable parameter)
    n_b = 0
    for f in ctx.prog.functions.values():
        if f.cls is not fin.cls or f is run or f is fin:
            continue
        callable_params = [p for p in f.params if any(isinstance(c, ast.Call) and isinstance(c.func, ast.Name) and c.func.id == p for c in calls_in(f.node))]
        if not callable_params:
            continue
        n_b += 1
        # interpret with a metric function whose auxiliary data is evaluated at its argument
        probe = _ProbeClosure()
        args = {p: V(func=probe) for p in callable_params}
        it2 = _ProbeInterp(ctx, wfn, probe)
        res = it2.run_function(f, args)
        bad = []
        n_ret = 0
        for (rv, events, facts) in res:
            if rv.tup is None or len(rv.tup) != 2:
                continue
            n_ret += 1
            b, aux = rv.tup
            if all_at(aux) != frozenset({b.sym}):
                bad.append((b.sym, set(all_at(aux))))
        R.check("C05.b", f"{f.short}: returned auxiliary data was produced by the metric function at the returned beta", not bad and n_ret > 0, f, f.node,
                msg=f"{f.short}: returns beta {bad[0][0] if bad else '?'} together with data evaluated at {bad[0][1] if bad else '?'} "
                    f"(e.g. the weights of a bracket end or of the previous iterate)", witness={"mismatches": [str(x) for x in bad][:4], "return_paths": n_ret},
                key=f"bisection-coherent:{f.short}")
    R.floor("C05.b", "bisection helpers taking a metric callable", n_b, 1)


class _ProbeClosure:
    """Stands for `metric_fn`: returns (metric, aux) both evaluated at the argument."""


class _ProbeInterp(Interp):
    def __init__(self, ctx, wfn, probe):
        super().__init__(ctx, wfn)
        self.probe = probe

    def _call(self, fi, e, env, events, depth, node, facts):
        if isinstance(e.func, ast.Name) and e.func.id in env and env[e.func.id].func is self.probe:
            b = self.eval(fi, e.args[0], env, events, depth, node, facts) if e.args else V()
            s = b.sym
            return V(tup=[V(at={s}, kinds={"logw"}, none=False), V(at={s}, kinds={"logw"}, none=False)], none=False)
        return super()._call(fi, e, env, events, depth, node, facts)


# ------------------------------------------------------------------ C05.c
def upper_limit_fn(ctx: Context, fin: FuncInfo, run: FuncInfo) -> FuncInfo:
    """Helper of the reweighter that returns a plain beta (not a pair) and has a loop."""
    for f in ctx.prog.functions.values():
        if f.cls is fin.cls and f not in (run, fin) and any(isinstance(n, ast.While) for n in walk_no_nested(f.node)):
            rets = [r for r in walk_no_nested(f.node) if isinstance(r, ast.Return) and r.value is not None]
            if rets and all(not isinstance(r.value, ast.Tuple) for r in rets):
                return f
    raise AnalysisError("C05.c: ESS-limit search not found")


def rule_c(ctx: Context, R: Reporter, fin: FuncInfo, run: FuncInfo, wfn: FuncInfo):
    up = upper_limit_fn(ctx, fin, run)
    it = Interp(ctx, wfn)
    params = [p for p in up.params if p != "self"]
    cur_p, tgt_p = params[0], params[1]
    res = it.run_function(up)
    bad = []
    nan_only = []
    n_ret = 0
    for (rv, events, facts) in res:
        n_ret += 1
        s = rv.sym
        if s == ("param", up.short, cur_p):
            continue  # not advancing
        ok = False
        for (test, pol, snap, operands) in facts:
            for (atom, p) in split_cond(test, pol):
                if not (isinstance(atom, ast.Compare) and len(atom.ops) == 1):
                    continue
                ops = operands.get(norm_text(atom))
                if ops is None:
                    continue
                l, op, r = ops
                # ESS(s) >= target true, or ESS(s) < target false (either operand order)
                def is_t(v):
                    return v.sym == ("param", up.short, tgt_p)

                def is_e(v):
                    return all_at(v) == frozenset({s}) and "logz" not in all_kinds(v) and bool(all_at(v))

                # only a comparison that came out TRUE supports the return: `not (ESS < target)` also holds for a NaN ESS
                # (nan weights of a pool whose warm-up batch fell outside the support), `ESS >= target` does not
                if is_e(l) and is_t(r) and ((op == "GtE" and p) or (op == "Gt" and p)):
                    ok = True
                if is_t(l) and is_e(r) and ((op == "LtE" and p) or (op == "Lt" and p)):
                    ok = True
                if (is_e(l) and is_t(r) and op == "Lt" and not p) or (is_t(l) and is_e(r) and op == "Gt" and not p):
                    nan_only.append(s)
        if not ok:
            bad.append(s)
    R.check(
        "C05.c", "the ESS-limit search returns the current beta or a beta at which ESS >= target was observed", not bad and n_ret >= 3, up, up.node,
        msg=f"{up.short}: a path returns beta {bad[0] if bad else '?'} without a supporting `ESS(beta) >= target` test on that path "
            f"(swapped bisection branches or a bracket end returned unchecked): the schedule can advance to a temperature whose ESS is below the target"
            + ("; the path is only supported by a failed `ESS < target` test, which a NaN ESS (non-finite weights) also fails -- the unchanged code does not advance on NaN" if bad and bad[0] in nan_only else ""),
        witness={"unsupported_returns": [str(b) for b in bad][:4], "return_paths": n_ret}, key=f"ess-limit-supported:{up.short}",
    )
    R.analysed["C05.c:upper_limit_paths"] = n_ret
    # the target handed to the ESS-limit search is the ESS target ess_ratio * n_particles in every mode
    from ..provenance import Tracer

    T = Tracer(ctx)
    cfg_classes = [c.name for c in ctx.prog.classes.values() if c.is_dataclass]
    n_sites = 0
    for (call, tg) in ctx.cg.sites.get(run.qualname, []):
        if up not in [t for t in tg if isinstance(t, FuncInfo)]:
            continue
        n_sites += 1
        arg = call_arg(call, 1, tgt_p)
        at = flow_of(run.node).node_containing(call)
        origs = T.origins(run, arg, at) if arg is not None else []
        fields = set()
        import re as _re

        for o in origs:
            mm = _re.match(r"parameter (\w+) of public " + _re.escape(run.cls.name) + r"\.__init__", o.detail)
            if mm:
                fields.add(mm.group(1))
        bad = sorted(f for f in fields if f not in ("ess_ratio", "n_particles"))
        ok = arg is not None and {"ess_ratio", "n_particles"} <= fields and not bad
        R.check("C05.c", "the ESS-limit search is given the ESS target ess_ratio * n_particles (in every metric mode)", ok, run, call,
                msg=f"{run.short}: `{unparse(call)[:70]}` passes a target whose provenance is the constructor argument(s) {sorted(fields)}"
                    + (f": {bad} is not the ESS target -- in volume-variation mode the ESS limit on the advance disappears" if bad else ""),
                witness={"origins": [repr(o) for o in origs][:6]}, key="ess-limit-target")
        # ... and it is exactly their product (a truncated/rounded target lowers the ESS floor)
        rx = ExprResolver(run.node).resolve(arg, at) if arg is not None else None
        core = rx
        while isinstance(core, ast.Call) and isinstance(core.func, ast.Name) and core.func.id == "float" and len(core.args) == 1:
            core = core.args[0]
        is_prod = (isinstance(core, ast.BinOp) and isinstance(core.op, ast.Mult)
                   and {norm_text(core.left), norm_text(core.right)} == {"self.ess_ratio", "self.n_particles"})
        if ok and not is_prod:
            lossy = [c for c in ast.walk(rx) if isinstance(c, ast.Call) and (unparse(c.func).split(".")[-1] in ("int", "round", "floor", "ceil", "trunc", "rint", "around", "max", "min", "maximum", "minimum", "clip"))]
            if not lossy:
                raise AnalysisError(f"C05.c: cannot decide whether `{unparse(rx)[:80]}` equals ess_ratio * n_particles")
            R.check("C05.c", "the ESS target is exactly ess_ratio * n_particles", False, run, call,
                    msg=f"{run.short}: the target handed to the ESS-limit search is `{unparse(rx)[:80]}`, not ess_ratio * n_particles: rounding/clamping the target lets the advance "
                        f"stop at a temperature whose ESS is below the configured fraction", key="ess-limit-target-exact")
        elif ok:
            R.check("C05.c", "the ESS target is exactly ess_ratio * n_particles", True, run, call, key="ess-limit-target-exact")
    R.floor("C05.c", "call sites of the ESS-limit search", n_sites, 1)
    # two-mode bisection table
    n_tab = 0
    for f in ctx.prog.functions.values():
        if f.cls is not fin.cls or f in (run, fin, up):
            continue
        callable_params = [p for p in f.params if any(isinstance(c, ast.Call) and isinstance(c.func, ast.Name) and c.func.id == p for c in calls_in(f.node))]
        if not callable_params:
            continue
        ps = [p for p in f.params if p != "self"]
        lo_p, hi_p, target_p = ps[0], ps[1], ps[2]
        flow = flow_of(f.node)
        cfg = flow.cfg
        for n in cfg.stmt_nodes():
            if n.kind != "stmt" or not isinstance(n.stmt, ast.Assign) or not isinstance(n.stmt.targets[0], ast.Name) or n.stmt.targets[0].id not in (lo_p, hi_p) or not n.loops:
                continue
            # truth table over the atoms of the path condition (local boolean names and conditional expressions inlined):
            # under which (mode, metric-vs-target) combinations is this update executed?
            import itertools

            from ..util import bool_skeleton, path_facts

            facts_ = path_facts(f.node, n, inline_bools=True)
            atoms: List[ast.expr] = []
            fns = [(bool_skeleton(e_, atoms), pol) for (e_, pol) in facts_]
            kind = []  # per atom: ('mode', value of the atom that means ESS mode) / ('below', value that means metric < target) / None
            for a_ in atoms:
                k_ = None
                nt = is_none_test(a_)
                if nt is not None and "volume_variation" in norm_text(nt[0]):
                    k_ = ("mode", nt[1])  # atom true <=> (volume_variation is None) == nt[1]
                elif isinstance(a_, ast.Compare) and len(a_.ops) == 1 and target_p in {x.id for x in ast.walk(a_) if isinstance(x, ast.Name)}:
                    l, r = a_.left, a_.comparators[0]
                    opn = type(a_.ops[0]).__name__
                    lt = None
                    if isinstance(r, ast.Name) and r.id == target_p:
                        lt = {"Lt": True, "LtE": True, "Gt": False, "GtE": False}.get(opn)
                    elif isinstance(l, ast.Name) and l.id == target_p:
                        lt = {"Gt": True, "GtE": True, "Lt": False, "LtE": False}.get(opn)
                    if lt is not None:
                        k_ = ("below", lt)
                kind.append(k_)
            if len(atoms) > 12 or not any(k_ and k_[0] == "mode" for k_ in kind) or not any(k_ and k_[0] == "below" for k_ in kind):
                raise AnalysisError(f"C05.c: bracket update `{unparse(n.stmt)}` in {f.short} not under recognisable (mode, metric-vs-target) conditions")
            combos = set()
            for val in itertools.product([False, True], repeat=len(atoms)):
                if not all(fn_(val) == pol for (fn_, pol) in fns):
                    continue
                modes = {("ess" if (val[i] == k_[1]) else "vv") for i, k_ in enumerate(kind) if k_ and k_[0] == "mode"}
                belows = {(val[i] == k_[1]) for i, k_ in enumerate(kind) if k_ and k_[0] == "below"}
                if len(modes) == 1 and len(belows) == 1:
                    combos.add((modes.pop(), belows.pop()))
            if not combos:
                raise AnalysisError(f"C05.c: bracket update `{unparse(n.stmt)}` in {f.short} is under an unsatisfiable or unreadable condition")
            for (mode, below) in sorted(combos):
                n_tab += 1
                want = {("ess", True): hi_p, ("ess", False): lo_p, ("vv", True): lo_p, ("vv", False): hi_p}[(mode, below)]
                got = n.stmt.targets[0].id
                R.check(
                    "C05.c", f"bisection moves the {'upper' if want == hi_p else 'lower'} end when mode={mode} and metric {'<' if below else '>='} target", got == want, f, n.stmt,
                    msg=f"{f.short}: in {'ESS' if mode == 'ess' else 'volume-variation'} mode with metric {'below' if below else 'at/above'} target the code moves `{got}` but the "
                        f"declared monotonicity ({'ESS decreases' if mode == 'ess' else 'volume variation increases'} with beta) requires moving `{want}`",
                    key=f"bisect-table:{mode}:{'lt' if below else 'ge'}",
                )
    R.floor("C05.c", "bracket updates in the two-mode bisection", n_tab, 4)


# ------------------------------------------------------------------ C05.d
def _is_midpoint(e: ast.expr, a: str, b: str) -> bool:
    """(a + b) * 0.5, (a + b) / 2, 0.5 * (a + b), a + (b - a) * 0.5, a + (b - a) / 2."""
    def is_sum(x):
        return isinstance(x, ast.BinOp) and isinstance(x.op, ast.Add) and {norm_text(x.left), norm_text(x.right)} == {a, b}

    def half(x):
        return const_value(x) == 0.5

    if isinstance(e, ast.BinOp):
        if isinstance(e.op, ast.Mult) and ((is_sum(e.left) and half(e.right)) or (is_sum(e.right) and half(e.left))):
            return True
        if isinstance(e.op, ast.Div) and is_sum(e.left) and const_value(e.right) in (2, 2.0):
            return True
        if isinstance(e.op, ast.Add):
            for base, rest in ((e.left, e.right), (e.right, e.left)):
                if norm_text(base) in (a, b):
                    other = b if norm_text(base) == a else a
                    if isinstance(rest, ast.BinOp):
                        d = None
                        if isinstance(rest.op, ast.Mult) and half(rest.right):
                            d = rest.left
                        elif isinstance(rest.op, ast.Mult) and half(rest.left):
                            d = rest.right
                        elif isinstance(rest.op, ast.Div) and const_value(rest.right) in (2, 2.0):
                            d = rest.left
                        if isinstance(d, ast.BinOp) and isinstance(d.op, ast.Sub) and norm_text(d.left) == other and norm_text(d.right) == norm_text(base):
                            return True
    return False


def _is_trial_point(e: ast.expr, a: str, b: str) -> bool:
    """(a + b) * c, (a + b) / c, c * (a + b), a + (b - a) * c, a + (b - a) / c with a numeric constant c:
    an affine combination of the two bracket ends (the midpoint when c is one half)."""
    def is_sum(x):
        return isinstance(x, ast.BinOp) and isinstance(x.op, ast.Add) and {norm_text(x.left), norm_text(x.right)} == {a, b}

    def is_diff(x):
        return isinstance(x, ast.BinOp) and isinstance(x.op, ast.Sub) and {norm_text(x.left), norm_text(x.right)} == {a, b}

    def num(x):
        return isinstance(const_value(x), (int, float))

    if isinstance(e, ast.BinOp):
        if isinstance(e.op, (ast.Mult, ast.Div)) and ((is_sum(e.left) and num(e.right)) or (isinstance(e.op, ast.Mult) and is_sum(e.right) and num(e.left))):
            return True
        if isinstance(e.op, ast.Add):
            for base, rest in ((e.left, e.right), (e.right, e.left)):
                if norm_text(base) in (a, b) and isinstance(rest, ast.BinOp) and isinstance(rest.op, (ast.Mult, ast.Div)) and ((is_diff(rest.left) and num(rest.right)) or (isinstance(rest.op, ast.Mult) and is_diff(rest.right) and num(rest.left))):
                    return True
    return False


def rule_d(ctx: Context, R: Reporter, fin: FuncInfo, run: FuncInfo):
    n = 0
    for f in ctx.prog.functions.values():
        if f.cls is not fin.cls or f in (run, fin) or not any(isinstance(x, ast.While) for x in walk_no_nested(f.node)):
            continue
        flow = flow_of(f.node)
        cfg = flow.cfg
        # bracket variables: pairs (lo, hi) used in a midpoint
        mids = []
        for nd in cfg.stmt_nodes():
            if nd.kind == "stmt" and isinstance(nd.stmt, ast.Assign) and isinstance(nd.stmt.targets[0], ast.Name) and isinstance(nd.stmt.value, ast.BinOp) and nd.loops:
                names = sorted({x.id for x in ast.walk(nd.stmt.value) if isinstance(x, ast.Name)})
                if len(names) == 2 and _is_trial_point(nd.stmt.value, names[0], names[1]):
                    mids.append((nd, names))
        if not mids:
            raise AnalysisError(f"C05.d: no trial-point assignment (affine combination of the two bracket ends) found in {f.short}")
        for (nd, (a, b)) in mids:
            n += 1
            R.check("C05.d", f"{f.short}: the trial beta is the midpoint of the current bracket", _is_midpoint(nd.stmt.value, a, b), f, nd.stmt,
                    msg=f"{f.short}: `{unparse(nd.stmt)}` is not the midpoint of ({a}, {b}); a trial value outside the bracket can leave [beta_prev, 1]", key=f"midpoint:{f.short}")
            mid = nd.stmt.targets[0].id
            # bracket variables inside the loop are only assigned the midpoint variable
            for m2 in cfg.stmt_nodes():
                if m2.kind == "stmt" and isinstance(m2.stmt, (ast.Assign, ast.AugAssign)) and m2.loops:
                    t = m2.stmt.targets[0] if isinstance(m2.stmt, ast.Assign) else m2.stmt.target
                    if isinstance(t, ast.Name) and t.id in (a, b):
                        n += 1
                        ok = isinstance(m2.stmt, ast.Assign) and isinstance(m2.stmt.value, ast.Name) and m2.stmt.value.id == mid
                        R.check("C05.d", f"{f.short}: bracket end `{t.id}` is only moved to the trial midpoint", ok, f, m2.stmt,
                                msg=f"{f.short}: `{unparse(m2.stmt)}` moves a bracket end to something other than the midpoint `{mid}`", key=f"bracket-assign:{f.short}:{t.id}:{norm_text(m2.stmt)[:30]}")
            # returns are bracket members
            for rn in cfg.stmt_nodes():
                if rn.kind == "stmt" and isinstance(rn.stmt, ast.Return) and rn.stmt.value is not None:
                    v = rn.stmt.value.elts[0] if isinstance(rn.stmt.value, ast.Tuple) else rn.stmt.value
                    n += 1
                    members = {a, b, mid} | {p for p in f.params}
                    ok = (isinstance(v, ast.Name) and v.id in members) or const_value(v) in (1, 1.0)
                    R.check("C05.d", f"{f.short}: returned beta is a member of the bracket (or the literal 1.0)", ok, f, rn.stmt,
                            msg=f"{f.short}: returns `{unparse(v)}`, not one of {sorted(members)}", key=f"return-member:{f.short}:{norm_text(v)}")
        # initial bracket of the ESS-limit search: (current beta, 1.0)
        for nd in cfg.stmt_nodes():
            if nd.kind == "stmt" and isinstance(nd.stmt, ast.Assign) and not nd.loops and isinstance(nd.stmt.targets[0], ast.Name):
                for (mnd, (a, b)) in mids:
                    if nd.stmt.targets[0].id in (a, b):
                        n += 1
                        v = nd.stmt.value
                        ok = (isinstance(v, ast.Name) and v.id in f.params) or const_value(v) in (1, 1.0)
                        R.check("C05.d", f"{f.short}: initial bracket end is the current beta or 1.0", ok, f, nd.stmt,
                                msg=f"{f.short}: bracket initialised with `{unparse(v)}`", key=f"bracket-init:{f.short}:{nd.stmt.targets[0].id}")
    R.floor("C05.d", "bracket obligations", n, 8)
    # call sites: bisection called with (beta_prev, beta_upper); upper limit with (beta_prev, ...)
    flow = flow_of(run.node)
    for nd in flow.cfg.stmt_nodes():
        for c in calls_in_node(nd):
            for t in ctx.res.call_targets(run, c):
                if isinstance(t, FuncInfo) and t.cls is fin.cls and t not in (run, fin) and any(isinstance(x, ast.While) for x in walk_no_nested(t.node)):
                    a0 = c.args[0] if c.args else None
                    rx = ExprResolver(run.node).resolve(a0, nd) if a0 is not None else None
                    ok = rx is not None and isinstance(rx, ast.Call) and isinstance(rx.func, ast.Attribute) and rx.func.attr == "get_current" and const_value(call_arg(rx, 0, "key")) == "beta"
                    R.check("C05.d", f"the lower end handed to {t.name} is the previous beta", ok, run, c,
                            msg=f"{run.short}: `{unparse(c)[:70]}` starts its search at `{unparse(rx) if rx is not None else None}`, not at the current beta: beta could decrease", key=f"search-from-prev:{t.name}")
    # literal writes of beta: 0.0 only
    for a in ctx.state.accesses:
        if a.mode == "write" and a.key == "beta" and a.func.cls is fin.cls and a.func is not fin:
            R.check("C05.d", "literal beta written by the reweighting step is 0.0", const_value(a.value) in (0, 0.0), a.func, a.call,
                    msg=f"{a.func.short}: writes beta = `{unparse(a.value)}`", key=f"literal-beta:{a.func.short}")


# ------------------------------------------------------------------ C05.e
def pipeline_fn(ctx: Context, run: FuncInfo) -> FuncInfo:
    for fi in ctx.prog.functions.values():
        if any(run in [t for t in tg if isinstance(t, FuncInfo)] for (c, tg) in ctx.cg.sites.get(fi.qualname, [])):
            return fi
    raise AnalysisError("C05.e: pipeline function (caller of the reweighting step) not found")


def rule_e(ctx: Context, R: Reporter, fin: FuncInfo, run: FuncInfo):
    pipe = pipeline_fn(ctx, run)
    flow = flow_of(pipe.node)
    cfg = flow.cfg
    # classify the step calls
    steps = {}
    for nd in cfg.stmt_nodes():
        for c in calls_in_node(nd):
            for t in ctx.res.call_targets(pipe, c):
                if not isinstance(t, FuncInfo):
                    continue
                tw = ctx.state.transitive_writes(ctx.cg, t)
                role = None
                if t is run:
                    role = "reweight"
                elif t.name == "commit_current_to_history" or any(isinstance(x, ast.Call) and isinstance(x.func, ast.Attribute) and x.func.attr == "append" and "_history" in norm_text(x.func.value) for x in ast.walk(t.node)):
                    role = "commit"
                elif "calls" in tw and "u" in tw:
                    role = "mutate"
                elif "assignments" in tw and "calls" not in tw:
                    role = "resample"
                elif t.node.returns is not None and "ModeStatistics" in norm_text(t.node.returns):
                    role = "train"
                if role:
                    steps.setdefault(role, []).append((nd, c, t))
    order = ["reweight", "train", "resample", "mutate", "commit"]
    for r in order:
        lst = steps.get(r, [])
        R.check("C05.e", f"pipeline calls `{r}` exactly once", len(lst) == 1 and not lst[0][0].loops, pipe, lst[0][1] if lst else pipe.node,
                msg=f"{pipe.short}: step `{r}` is called {len(lst)} times (or inside a loop)", key=f"once:{r}")
    if all(len(steps.get(r, [])) == 1 for r in order):
        nodes = [steps[r][0][0] for r in order]
        for i in range(len(order) - 1):
            a, b = nodes[i], nodes[i + 1]
            ok = cfg.dominates(a.id, b.id) and a.id != b.id and (cfg.postdominates(b.id, a.id) or not cfg.reaches(a.id, cfg.exit.id, blocked=[b.id]))
            R.check("C05.e", f"`{order[i]}` runs before `{order[i + 1]}` on every path", ok, pipe, steps[order[i + 1]][0][1],
                    msg=f"{pipe.short}: `{order[i + 1]}` is not executed after `{order[i]}` on every path", key=f"order:{order[i]}->{order[i + 1]}")
        # data wiring
        rw = steps["reweight"][0]
        tr = steps["train"][0]
        rs = steps["resample"][0]
        mu = steps["mutate"][0]

        def result_name(entry):
            nd = entry[0]
            if isinstance(nd.stmt, ast.Assign) and isinstance(nd.stmt.targets[0], ast.Name):
                return nd.stmt.targets[0].id, nd
            return None, nd

        wname, wnode = result_name(rw)
        mname, mnode = result_name(tr)

        def receives(entry, name, defnode):
            c = entry[1]
            for a in list(c.args) + [k.value for k in c.keywords]:
                if isinstance(a, ast.Name) and a.id == name and any(d.node is defnode for d in flow.reaching(entry[0], name)) and len(flow.reaching(entry[0], name)) == 1:
                    return True
            return False

        R.check("C05.e", "training receives the weights returned by reweighting", wname is not None and receives(tr, wname, wnode), pipe, tr[1],
                msg=f"{pipe.short}: `{unparse(tr[1])}` does not receive the result of `{unparse(rw[1])}`", key="wire:train")
        R.check("C05.e", "resampling receives the weights returned by reweighting", wname is not None and receives(rs, wname, wnode), pipe, rs[1],
                msg=f"{pipe.short}: `{unparse(rs[1])}` does not receive the result of `{unparse(rw[1])}`", key="wire:resample")
        R.check("C05.e", "mutation receives the mode statistics returned by training", mname is not None and receives(mu, mname, mnode), pipe, mu[1],
                msg=f"{pipe.short}: `{unparse(mu[1])}` does not receive the result of `{unparse(tr[1])}`", key="wire:mutate")
        # nothing between reweight and commit writes beta / ess / iter
        for r in ("train", "resample", "mutate"):
            t = steps[r][0][2]
            tw = ctx.state.transitive_writes(ctx.cg, t)
            bad = sorted(set(tw) & {"beta", "ess", "iter"})
            R.check("C05.e", f"`{r}` does not write beta/ess/iter", not bad, pipe, steps[r][0][1],
                    msg=f"{pipe.short}: step `{r}` ({t.short}) writes {bad} ({[a.loc for k in bad for a in tw[k]][:3]}): the recorded schedule position no longer matches the weights", key=f"no-schedule-write:{r}")
    # who may write beta / ess / iter anywhere
    allowed_classes = {fin.cls.qualname if fin.cls else None, pipe.cls.qualname if pipe.cls else None}
    for k in ("beta", "ess", "iter"):
        for a in ctx.state.writers(k):
            ok = (a.func.cls.qualname if a.func.cls else None) in allowed_classes
            R.check("C05.e", f"key `{k}` is written only by the reweighting step and the run initialisers", ok, a.func, a.call,
                    msg=f"{a.func.short}: writes key `{k}` outside the reweighting step / initialisers", key=f"writer:{k}:{a.func.short}")
    # iter is incremented exactly once per reweighting call
    iw = [a for a in ctx.state.in_func(run, include_nested=False) if a.mode == "write" and a.key == "iter"]
    ok = False
    if len(iw) == 1:
        n = flow_of(run.node).node_containing(iw[0].call)
        rx = ExprResolver(run.node).resolve(iw[0].value, n)
        ok = isinstance(rx, ast.BinOp) and isinstance(rx.op, ast.Add) and const_value(rx.right) == 1 and isinstance(rx.left, ast.Call) and isinstance(rx.left.func, ast.Attribute) and rx.left.func.attr == "get_current" \
            and const_value(call_arg(rx.left, 0, "key")) == "iter" and not n.loops and cfg_of(run.node).dominates(n.id, cfg_of(run.node).exit.id)
    R.check("C05.e", "the iteration counter grows by exactly one per reweighting call", ok, run, iw[0].call if iw else run.node,
            msg=f"{run.short}: `iter` is not set to get_current('iter') + 1 exactly once on every path", key="iter-plus-one")


def _beta_tests(ctx: Context, fi: FuncInfo):
    """Branch tests of `fi` whose (resolved) condition compares the current beta
    (read from the state) with something."""
    flow = flow_of(fi.node)
    rs = ExprResolver(fi.node)
    out = []
    for nd in flow.cfg.stmt_nodes():
        if nd.kind != "test" or nd.ast is None:
            continue
        for (atom, pol) in split_cond(nd.ast, True):
            rx = rs.resolve(atom, nd)
            reads = [c for c in ast.walk(rx) if isinstance(c, ast.Call) and isinstance(c.func, ast.Attribute) and c.func.attr == "get_current"
                     and const_value(call_arg(c, 0, "key")) == "beta"]
            if reads and isinstance(rx, ast.Compare) and len(rx.ops) == 1:
                out.append((nd, atom, rx))
    return out


def rule_f(ctx: Context, R: Reporter, fin: FuncInfo, run: FuncInfo):
    """All steps of one iteration agree on what the prior-sampling (warm-up)
    phase is: the branch predicate on the current beta is `beta == 0.0` in each
    of them. With `beta < tol` in one step only, an iteration at 0 < beta < tol
    is treated as warm-up by that step (prior draws replace tempered particles,
    or clustering/resampling is skipped) and as a tempering iteration by the others."""
    pipe = pipeline_fn(ctx, run)
    step_funcs = []
    for (c, tg) in ctx.cg.sites.get(pipe.qualname, []):
        for t in tg:
            if isinstance(t, FuncInfo) and t.cls is not None and t.cls is not pipe.cls and t.name == "run" and t not in step_funcs:
                step_funcs.append(t)
    R.floor("C05.f", "step run methods called by the pipeline", len(step_funcs), 4)
    n = 0
    for f in step_funcs:
        for (nd, atom, rx) in _beta_tests(ctx, f):
            # orient: beta on the left
            l, r, op = rx.left, rx.comparators[0], type(rx.ops[0]).__name__
            if not (isinstance(l, ast.Call) and isinstance(l.func, ast.Attribute) and l.func.attr == "get_current"):
                l, r = r, l
                op = {"Lt": "Gt", "Gt": "Lt", "LtE": "GtE", "GtE": "LtE"}.get(op, op)
            if not (isinstance(l, ast.Call) and isinstance(l.func, ast.Attribute) and l.func.attr == "get_current"):
                raise AnalysisError(f"C05.f: {f.short}: cannot read the predicate `{unparse(rx)}` on the current beta")
            cv = const_value(r)
            if f is run and not (cv in (0, 0.0) and op in ("Eq", "NotEq", "LtE", "Lt", "Gt", "GtE")):
                continue  # the reweighting step also compares beta with 1 / tolerances: C05.d, C12.a
            n += 1
            ok = op in ("Eq", "NotEq") and cv in (0, 0.0) and cv is not False
            R.check("C05.f", f"{f.short}: the warm-up phase is exactly `beta == 0`", ok, f, atom,
                    msg=f"{f.short}: branches on `{unparse(rx)[:70]}`; the other steps treat exactly beta == 0.0 as the prior-sampling phase, so an iteration at a small positive beta is "
                        f"handled as warm-up here (e.g. tempered particles replaced by prior draws, or resampling/clustering skipped) and as a tempering iteration elsewhere",
                    key=f"warmup-predicate:{f.short}")
    R.floor("C05.f", "warm-up predicates in the step run methods", n, 3)


def rule_stateless(ctx: Context, R: Reporter):
    """C05.g  the step object is a function of the state object it works on: no method other than the constructor stores
    state-derived data in the step object for a later call to read back."""
    from ..util import stateless_steps_rule

    stateless_steps_rule(ctx, R, "C05.g", ("Reweighter",), "temperatures are chosen from weights / ESS values of an earlier history")


def run(ctx: Context, R: Reporter):
    R.guard(rule_stateless, ctx, R)
    fin = finalizer(ctx)
    rw = reweight_run(ctx, fin)
    wfn = _weights_fn(ctx)
    R.guard(rule_ab, ctx, R, fin, rw, wfn)
    R.guard(rule_c, ctx, R, fin, rw, wfn)
    R.guard(rule_d, ctx, R, fin, rw)
    R.guard(rule_e, ctx, R, fin, rw)
    R.guard(rule_f, ctx, R, fin, rw)


def _memo_variant(key_expr: str):
    """A memo of _compute_metric_and_weights kept for one run() call (reset first thing in run), keyed by `key_expr`."""
    from ..variants import chain, insert_after, insert_before, replace_stmt

    rw = "tempest/steps/reweight.py"
    return chain(
        insert_after(rw, "Reweighter.__init__", "self.BETA_TOLERANCE = BETA_TOLERANCE", "self._evaluations = {}"),
        insert_before(rw, "Reweighter._compute_metric_and_weights", "logw, _ = self.state.compute_logw_and_logz(beta)",
                      f"key = {key_expr}\nif key in self._evaluations:\n    return self._evaluations[key]"),
        replace_stmt(rw, "Reweighter._compute_metric_and_weights", "return (weights, ess_est, metric_val)",
                     "self._evaluations[key] = (weights, ess_est, metric_val)\nreturn (weights, ess_est, metric_val)"),
        insert_before(rw, "Reweighter.run", "iter_val = self.state.get_current('iter') + 1", "self._evaluations = {}"),
    )


def variants():
    from ..variants import Variant, alpha_rename, delete_stmt, insert_after, insert_before, replace_expr, replace_stmt

    rw = "tempest/steps/reweight.py"
    core = "tempest/core.py"
    return [
        Variant("a-first-iteration-by-counter", "bad", replace_expr(rw, "Reweighter.run", "self.state.get_history_length() == 0", "iter_val == 1"), ["C05.a"], quick=True),
        Variant("a-benign-first-iteration-not-length", "benign", replace_expr(rw, "Reweighter.run", "self.state.get_history_length() == 0", "not self.state.get_history_length()")),
        Variant("g-benign-per-step-scratch", "benign", _scratch_variant()),
        # per-call memo of the evaluations: an exact key (scalar or composite) hands back what was computed at that beta;
        # a lossy key hands back values of a neighbouring temperature
        Variant("a-benign-memo-exact-scalar-key", "benign", _memo_variant("beta")),
        Variant("a-benign-memo-exact-composite-key", "benign", _memo_variant("(beta, self.volume_variation)"), quick=True),
        Variant("a-memo-key-on-tolerance-grid", "bad", _memo_variant("int(round(beta / self.BETA_TOLERANCE))"), ["C05.a"], quick=True),
        Variant("a-memo-composite-key-rounded-beta", "bad", _memo_variant("(round(beta, 3), self.volume_variation)"), ["C05.a"], quick=True),
        Variant("a-memo-composite-key-without-beta", "bad", _memo_variant("(self.volume_variation, self.n_particles)"), ["C05.a"]),
        Variant("g-reweighter-keeps-first-logw", "bad", insert_after(rw, "Reweighter._compute_metric_and_weights", "logw, _ = self.state.compute_logw_and_logz(beta)", "if getattr(self, '_lw', None) is None:\n    self._lw = logw\nlogw = self._lw"), ["C05.g"], quick=True),
        Variant("a-weights-of-upper", "bad", replace_stmt(rw, "Reweighter.run", "weights = weights_prev", "weights = weights_upper"), ["C05.a"], quick=True),
        Variant("a-ess-of-prev", "bad", replace_stmt(rw, "Reweighter.run", "ess_est = ess_upper", "ess_est = ess_prev"), ["C05.a"]),
        Variant("a-logz-at-upper", "bad", replace_expr(rw, "Reweighter.run", "self.state.compute_logw_and_logz(beta)", "self.state.compute_logw_and_logz(beta_upper)"), ["C05.a"], quick=True),
        Variant("a-vv-stale-weights", "bad", replace_stmt(rw, "Reweighter.run", "weights = None", "weights, _, _ = self._compute_metric_and_weights(beta_prev)"), ["C05.a"]),
        Variant("b-return-bracket-end", "bad", replace_stmt(rw, "Reweighter._find_beta_bisection", "return beta, aux_data", "return beta_max, aux_data"), ["C05.b", "C05.a"], quick=True),
        Variant("c-upper-swapped", "bad", _swap_if(rw, "Reweighter._find_beta_upper_limit", "ess_mid >= ess_ratio"), ["C05.c"], quick=True),
        Variant("c-upper-return-high", "bad", replace_stmt(rw, "Reweighter._find_beta_upper_limit", "return beta_low", "return beta_high"), ["C05.c"]),
        Variant("c-bisect-ess-swapped", "bad", _swap_if(rw, "Reweighter._find_beta_bisection", "metric_val < target", nth=0), ["C05.c"], quick=True),
        Variant("c-bisect-vv-swapped", "bad", _swap_if(rw, "Reweighter._find_beta_bisection", "metric_val < target", nth=1), ["C05.c"]),
        Variant("c-upper-early-return-flipped", "bad", replace_expr(rw, "Reweighter._find_beta_upper_limit", "ess_at_one >= ess_ratio", "ess_at_one <= ess_ratio"), ["C05.c"]),
        Variant("d-not-midpoint", "bad", replace_expr(rw, "Reweighter._find_beta_upper_limit", "(beta_high + beta_low) * 0.5", "(beta_high + beta_low) * 0.75"), ["C05.d"]),
        Variant("d-bracket-starts-at-zero", "bad", replace_stmt(rw, "Reweighter._find_beta_upper_limit", "beta_low = beta_current", "beta_low = 0.0"), ["C05.d", "C05.c"]),
        Variant("d-search-from-zero", "bad", replace_expr(rw, "Reweighter.run", "self._find_beta_upper_limit(beta_prev, ess_max)", "self._find_beta_upper_limit(0.0, ess_max)"), ["C05.d"]),
        Variant("c-target-truncated", "bad", replace_stmt(rw, "Reweighter.run", "ess_max = self.ess_ratio * self.n_particles", "ess_max = int(self.ess_ratio * self.n_particles)"), ["C05.c"], quick=True),
        Variant("c-target-float-benign", "benign", replace_stmt(rw, "Reweighter.run", "ess_max = self.ess_ratio * self.n_particles", "ess_max = float(self.n_particles * self.ess_ratio)")),
        Variant("a-finalizer-snaps-beta", "bad", insert_before(rw, "Reweighter._finalize_iteration", "weights = weights / np.sum(weights)", "if 1.0 - beta < self.BETA_TOLERANCE:\n    beta = 1.0"), ["C05.a"], quick=True),
        Variant("f-mutate-warmup-tolerance", "bad", replace_expr("tempest/steps/mutate.py", "Mutator.run", "beta == 0.0", "beta < 1e-4"), ["C05.f"], quick=True),
        Variant("f-resample-warmup-tolerance", "bad", replace_expr("tempest/steps/resample.py", "Resampler.run", "beta == 0.0", "beta <= 1e-6"), ["C05.f"]),
        Variant("f-train-warmup-flipped-benign", "benign", replace_expr("tempest/steps/train.py", "Trainer.run", "beta_val == 0.0", "0.0 == beta_val")),
        Variant("e-mutate-writes-beta", "bad", insert_before("tempest/steps/mutate.py", "Mutator.run", "calls = self.state.get_current('calls') + mcmc_calls", "self.state.set_current('beta', min(1.0, beta))"), ["C05.e"], quick=True),
        Variant("e-resample-before-train", "bad", _swap_calls(core), ["C05.e"]),
        Variant("e-train-stale-weights", "bad", replace_stmt(core, "SamplerCore.execute_iteration", "mode_stats = self.trainer.run(weights)", "mode_stats = self.trainer.run(np.ones_like(weights) / len(weights))"), ["C05.e"]),
        Variant("e-iter-plus-two", "bad", replace_expr(rw, "Reweighter.run", "self.state.get_current('iter') + 1", "self.state.get_current('iter') + 2"), ["C05.e"]),
        Variant("benign-rename-weights", "benign", alpha_rename(rw, "Reweighter.run", "weights_upper", "w_hi"), quick=True),
        Variant("benign-midpoint-form", "benign", replace_expr(rw, "Reweighter._find_beta_upper_limit", "(beta_high + beta_low) * 0.5", "beta_low + (beta_high - beta_low) / 2")),
        # formerly listed as benign; it is not: `if ess < T: high = mid else: low = mid` also moves `low` for a NaN ESS (seed C05-h2 demonstrates the advance on nan weights)
        Variant("c-upper-test-flipped-nan-feasible", "bad", _rewrite_upper_test(rw), ["C05.c"], quick=True),
    ]


def _swap_if(relpath, defpath, test_text, nth=0):
    from ..variants import edit, text

    key = "".join(test_text.split())

    def fn(node, tree):
        k = 0
        for n in ast.walk(node):
            if isinstance(n, ast.If) and text(n.test) == key and n.orelse:
                if k == nth:
                    n.body, n.orelse = n.orelse, n.body
                    return True
                k += 1
        return False

    return edit(relpath, defpath, fn)


def _swap_calls(core):
    from ..variants import edit

    def fn(node, tree):
        body = node.body
        ti = next((i for i, s in enumerate(body) if "trainer.run" in ast.unparse(s)), None)
        ri = next((i for i, s in enumerate(body) if "resampler.run" in ast.unparse(s)), None)
        if ti is None or ri is None:
            return False
        body[ti], body[ri] = body[ri], body[ti]
        return True

    return edit(core, "SamplerCore.execute_iteration", fn)


def _rewrite_upper_test(rw):
    """if ess_mid >= T: low = mid else: high = mid  ->  if ess_mid < T: high = mid else: low = mid"""
    from ..variants import edit, text

    def fn(node, tree):
        for n in ast.walk(node):
            if isinstance(n, ast.If) and text(n.test) == "ess_mid>=ess_ratio" and n.orelse:
                n.test = ast.Compare(left=n.test.left, ops=[ast.Lt()], comparators=n.test.comparators)
                n.body, n.orelse = n.orelse, n.body
                return True
        return False

    return edit(rw, "Reweighter._find_beta_upper_limit", fn)


def _scratch_variant():
    """the reweighter keeps the log-weights of the current step in an attribute that run() empties first"""
    from ..variants import chain, insert_after, insert_before

    rw = "tempest/steps/reweight.py"
    return chain(
        insert_after(rw, "Reweighter.__init__", "self.BETA_TOLERANCE = BETA_TOLERANCE", "self._step_logw = {}"),
        insert_after(rw, "Reweighter._compute_metric_and_weights", "logw, _ = self.state.compute_logw_and_logz(beta)", "self._step_logw[beta] = logw\nn_seen = len(self._step_logw)"),
        insert_before(rw, "Reweighter.run", "iter_val = self.state.get_current('iter') + 1", "self._step_logw = {}"),
    )
